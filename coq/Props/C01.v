(* Props/C01.v -- C01: distillation is faithful.  Property theorems only.
   Model: Distill/Net.v (afftree_from_layers_generic layer by layer: apply_func for Linear, compose::<false> +
   infeasible_elimination per activation, compose::<true> for Argmax / ClassChar; one LP / mirror oracle per layer).
   Reference semantics: Arch.net_eval (affine maps, ReLU, leaky ReLU, hard tanh clamped to [-1,1], hard sigmoid with
   slope parameter s, argmax = first index of a maximal component, class characterisation), net_sem = undefined
   where the precondition tree is undefined.
   Hypotheses: the layer list is dimension-consistent (decidable layers_out_dim), the precondition is ANY well-formed
   tree (total or partial, with cached states whose Infeasible marks exclude x), every oracle's Infeasible answers
   exclude x (for exact solvers: every x; for a solver sound up to thin regions: every x outside them).
   "Exact where all intermediate values are exactly representable" is this theorem over Qc; the "up to rounding"
   clause for inexact f64 products (hard sigmoid slope 1/6, real network weights) is measured by the runner, not proved. *)
From AT Require Import Num Vec Aff PTree Cells Abs Cache Elim ElimEval ElimCache ElimEff WfC History EffHistory ElimCount ElimCountNet Arch Net NetProofs NetExample NetCount NetCountEx.

(* with an arbitrary precondition tree: defined exactly where the precondition is, and then equal to the network *)
Theorem C01_distill_faithful : forall os tol s n d0 dout pre ls x,
  cwft n d0 pre -> root_live pre -> marks_kids x [] pre ->
  layers_out_dim d0 ls = Some dout -> Forall layer_wf ls -> (forall j, osound (os j) x) ->
  exists r, distill_from os tol s 0 d0 pre ls = Some r /\ cwft n dout r /\ cev r x = net_sem s pre ls x.
Proof. exact distill_faithful. Qed.
(* without a precondition: the distilled tree is total and equals the network on every input of the right length *)
Theorem C01_distill_faithful_total : forall os tol s n dout ls x,
  layers_out_dim n ls = Some dout -> Forall layer_wf ls -> (forall j, osound (os j) x) -> length x = n ->
  exists r, distill os tol s n ls = Some r /\ cwft n dout r /\ cev r x = Some (net_eval s ls x).
Proof. exact distill_faithful_total. Qed.
(* one layer: what the induction carries (well-formed, live root, sound marks) and what the layer does *)
Theorem C01_layer_step : forall o tol s n d d' l t x,
  layer_out_dim d l = Some d' -> layer_wf l -> osound o x -> inv n d x t ->
  inv n d' x (distill_step o tol s d l t) /\
  cev (distill_step o tol s d l t) x = option_map (layer_eval s l) (cev t x).
Proof. exact distill_step_ok. Qed.
(* a dimension-inconsistent layer list is rejected (the code panics on its dimension asserts) *)
Theorem C01_rejects_inconsistent : forall os tol s ls j d t,
  layers_out_dim d ls = None -> distill_from os tol s j d t ls = None.
Proof. exact distill_rejects. Qed.
(* the distillation is defined exactly on the dimension-consistent layer lists, for every oracle; in particular every
   architecture the Architecture builder accepts (C18) distills *)
Theorem C01_defined_iff_consistent : forall os tol s ls j d t,
  (exists r, distill_from os tol s j d t ls = Some r) <-> layers_ok d ls = true.
Proof. exact distill_defined_iff. Qed.
Theorem C01_accepted_architecture_distills : forall os tol s n cs,
  exists r, distill os tol s n (arch_layers (arch_run false (arch_new n) cs)) = Some r.
Proof. exact accepted_architecture_distills. Qed.

(* split points: the tree distilled from the first layers, composed with the tree distilled from the remaining ones,
   denotes what the tree distilled from the whole list denotes (C18's split clause for the pruned trees themselves) *)
Theorem C01_distilled_split : forall os1 os2 os tol s n d1 dout l1 l2 x,
  layers_out_dim n l1 = Some d1 -> layers_out_dim d1 l2 = Some dout -> Forall layer_wf l1 -> Forall layer_wf l2 ->
  (forall j z, osound (os1 j) z) -> (forall j z, osound (os2 j) z) -> (forall j z, osound (os j) z) -> length x = n ->
  exists r1 r2 r, distill os1 tol s n l1 = Some r1 /\ distill os2 tol s d1 l2 = Some r2 /\
                  distill os tol s n (l1 ++ l2) = Some r /\
                  eval (compose (erase r1) (erase r2)) x = cev r x.
Proof. exact distilled_split. Qed.

(* the certified solver is an oracle that satisfies the hypothesis for every input of the right length *)
Theorem C01_exact_oracle_exists : forall n x, length x = n -> osound (solver_oracle n) x.
Proof. exact solver_oracle_sound. Qed.

(* non-vacuity: relu(2x-1) on the precondition -3 <= x <= 3, distilled with the certified solver as oracle *)
Example C01_nonvacuous :
  (forall x, length x = 1%nat ->
     exists r, distill_from nx_os 0 0 0 1 nx_pre nx_layers = Some r /\ cwft 1 1 r /\ cev r x = net_sem 0 nx_pre nx_layers x) /\
  option_map (fun r => (cev r [1 + 1], cev r [0], cev r [1 + 1 + 1 + 1])) (distill_from nx_os 0 0 0 1 nx_pre nx_layers)
  = Some (Some [1 + 1 + 1], Some [0], None).
Proof. exact (conj nx_faithful nx_values). Qed.

Print Assumptions C01_distill_faithful.
Print Assumptions C01_distill_faithful_total.
Print Assumptions C01_layer_step.
Print Assumptions C01_rejects_inconsistent.
Print Assumptions C01_defined_iff_consistent.
Print Assumptions C01_accepted_architecture_distills.
Print Assumptions C01_distilled_split.
Print Assumptions C01_exact_oracle_exists.
Print Assumptions C01_nonvacuous.

(* ================================================================ C01 x C06: the counting sentence for networks as distilled
   by the builder model (Distill/NetCount.v).  For head-free layer lists (Linear / ReLU / LeakyReLU / HardTanh / HardSigmoid;
   Argmax / ClassChar compose with pruning on the fly and are not operations of a C06 pipeline) the builder loop
   distill_from IS a pipeline of Pwl/EffHistory.v: OApply a per Linear, OCompose false (schema tree); OElim per activation
   (net_ops, oracle os j during layer j), all schema trees total, the identity terminal a legal start.  The reference
   distill_unpruned is the same loop without infeasible_elimination (= run of strip (net_ops ..)); its erasure is the
   un-pruned reference tree Arch.distill_ref, its terminal regions leaf_regions [] U are the activation regions.
   Oracle hypothesis in the form of Pwl/ElimCountNet.v: exact_hist tol t (net_ops ..) = every elimination's oracle is exact
   on the path polytopes of the tree it is applied to; implied by oracles that are exact everywhere (C01_distilled_exact_oracles),
   decided by running the pipeline for the certified solver oracle lp_oracle (C01_lp_oracle_decides). *)
Theorem C01_distilled_is_pipeline : forall os tol s n dout ls,
  head_free ls = true -> layers_out_dim n ls = Some dout -> Forall layer_wf ls ->
  (exists r U, distill os tol s n ls = Some r /\ run tol (id_tree n) (net_ops os s 0 n ls) = HOk r /\
               distill_unpruned s n ls = Some U /\ run tol (id_tree n) (strip (net_ops os s 0 n ls)) = HOk U) /\
  (forall ox, In ox (net_ops os s 0 n ls) -> eff_op (snd ox)) /\ pinv tol (id_tree n).
Proof. exact distilled_is_pipeline. Qed.
(* the same from any well-formed precondition tree, layer counter j *)
Theorem C01_distilled_from_is_pipeline : forall os tol s n ls j d dout t,
  head_free ls = true -> layers_out_dim d ls = Some dout -> Forall layer_wf ls -> cwft n d t ->
  exists r U, distill_from os tol s j d t ls = Some r /\ run tol t (net_ops os s j d ls) = HOk r /\ cwft n dout r /\
              distill_unpruned_from s d t ls = Some U /\ run tol t (strip (net_ops os s j d ls)) = HOk U /\ cwft n dout U.
Proof. exact distill_from_is_run. Qed.
Theorem C01_distilled_ops_total : forall os s ls j d, head_free ls = true ->
  forall ox, In ox (net_ops os s j d ls) -> eff_op (snd ox).
Proof. exact net_ops_eff. Qed.
Theorem C01_distilled_reference_is_unpruned_tree : forall s n ls dout U,
  head_free ls = true -> layers_out_dim n ls = Some dout ->
  distill_unpruned s n ls = Some U -> erase U = distill_ref s n ls.
Proof. exact distill_unpruned_is_ref. Qed.

(* terminals of distill = terminals of the reference selected by a mask; every non-empty activation region is kept; any tol >= 0 *)
Theorem C01_distilled_count_mask : forall os tol s n ls dout r U, 0 <= tol ->
  head_free ls = true -> layers_out_dim n ls = Some dout -> Forall layer_wf ls ->
  exact_hist tol (id_tree n) (net_ops os s 0 n ls) ->
  distill os tol s n ls = Some r -> distill_unpruned s n ls = Some U ->
  exists m : list bool,
    length m = length (leaf_regions [] U) /\
    leaf_funcs r = select m (leaf_funcs U) /\
    Forall2 (fun (b : bool) (Rg : rows) => ne Rg -> b = true) m (leaf_regions [] U).
Proof. exact distilled_count_mask. Qed.
(* #full-dimensional activation regions <= #terminals *)
Theorem C01_distilled_count_lower : forall os tol s n ls dout r U (full : list bool), 0 <= tol ->
  head_free ls = true -> layers_out_dim n ls = Some dout -> Forall layer_wf ls ->
  exact_hist tol (id_tree n) (net_ops os s 0 n ls) ->
  distill os tol s n ls = Some r -> distill_unpruned s n ls = Some U ->
  Forall2 (fun (b : bool) (Rg : rows) => b = true -> interior Rg) full (leaf_regions [] U) ->
  (count full <= nleaves r)%nat.
Proof. exact distilled_count_lower. Qed.
(* tol = 0, the list ends with an activation layer: #terminals = #non-empty closed activation regions *)
Theorem C01_distilled_count_exact_tol0 : forall os s n ls l dout r U (closed : list bool),
  head_free (ls ++ [l]) = true -> (forall a, l <> LLinear a) ->
  layers_out_dim n (ls ++ [l]) = Some dout -> Forall layer_wf (ls ++ [l]) ->
  exact_hist 0 (id_tree n) (net_ops os s 0 n (ls ++ [l])) ->
  distill os 0 s n (ls ++ [l]) = Some r -> distill_unpruned s n (ls ++ [l]) = Some U ->
  Forall2 (fun (b : bool) (Rg : rows) => b = true <-> ne Rg) closed (leaf_regions [] U) ->
  nleaves r = count closed.
Proof. exact distilled_count_exact_tol0. Qed.
(* the three sentences from any legal precondition tree (pinv: e.g. a fresh total tree, or the result of such a pipeline) *)
Theorem C01_distilled_from_count_mask : forall os tol s n ls j d dout t r U, 0 <= tol ->
  head_free ls = true -> layers_out_dim d ls = Some dout -> Forall layer_wf ls -> cwft n d t -> pinv tol t ->
  exact_hist tol t (net_ops os s j d ls) ->
  distill_from os tol s j d t ls = Some r -> distill_unpruned_from s d t ls = Some U ->
  exists m : list bool,
    length m = length (leaf_regions [] U) /\
    leaf_funcs r = select m (leaf_funcs U) /\
    Forall2 (fun (b : bool) (Rg : rows) => ne Rg -> b = true) m (leaf_regions [] U).
Proof. exact distilled_from_count_mask. Qed.
Theorem C01_distilled_from_count_lower : forall os tol s n ls j d dout t r U (full : list bool), 0 <= tol ->
  head_free ls = true -> layers_out_dim d ls = Some dout -> Forall layer_wf ls -> cwft n d t -> pinv tol t ->
  exact_hist tol t (net_ops os s j d ls) ->
  distill_from os tol s j d t ls = Some r -> distill_unpruned_from s d t ls = Some U ->
  Forall2 (fun (b : bool) (Rg : rows) => b = true -> interior Rg) full (leaf_regions [] U) ->
  (count full <= nleaves r)%nat.
Proof. exact distilled_from_count_lower. Qed.
Theorem C01_distilled_from_count_exact_tol0 : forall os s n ls l j d dout t r U (closed : list bool),
  head_free (ls ++ [l]) = true -> (forall a, l <> LLinear a) ->
  layers_out_dim d (ls ++ [l]) = Some dout -> Forall layer_wf (ls ++ [l]) -> cwft n d t -> pinv 0 t ->
  exact_hist 0 t (net_ops os s j d (ls ++ [l])) ->
  distill_from os 0 s j d t (ls ++ [l]) = Some r -> distill_unpruned_from s d t (ls ++ [l]) = Some U ->
  Forall2 (fun (b : bool) (Rg : rows) => b = true <-> ne Rg) closed (leaf_regions [] U) ->
  nleaves r = count closed.
Proof. exact distilled_from_count_exact_tol0. Qed.

(* the oracle hypothesis: implied by oracles that are exact everywhere; decided for the certified solver oracle *)
Theorem C01_distilled_exact_oracles : forall os tol s ls j d t,
  (forall k, oexact (os k) /\ mir_sound (os k) tol) -> exact_hist tol t (net_ops os s j d ls).
Proof. exact net_ops_exact_hist. Qed.
Theorem C01_lp_oracle_never_lies : forall n q,
  match lpo_answer n q with LInf => ~ ne q | LUnb => ne q | LOpt w => in_rows q w | LErr => True end.
Proof. exact lpo_answer_sound. Qed.
Theorem C01_lp_oracle_decides : forall n tol s ls j d t,
  exact_histb n tol t (net_ops (fun _ => lp_oracle n) s j d ls) = true ->
  exact_hist tol t (net_ops (fun _ => lp_oracle n) s j d ls).
Proof. exact lp_net_exact_hist. Qed.

(* non-vacuity: x |-> relu (relu x - 1) on R^1 (Linear, ReLU, Linear, ReLU), certified solver oracle, tol = 0:
   four activation patterns, one dead (x <= 0 and 0 <= -1), three terminals *)
Example C01_distilled_count_nonvacuous :
  (exists r U : ctree,
    (head_free dn_layers = true /\ layers_out_dim 1 dn_layers = Some 1%nat /\ Forall layer_wf dn_layers /\
     exact_hist 0 (id_tree 1) (net_ops dn_os 0 0 1 dn_layers) /\
     distill dn_os 0 0 1 dn_layers = Some r /\ distill_unpruned 0 1 dn_layers = Some U) /\
    length (leaf_regions [] U) = 4%nat /\ nleaves r = 3%nat /\ count dn_closed = 3%nat /\
    leaf_funcs r = select dn_closed (leaf_funcs U) /\
    nth 2 (leaf_regions [] U) [] = dn_dead /\
    Forall2 (fun (b : bool) (Rg : rows) => b = true <-> ne Rg) dn_closed (leaf_regions [] U) /\
    Forall2 (fun (b : bool) (Rg : rows) => b = true -> interior Rg) dn_closed (leaf_regions [] U)) /\
  (forall r U, distill dn_os 0 0 1 dn_layers = Some r -> distill_unpruned 0 1 dn_layers = Some U ->
    run 0 (id_tree 1) (net_ops dn_os 0 0 1 dn_layers) = HOk r /\
    (exists m : list bool, length m = length (leaf_regions [] U) /\ leaf_funcs r = select m (leaf_funcs U) /\
       Forall2 (fun (b : bool) (Rg : rows) => ne Rg -> b = true) m (leaf_regions [] U)) /\
    (forall full, Forall2 (fun (b : bool) (Rg : rows) => b = true -> interior Rg) full (leaf_regions [] U) ->
       (count full <= nleaves r)%nat) /\
    (forall closed, Forall2 (fun (b : bool) (Rg : rows) => b = true <-> ne Rg) closed (leaf_regions [] U) ->
       nleaves r = count closed)).
Proof. exact (conj dn_net dn_theorems). Qed.

Print Assumptions C01_distilled_is_pipeline.
Print Assumptions C01_distilled_from_is_pipeline.
Print Assumptions C01_distilled_ops_total.
Print Assumptions C01_distilled_reference_is_unpruned_tree.
Print Assumptions C01_distilled_count_mask.
Print Assumptions C01_distilled_count_lower.
Print Assumptions C01_distilled_count_exact_tol0.
Print Assumptions C01_distilled_from_count_mask.
Print Assumptions C01_distilled_from_count_lower.
Print Assumptions C01_distilled_from_count_exact_tol0.
Print Assumptions C01_distilled_exact_oracles.
Print Assumptions C01_lp_oracle_never_lies.
Print Assumptions C01_lp_oracle_decides.
Print Assumptions C01_distilled_count_nonvacuous.

(* Props/C01.v -- C01: distillation is faithful.  Property theorems only.
   Model: Distill/Net.v (afftree_from_layers_generic layer by layer: apply_func for Linear, compose::<false> +
   infeasible_elimination per activation, compose::<true> for Argmax / ClassChar; one LP / mirror oracle per layer).
   Reference semantics: Arch.net_eval (affine maps, ReLU, leaky ReLU, hard tanh clamped to [-1,1], hard sigmoid with
   slope parameter s, argmax = first index of a maximal component, class characterisation), net_sem = undefined
   where the precondition tree is undefined.
   Hypotheses: the layer list is dimension-consistent (decidable layers_out_dim), the precondition is ANY well-formed
   tree (total or partial, with cached states whose Infeasible marks exclude x), every oracle's Infeasible answers
   exclude x (for exact solvers: every x; for a solver sound up to thin regions: every x outside them).
   "Exact where all intermediate values are exactly representable" is this theorem over Qc; the "up to rounding"
   clause for inexact f64 products (hard sigmoid slope 1/6, real network weights) is measured by the runner, not proved. *)
From AT Require Import Num Vec Aff PTree Cells Abs Cache Elim ElimEval WfC Arch Net NetProofs NetExample.

(* with an arbitrary precondition tree: defined exactly where the precondition is, and then equal to the network *)
Theorem C01_distill_faithful : forall os tol s n d0 dout pre ls x,
  cwft n d0 pre -> root_live pre -> marks_kids x [] pre ->
  layers_out_dim d0 ls = Some dout -> Forall layer_wf ls -> (forall j, osound (os j) x) ->
  exists r, distill_from os tol s 0 d0 pre ls = Some r /\ cwft n dout r /\ cev r x = net_sem s pre ls x.
Proof. exact distill_faithful. Qed.
(* without a precondition: the distilled tree is total and equals the network on every input of the right length *)
Theorem C01_distill_faithful_total : forall os tol s n dout ls x,
  layers_out_dim n ls = Some dout -> Forall layer_wf ls -> (forall j, osound (os j) x) -> length x = n ->
  exists r, distill os tol s n ls = Some r /\ cwft n dout r /\ cev r x = Some (net_eval s ls x).
Proof. exact distill_faithful_total. Qed.
(* one layer: what the induction carries (well-formed, live root, sound marks) and what the layer does *)
Theorem C01_layer_step : forall o tol s n d d' l t x,
  layer_out_dim d l = Some d' -> layer_wf l -> osound o x -> inv n d x t ->
  inv n d' x (distill_step o tol s d l t) /\
  cev (distill_step o tol s d l t) x = option_map (layer_eval s l) (cev t x).
Proof. exact distill_step_ok. Qed.
(* a dimension-inconsistent layer list is rejected (the code panics on its dimension asserts) *)
Theorem C01_rejects_inconsistent : forall os tol s ls j d t,
  layers_out_dim d ls = None -> distill_from os tol s j d t ls = None.
Proof. exact distill_rejects. Qed.
(* the distillation is defined exactly on the dimension-consistent layer lists, for every oracle; in particular every
   architecture the Architecture builder accepts (C18) distills *)
Theorem C01_defined_iff_consistent : forall os tol s ls j d t,
  (exists r, distill_from os tol s j d t ls = Some r) <-> layers_ok d ls = true.
Proof. exact distill_defined_iff. Qed.
Theorem C01_accepted_architecture_distills : forall os tol s n cs,
  exists r, distill os tol s n (arch_layers (arch_run false (arch_new n) cs)) = Some r.
Proof. exact accepted_architecture_distills. Qed.

(* split points: the tree distilled from the first layers, composed with the tree distilled from the remaining ones,
   denotes what the tree distilled from the whole list denotes (C18's split clause for the pruned trees themselves) *)
Theorem C01_distilled_split : forall os1 os2 os tol s n d1 dout l1 l2 x,
  layers_out_dim n l1 = Some d1 -> layers_out_dim d1 l2 = Some dout -> Forall layer_wf l1 -> Forall layer_wf l2 ->
  (forall j z, osound (os1 j) z) -> (forall j z, osound (os2 j) z) -> (forall j z, osound (os j) z) -> length x = n ->
  exists r1 r2 r, distill os1 tol s n l1 = Some r1 /\ distill os2 tol s d1 l2 = Some r2 /\
                  distill os tol s n (l1 ++ l2) = Some r /\
                  eval (compose (erase r1) (erase r2)) x = cev r x.
Proof. exact distilled_split. Qed.

(* the certified solver is an oracle that satisfies the hypothesis for every input of the right length *)
Theorem C01_exact_oracle_exists : forall n x, length x = n -> osound (solver_oracle n) x.
Proof. exact solver_oracle_sound. Qed.

(* non-vacuity: relu(2x-1) on the precondition -3 <= x <= 3, distilled with the certified solver as oracle *)
Example C01_nonvacuous :
  (forall x, length x = 1%nat ->
     exists r, distill_from nx_os 0 0 0 1 nx_pre nx_layers = Some r /\ cwft 1 1 r /\ cev r x = net_sem 0 nx_pre nx_layers x) /\
  option_map (fun r => (cev r [1 + 1], cev r [0], cev r [1 + 1 + 1 + 1])) (distill_from nx_os 0 0 0 1 nx_pre nx_layers)
  = Some (Some [1 + 1 + 1], Some [0], None).
Proof. exact (conj nx_faithful nx_values). Qed.

Print Assumptions C01_distill_faithful.
Print Assumptions C01_distill_faithful_total.
Print Assumptions C01_layer_step.
Print Assumptions C01_rejects_inconsistent.
Print Assumptions C01_defined_iff_consistent.
Print Assumptions C01_accepted_architecture_distills.
Print Assumptions C01_distilled_split.
Print Assumptions C01_exact_oracle_exists.
Print Assumptions C01_nonvacuous.

(* Props/C13.v -- C13: traversals and tree metrics are exact for every shape and start node.  Property theorems only.

   Model: Arena/Iter.v (DfsPre / DfsEdge / Bfs of src/tree/iter.rs and PolyhedraIter::size_hint of src/pwl/iter.rs
   as coded: pending stack/queue, last_push, size_lb, size_ub; variant v_cur = the code after the repairs of
   D2..D7, v_orig = the code as found), Arena/IterMetrics.v (num_nodes, num_terminals, depth, depth_stats,
   path_to_node, index-order iterators as coded).
   Specification: Arena/IterSpec.v -- itree (the tree an arena unfolds to), the forest machine (pending subtrees;
   Skip forgets the children of the last item), the recursive listings pre / level_order / pree, size, height.
   Hypotheses: tree_inv a troot T (the arena is exactly the tree T below troot; implied by C12's invariant:
   C13_applies_to_every_reachable_arena; checked on every dump through minvb) and subtree t T (t = the subtree of the start node: ANY node of the tree).
   Scripts are arbitrary lists over {Next, Skip}: skips at every position, repeated skips, calls after the end.
   obs_match item o so: the coded machine returned the item of the specification (never a panic) and its
   size_hint (lb, Some ub) satisfies lb <= (number of items still to come) <= ub. *)
From Coq Require Import List Arith Permutation Sorted.
From AT Require Import Num Cells Iter IterSpec IterProofs IterInst IterCor IterMetrics IterMetricsProofs IterRefuted IterBridge.
From AT Require Tree TreeInv.
Import ListNotations.
Local Open Scope nat_scope.

(* ------------------------------------------------------------------ refinement, for every script and start node *)
Theorem C13_dfspre_refines : forall V (a : arena V) troot T t sc, tree_inv a troot T -> subtree t T ->
  Forall2 (obs_match sent_item) (dfspre_run v_cur a troot (idx t) sc) (spec_pre_run sc t).
Proof. exact @dfspre_refines. Qed.
Theorem C13_bfs_refines : forall V (a : arena V) troot T t sc, tree_inv a troot T -> subtree t T ->
  Forall2 (obs_match sent_item) (bfs_run v_cur a troot (idx t) sc) (spec_bfs_run sc t).
Proof. exact @bfs_refines. Qed.
Theorem C13_dfsedge_refines : forall V (a : arena V) troot T t sc, tree_inv a troot T -> subtree t T ->
  Forall2 (obs_match sedge_ed) (dfsedge_run v_cur a troot (idx t) sc) (spec_edge_run sc t).
Proof. exact @dfsedge_refines. Qed.
Theorem C13_polyhedra_iter_refines : forall V (a : arena V) troot T sc, tree_inv a troot T ->
  Forall2 (obs_match sent_item) (poly_run v_cur a troot sc) (spec_pre_run sc T).
Proof. exact @poly_refines. Qed.

(* size_hint() right after new() brackets the number of items of the traversal (nodes resp. edges of the subtree) *)
Theorem C13_hint_after_new : forall V (a : arena V) troot T t, tree_inv a troot T -> subtree t T ->
  m_lb (dfspre_new a troot (idx t)) <= size t <= m_ub (dfspre_new a troot (idx t)) /\
  m_lb (bfs_new a troot (idx t)) <= size t <= m_ub (bfs_new a troot (idx t)).
Proof. exact @hint_new_node. Qed.
Theorem C13_hint_after_new_edge : forall V (a : arena V) troot T t, tree_inv a troot T -> subtree t T ->
  exists m, dfsedge_new v_cur a troot (idx t) = ROk m /\ m_lb m <= size t - 1 <= m_ub m.
Proof. exact @hint_new_edge. Qed.

(* the number the hints are compared with IS the number of items still to come: in any state of the forest machine
   n further calls of Next return the first n entries of [future] and then None; [future] has [remaining] entries *)
Theorem C13_remaining_is_items_to_come : forall SE fifo (ssize : SE -> nat) expandS, size_ok ssize expandS ->
  forall n s,
  map sobs_out (s_run fifo expandS ssize (repeat Next n) s) =
    map Some (firstn n (future fifo expandS ssize (s_pend fifo s))) ++ repeat None (n - remaining fifo ssize s) /\
  length (future fifo expandS ssize (s_pend fifo s)) = remaining fifo ssize s.
Proof. intros SE fifo ssize expandS H n s. split; [apply nexts_future; exact H | apply future_length; exact H]. Qed.
Theorem C13_size_ok : size_ok sent_size expandS_pre /\ size_ok sedge_size expandS_edge.
Proof. exact (conj size_ok_pre size_ok_edge). Qed.

(* ------------------------------------------------------------------ order, depth, sibling counters without skips *)
(* the coded machines: n calls of next() from any start node return the first n items of the recursive pre-order
   (level-order, edge) listing of that node's subtree -- children by ascending label, depth, number of siblings
   still to come -- and None from then on: every node (edge) of the subtree once, nothing else *)
Theorem C13_dfspre_order : forall V (a : arena V) troot T t n, tree_inv a troot T -> subtree t T ->
  map obs_out (dfspre_run v_cur a troot (idx t) (repeat Next n)) = map Some (firstn n (pre 0 0 t)) ++ repeat None (n - size t).
Proof. exact @coded_pre_noskip. Qed.
Theorem C13_bfs_order : forall V (a : arena V) troot T t n, tree_inv a troot T -> subtree t T ->
  map obs_out (bfs_run v_cur a troot (idx t) (repeat Next n)) = map Some (firstn n (level_order t)) ++ repeat None (n - size t).
Proof. exact @coded_bfs_noskip. Qed.
Theorem C13_dfsedge_order : forall V (a : arena V) troot T t n, tree_inv a troot T -> subtree t T ->
  map (option_map ed_item) (map obs_out (dfsedge_run v_cur a troot (idx t) (repeat Next n))) =
  map Some (firstn n (pree t)) ++ repeat None (n - (size t - 1)).
Proof. exact @coded_edge_noskip. Qed.
Theorem C13_polyhedra_iter_order : forall V (a : arena V) troot T n, tree_inv a troot T ->
  map obs_out (poly_run v_cur a troot (repeat Next n)) = map Some (firstn n (pre 0 0 T)) ++ repeat None (n - size T).
Proof. exact @coded_poly_noskip. Qed.
(* the listings have one entry per node: |pre| = size, and the breadth-first listing is a rearrangement of the
   depth-first one (same nodes, same depths, same sibling counters) *)
Theorem C13_pre_length : forall t d r, length (pre d r t) = size t.
Proof. exact length_pre. Qed.
Theorem C13_level_order_same_items : forall t, Permutation (level_order t) (pre 0 0 t).
Proof. exact level_order_perm_pre. Qed.
(* DfsPre::iter(..) run to exhaustion (what num_nodes, depth, depth_stats, dfs_iter consume) *)
Theorem C13_dfs_iter : forall V (a : arena V) troot T t, tree_inv a troot T -> subtree t T ->
  dfs_iter a troot (idx t) = ROk (pre 0 0 t).
Proof. exact @dfs_iter_pre. Qed.

(* ------------------------------------------------------------------ skip_subtree *)
(* depth-first (nodes): in every state the items still to come are the pre-order lists of the pending children of
   the last item, followed by exactly what remains after Skip; right after Next returned the item of t that first
   block is the pre-order list of t without t, i.e. the descendants of the last returned item *)
Theorem C13_skip_omits_descendants_pre : forall (s : sst sent),
  map sent_item (future false expandS_pre sent_size (s_pend false s)) =
  flat_map pre_sent (s_kids s) ++ map sent_item (future false expandS_pre sent_size (s_pend false (s_skip s))).
Proof. exact spec_pre_skip_exact. Qed.
Theorem C13_skipped_block_pre : forall fifo (s s' : sst sent) d r t,
  s_next fifo expandS_pre s = (Some (d, r, t), s') -> flat_map pre_sent (s_kids s') = tl (pre d r t).
Proof. exact spec_pre_kids_after_next. Qed.
Theorem C13_skip_omits_descendants_edge : forall (s : sst sedge),
  map sedge_item (future false expandS_edge sedge_size (s_pend false s)) =
  flat_map pree_sedge (s_kids s) ++ map sedge_item (future false expandS_edge sedge_size (s_pend false (s_skip s))).
Proof. exact spec_edge_skip_exact. Qed.
Theorem C13_skipped_block_edge : forall (s s' : sst sedge) d sr l t,
  s_next false expandS_edge s = (Some (d, sr, l, t), s') -> flat_map pree_sedge (s_kids s') = pree t.
Proof. exact spec_edge_kids_after_next. Qed.
(* breadth-first: on every later level Skip removes exactly the trailing block that descends from the last item *)
Theorem C13_skip_omits_descendants_bfs : forall (s : sst sent) k,
  level expandS_pre k (s_pend true s) = level expandS_pre k (s_pend true (s_skip s)) ++ level expandS_pre k (s_kids s).
Proof. exact (skip_exact_fifo expandS_pre). Qed.
Theorem C13_future_bfs_is_levels : forall n p, total sent_size p <= n ->
  future true expandS_pre sent_size p = levels expandS_pre n p.
Proof. exact (future_fifo_levels sent_size expandS_pre size_ok_pre). Qed.
(* repeated skips: idempotent, in the specification and in the coded machine *)
Theorem C13_skip_idempotent_spec : forall SE (s : sst SE), s_skip (s_skip s) = s_skip s.
Proof. exact @s_skip_idem. Qed.
Theorem C13_skip_idempotent_coded : forall E fifo (m m' : mach E), m_skip v_cur fifo m = ROk m' -> m_skip v_cur fifo m' = ROk m'.
Proof. exact @coded_skip_idem. Qed.

(* ------------------------------------------------------------------ metrics = direct computation on the tree *)
Theorem C13_num_nodes : forall V (a : arena V) troot T t, tree_inv a troot T -> subtree t T ->
  num_nodes a troot (idx t) = ROk (size t).
Proof. exact @num_nodes_size. Qed.
Theorem C13_depth : forall V (a : arena V) troot T, tree_inv a troot T -> depth_of a troot = ROk (height T).
Proof. exact @depth_height. Qed.
Theorem C13_num_terminals : forall V (a : arena V) r T, minv a r T -> num_terminals a = nleaves T.
Proof. exact @num_terminals_nleaves. Qed.
Theorem C13_depth_stats : forall V (a : arena V) r T, minv a r T -> depth_stats a r = ROk (depth_stats_direct T).
Proof. exact @depth_stats_direct_eq. Qed.
(* ... where the four statistics of the sample l = leafdepths 0 T are: the least element, the greatest element,
   mean * n = sum, variance * (n - 1) = sum of squared deviations from the mean (n >= 2) *)
Theorem C13_stats_min : forall l m, list_min l = Some m -> In m l /\ forall x, In x l -> m <= x.
Proof. exact list_min_spec. Qed.
Theorem C13_stats_max : forall l m, list_max_opt l = Some m -> In m l /\ forall x, In x l -> x <= m.
Proof. exact list_max_opt_spec. Qed.
Theorem C13_stats_mean : forall l mu, sample_mean l = Some mu -> (mu * qnat (length l) = qsum (map qnat l))%Qc.
Proof. exact sample_mean_spec. Qed.
Theorem C13_stats_variance : forall l s2, sample_var l = Some s2 ->
  exists mu, sample_mean l = Some mu /\ 2 <= length l /\
    (s2 * qnat (length l - 1) = qsum (map (fun x => (qnat x - mu) * (qnat x - mu)) l))%Qc.
Proof. exact sample_var_spec. Qed.
Theorem C13_path_to_node : forall V (a : arena V) r T, minv a r T -> forall target,
  path_to_node a target = ROk (path_find target T).
Proof. exact @path_to_node_direct. Qed.
(* index-order iterators: ascending, and exactly the nodes / childless nodes / nodes with children of the tree *)
Theorem C13_node_indices : forall V (a : arena V) r T, minv a r T ->
  StronglySorted lt (node_indices a) /\ Permutation (node_indices a) (indices T).
Proof. exact @node_indices_direct. Qed.
Theorem C13_terminal_indices : forall V (a : arena V) r T, minv a r T ->
  StronglySorted lt (terminal_indices a) /\ Permutation (terminal_indices a) (leaf_indices T).
Proof. exact @terminal_indices_direct. Qed.
Theorem C13_decision_indices : forall V (a : arena V) r T, minv a r T ->
  StronglySorted lt (decision_indices a) /\ Permutation (decision_indices a) (inner_indices T).
Proof. exact @decision_indices_direct. Qed.

(* the hypotheses are checked on every dumped arena by executable functions that are sound *)
Theorem C13_unfold_sound : forall V (a : arena V) fuel i t, unfold a fuel i = Some t -> represents a i t.
Proof. exact @unfold_sound. Qed.
Theorem C13_minvb_sound : forall V (a : arena V) r T, minvb a r = Some T -> minv a r T.
Proof. exact @minvb_sound. Qed.

(* ------------------------------------------------------------------ all tree shapes and index layouts: histories *)
(* the hypotheses hold for every arena that C12's invariant describes, i.e. (C12_add_root, C12_history) for every
   state reachable from add_root by any sequence of Tree operations -- missing children, holes and re-used indices
   included -- and every stored index is a start node the theorems above speak about (minv contains tree_inv) *)
Theorem C13_applies_to_every_reachable_arena : forall K st, TreeInv.Inv K st ->
  exists r T, Tree.t_root st = Some r /\ minv (Tree.t_arena st) r T.
Proof. exact inv_gives_minv. Qed.
Theorem C13_every_stored_index_is_a_start_node : forall V (a : arena V) r T, minv a r T ->
  forall i, acontains a i = true -> exists t, subtree t T /\ idx t = i.
Proof. exact @stored_index_is_start_node. Qed.

(* ------------------------------------------------------------------ the code as found (v_orig) is refuted *)
(* D2: skip_subtree took size_lb before the pops: root with two leaves, next(), skip_subtree(): hint (2, _), 0 left *)
Theorem C13_D2_lower_hint_after_skip_refuted :
  exists a troot T t sc, tree_inv a troot T /\ subtree t T /\
    ~ Forall2 (obs_match sent_item) (dfspre_run v_orig (a : arena unit) troot (idx t) sc) (spec_pre_run sc t) /\
    ~ Forall2 (obs_match sent_item) (dfspre_run v_only_D2 a troot (idx t) sc) (spec_pre_run sc t) /\
    ~ Forall2 (obs_match sent_item) (bfs_run v_only_D2 a troot (idx t) sc) (spec_bfs_run sc t).
Proof.
  exact (ex_intro _ ex2 (ex_intro _ 0 (ex_intro _ ex2T (ex_intro _ ex2T (ex_intro _ [Next; Skip]
    (conj ex2_inv (conj (sub_refl ex2T) (conj (proj1 D2_refuted_pre) (conj (proj2 D2_refuted_pre) (proj2 D2_refuted_bfs)))))))))).
Qed.
(* D3: skip_subtree did not clear last_push: a second skip underflows size_ub (panic) or pops unrelated entries *)
Theorem C13_D3_repeated_skip_refuted :
  (exists a troot T t sc, tree_inv a troot T /\ subtree t T /\ In OPanic (dfspre_run v_orig (a : arena unit) troot (idx t) sc)) /\
  (exists a troot T t sc, tree_inv a troot T /\ subtree t T /\
    ~ Forall2 (obs_match sent_item) (dfspre_run v_orig (a : arena unit) troot (idx t) sc) (spec_pre_run sc t) /\
    ~ Forall2 (obs_match sent_item) (dfspre_run v_only_D3 a troot (idx t) sc) (spec_pre_run sc t)).
Proof.
  exact (conj
    (ex_intro _ ex2 (ex_intro _ 0 (ex_intro _ ex2T (ex_intro _ ex2T (ex_intro _ [Next; Skip; Skip]
      (conj ex2_inv (conj (sub_refl ex2T) (proj1 D3_refuted_panic))))))))
    (ex_intro _ ex10 (ex_intro _ 0 (ex_intro _ ex10T (ex_intro _ ex10T (ex_intro _ [Next; Next; Skip; Skip; Next]
      (conj ex10_inv (conj (sub_refl ex10T) D3_refuted_pre)))))))).
Qed.
(* D4: DfsEdge::new seeded from the tree's root instead of the start node *)
Theorem C13_D4_edge_start_node_refuted :
  exists a troot T t sc, tree_inv a troot T /\ subtree t T /\
    ~ Forall2 (obs_match sedge_ed) (dfsedge_run v_orig (a : arena unit) troot (idx t) sc) (spec_edge_run sc t) /\
    ~ Forall2 (obs_match sedge_ed) (dfsedge_run v_only_D4 a troot (idx t) sc) (spec_edge_run sc t).
Proof.
  exact (ex_intro _ ex2 (ex_intro _ 0 (ex_intro _ ex2T (ex_intro _ (ex2l 1) (ex_intro _ [Next]
    (conj ex2_inv (conj ex2_sub1 D4_refuted))))))).
Qed.
(* D5: DfsEdge lower hint len() although len() - 1 edges exist *)
Theorem C13_D5_edge_lower_hint_refuted :
  exists a troot T t sc, tree_inv a troot T /\ subtree t T /\
    ~ Forall2 (obs_match sedge_ed) (dfsedge_run v_orig (a : arena unit) troot (idx t) sc) (spec_edge_run sc t) /\
    ~ Forall2 (obs_match sedge_ed) (dfsedge_run v_only_D5 a troot (idx t) sc) (spec_edge_run sc t).
Proof.
  exact (ex_intro _ ex2 (ex_intro _ 0 (ex_intro _ ex2T (ex_intro _ ex2T (ex_intro _ [Next]
    (conj ex2_inv (conj (sub_refl ex2T) D5_refuted))))))).
Qed.
(* D6: Bfs n_remaining counted up *)
Theorem C13_D6_bfs_sibling_counter_refuted :
  exists a troot T t sc, tree_inv a troot T /\ subtree t T /\
    ~ Forall2 (obs_match sent_item) (bfs_run v_orig (a : arena unit) troot (idx t) sc) (spec_bfs_run sc t) /\
    ~ Forall2 (obs_match sent_item) (bfs_run v_only_D6 a troot (idx t) sc) (spec_bfs_run sc t).
Proof.
  exact (ex_intro _ ex2 (ex_intro _ 0 (ex_intro _ ex2T (ex_intro _ ex2T (ex_intro _ [Next; Next]
    (conj ex2_inv (conj (sub_refl ex2T) D6_refuted))))))).
Qed.
(* D7: PolyhedraIter::size_hint constant *)
Theorem C13_D7_polyhedra_iter_hint_refuted :
  exists a troot T sc, tree_inv a troot T /\
    ~ Forall2 (obs_match sent_item) (poly_run v_orig (a : arena unit) troot sc) (spec_pre_run sc T) /\
    ~ Forall2 (obs_match sent_item) (poly_run v_only_D7 a troot sc) (spec_pre_run sc T).
Proof.
  exact (ex_intro _ ex2 (ex_intro _ 0 (ex_intro _ ex2T (ex_intro _ [Next] (conj ex2_inv D7_refuted))))).
Qed.

(* ------------------------------------------------------------------ non-vacuity *)
(* the 10-node tree of the tests in src/tree/iter.rs satisfies the hypotheses; a depth-first run from the inner node 1
   with a skip after its second item (node 3: its descendants 7, 8, 9 are omitted, its sibling 4 follows), hints
   included; a breadth-first run with correct sibling counters; metrics *)
Example C13_nonvacuous :
  minv ex10 0 ex10T /\ tree_inv ex10 0 ex10T /\
  (exists t, subtree t ex10T /\ idx t = 1 /\ size t = 6) /\
  dfspre_run v_cur ex10 0 1 [Next; Next; Skip; Skip; Next; Next] =
    [ONext (Some (mknd 0 1 0)) 0 9; ONext (Some (mknd 1 3 1)) 0 8; OSkip 1 7; OSkip 1 7;
     ONext (Some (mknd 1 4 0)) 0 6; ONext None 0 6] /\
  map obs_out (bfs_run v_cur ex10 0 0 (repeat Next 4)) =
    [Some (mknd 0 0 0); Some (mknd 1 1 1); Some (mknd 1 2 0); Some (mknd 2 3 1)] /\
  depth_of ex10 0 = ROk 4 /\ num_terminals ex10 = 5 /\
  path_to_node ex10 9 = ROk (Some [(0, 0); (1, 0); (3, 1); (7, 1)]) /\ path_to_node ex10 10 = ROk None.
Proof.
  split; [apply minvb_sound; vm_compute; reflexivity|].
  split; [exact ex10_inv|].
  split; [exists (IN 1 [Some (IN 3 [None; Some (IN 7 [Some (ex2l 8); Some (ex2l 9)])]); Some (ex2l 4)]);
          split; [eapply sub_child; [left; reflexivity | apply sub_refl] | split; reflexivity]|].
  repeat split; vm_compute; reflexivity.
Qed.

Print Assumptions C13_dfspre_refines.
Print Assumptions C13_bfs_refines.
Print Assumptions C13_dfsedge_refines.
Print Assumptions C13_polyhedra_iter_refines.
Print Assumptions C13_hint_after_new.
Print Assumptions C13_hint_after_new_edge.
Print Assumptions C13_remaining_is_items_to_come.
Print Assumptions C13_size_ok.
Print Assumptions C13_dfspre_order.
Print Assumptions C13_bfs_order.
Print Assumptions C13_dfsedge_order.
Print Assumptions C13_polyhedra_iter_order.
Print Assumptions C13_pre_length.
Print Assumptions C13_level_order_same_items.
Print Assumptions C13_dfs_iter.
Print Assumptions C13_skip_omits_descendants_pre.
Print Assumptions C13_skipped_block_pre.
Print Assumptions C13_skip_omits_descendants_edge.
Print Assumptions C13_skipped_block_edge.
Print Assumptions C13_skip_omits_descendants_bfs.
Print Assumptions C13_future_bfs_is_levels.
Print Assumptions C13_skip_idempotent_spec.
Print Assumptions C13_skip_idempotent_coded.
Print Assumptions C13_num_nodes.
Print Assumptions C13_depth.
Print Assumptions C13_num_terminals.
Print Assumptions C13_depth_stats.
Print Assumptions C13_stats_min.
Print Assumptions C13_stats_max.
Print Assumptions C13_stats_mean.
Print Assumptions C13_stats_variance.
Print Assumptions C13_path_to_node.
Print Assumptions C13_node_indices.
Print Assumptions C13_terminal_indices.
Print Assumptions C13_decision_indices.
Print Assumptions C13_unfold_sound.
Print Assumptions C13_minvb_sound.
Print Assumptions C13_applies_to_every_reachable_arena.
Print Assumptions C13_every_stored_index_is_a_start_node.
Print Assumptions C13_D2_lower_hint_after_skip_refuted.
Print Assumptions C13_D3_repeated_skip_refuted.
Print Assumptions C13_D4_edge_start_node_refuted.
Print Assumptions C13_D5_edge_lower_hint_refuted.
Print Assumptions C13_D6_bfs_sibling_counter_refuted.
Print Assumptions C13_D7_polyhedra_iter_hint_refuted.
Print Assumptions C13_nonvacuous.

(* Props/C10.v -- C10: the LP layer classifies polytopes and optimises correctly.  Property theorems only.
   Level: translation validation with a proved checker.  minilp's simplex is third-party code and is NOT proved;
   the statement one would like,
       forall P c,  Correct tau tol delta n P c (solve_linprog P c)       (* for the real solver *)
   is therefore not a theorem here.  What is proved (Cert/LP.v, Cert/Cheb.v), for every dimension, system and objective:
     - the program as_linprog builds denotes exactly {x | A x <= b} with objective c.x (split free variables), and
       solve_linprog's mapping of a right backend outcome is Correct;
     - Correct: the meaning of each PolytopeStatus as the property states it, with explicit margins;
     - every certificate checker is sound; the referee answers true only for correct verdicts, and every rejection
       it gives (JBad) is a proof that the verdict is not correct;
     - the Chebyshev system built by chebyshev_center characterises inscribed balls, its minimisers are largest balls.
   The tie runs the real code on generated systems and referees every verdict (runner/fam_c10.ml). *)
From AT Require Import Num Vec Farkas FM Equiv Cache LP LPFront Cheb LPInst.

(* ---- the LP handed to the backend (repaired code: coordinate i = variable 2i - variable 2i+1, both >= 0) ---- *)
Theorem C10_as_linprog_sound : forall P c y, wf_rows (length c) P -> lp_sat (as_linprog P c) y ->
  feas (length c) P (recombine y) /\ lp_val (as_linprog P c) y = dot c (recombine y).
Proof. exact as_linprog_sound. Qed.
Theorem C10_as_linprog_complete : forall P c x, wf_rows (length c) P -> feas (length c) P x ->
  lp_sat (as_linprog P c) (split_vec x) /\ recombine (split_vec x) = x.
Proof. exact as_linprog_complete. Qed.
(* the code as found (one free variable per coordinate) denoted the same set: D14 was the backend's handling of
   free variables, not a wrong encoding *)
Theorem C10_as_linprog_v0_denotes : forall P c x, wf_rows (length c) P ->
  (lp_sat (as_linprog_v0 P c) x <-> feas (length c) P x) /\ lp_val (as_linprog_v0 P c) x = dot c x.
Proof. exact as_linprog_v0_denotes. Qed.
(* solve_linprog: if the backend's outcome is right for the program it was handed, the PolytopeStatus is Correct *)
Theorem C10_frontend_correct : forall tau tol delta P c r, 0 <= tau -> 0 <= tol -> 0 <= delta -> wf_rows (length c) P ->
  backend_correct (as_linprog P c) r -> Correct tau tol delta (length c) P c (solve_linprog_of r).
Proof. exact frontend_correct. Qed.

(* ---- Correct implies the clauses of the property ---- *)
(* infeasible only if empty or thin; equivalently: non-empty by the margin => never reported infeasible *)
Theorem C10_feasible_by_margin : forall tau tol delta n P c x, length x = n -> in_rows (tighten tau P) x ->
  ~ Correct tau tol delta n P c Infeasible.
Proof. exact Correct_margin. Qed.
Theorem C10_infeasible_only_if_thin : forall tau tol delta n P c, Correct tau tol delta n P c Infeasible -> thin n tau P.
Proof. exact Correct_infeasible_thin. Qed.
(* status (zero objective) is never correctly "Unbounded" *)
Theorem C10_status_not_unbounded : forall tau tol delta n P, ~ Correct tau tol delta n P (vzero n) Unbounded.
Proof. exact Correct_status_not_unbounded. Qed.
(* when the minimum exists: a witness in the set with the minimal objective value (or a thin set reported infeasible) *)
Theorem C10_minimum_exists : forall tau tol delta n P c xs st, is_min n P c xs -> Correct tau tol delta n P c st ->
  match st with
  | Optimal w => contains_tol tol P w = true /\ dot c xs - delta <= dot c w /\ dot c w <= dot c xs + delta
  | Infeasible => thin n tau P
  | _ => False
  end.
Proof. exact Correct_min_exists. Qed.
(* unbounded exactly when non-empty and unbounded below *)
Theorem C10_unbounded_only_if : forall tau tol delta n P c, Correct tau tol delta n P c Unbounded ->
  (exists x, feas n P x) /\ unbounded_below n P c.
Proof. exact Correct_unbounded_inv. Qed.
Theorem C10_unbounded_if : forall tau tol delta n P c st, unbounded_below n P c -> Correct tau tol delta n P c st ->
  st = Unbounded \/ (st = Infeasible /\ thin n tau P).
Proof. exact Correct_unbounded. Qed.

(* ---- certificate checkers ---- *)
Theorem C10_chk_infeasible_sound : forall n tau P l, chk_infeasible n tau P l = true -> thin n tau P.
Proof. exact chk_infeasible_sound. Qed.
Theorem C10_chk_member : forall n tol P w, chk_member n tol P w = true <-> length w = n /\ contains_tol tol P w = true.
Proof. exact chk_member_spec. Qed.
Theorem C10_chk_dual_bound : forall n P c l, chk_dual n P c l = true -> forall x, in_rows P x -> - dot l (map snd P) <= dot c x.
Proof. exact chk_dual_bound. Qed.
Theorem C10_chk_bounded_sound : forall n P c l, chk_bounded n P c l = true -> ~ unbounded_below n P c.
Proof. exact chk_bounded_sound. Qed.
Theorem C10_chk_optimal_sound : forall n P c xs l, chk_optimal n P c xs l = true -> is_min n P c xs.
Proof. exact chk_optimal_sound. Qed.
Theorem C10_chk_unbounded_sound : forall n P c x0 d, chk_unbounded n P c x0 d = true ->
  (exists x, feas n P x) /\ unbounded_below n P c.
Proof. exact chk_unbounded_sound. Qed.
Theorem C10_classify_sound : forall n P c,
  match classify n P c with
  | LInf _ => forall x, ~ feas n P x
  | LOpt xs _ => is_min n P c xs
  | LUnb _ _ => (exists x, feas n P x) /\ unbounded_below n P c
  | LUnk => True
  end.
Proof. exact classify_sound. Qed.

(* ---- the referee ---- *)
Theorem C10_referee_sound : forall tau tol delta n P c st,
  referee tau tol delta n P c st = true -> Correct tau tol delta n P c st.
Proof. exact referee_sound. Qed.
Theorem C10_referee_rejections_certified : forall tau tol delta n P c st why x y,
  judge tau tol delta n P c st = JBad why x y -> ~ Correct tau tol delta n P c st.
Proof. exact judge_bad. Qed.

(* ---- Chebyshev centre ---- *)
Theorem C10_chebyshev : forall n P ns x r, norms_ok P ns -> wf_rows n P -> length x = n ->
  (in_rows (cheb_sys n P ns) (x ++ [r]) <-> 0 <= r /\ ball_in n P x r).
Proof. exact cheb_feasible_iff. Qed.
Theorem C10_chebyshev_largest : forall n P ns x r, norms_ok P ns -> wf_rows n P -> length x = n ->
  is_min (S n) (cheb_sys n P ns) (cheb_obj n) (x ++ [r]) ->
  0 <= r /\ ball_in n P x r /\ forall x' r', length x' = n -> 0 <= r' -> ball_in n P x' r' -> r' <= r.
Proof. exact cheb_largest. Qed.
Theorem C10_cauchy_schwarz : forall a u, dot a u * dot a u <= dot a a * dot u u.
Proof. exact cauchy_schwarz. Qed.

(* ---- D14 (repaired in /repo): the code as found answered Unbounded on programs whose optimal face is unbounded ---- *)
(* min -x s.t. x <= 1, y <= 1 (true minimum -1), and the Chebyshev program of the slab -1 <= x <= 1 in R^2 (radius 1):
   "Unbounded" is not a correct answer, and both programs lie in the class "minimum exists and the recession cone
   contains d <> 0 with c.d = 0" *)
Theorem C10_D14_quadrant_refuted :
  ~ Correct tau_margin tol_member delta_obj 2 d14_quadrant [- (1); 0] Unbounded /\
  OptimalFaceUnbounded 2 d14_quadrant [- (1); 0].
Proof. exact d14_quadrant_refuted. Qed.
Theorem C10_D14_slab_refuted :
  ~ Correct tau_margin tol_member delta_obj 3 (cheb_sys 2 d14_slab [1; 1]) (cheb_obj 2) Unbounded /\
  OptimalFaceUnbounded 3 (cheb_sys 2 d14_slab [1; 1]) (cheb_obj 2).
Proof. exact d14_slab_refuted. Qed.

(* ---- non-vacuity: the referee accepts correct verdicts of each kind and rejects wrong ones ---- *)
Example C10_nonvacuous :
  referee tau_margin tol_member delta_obj 2 ex_square [1; 1] (Optimal [- (1); - (1)]) = true /\
  referee tau_margin tol_member delta_obj 2 ex_square [1; 1] (Optimal [0; 0]) = false /\
  referee tau_margin tol_member delta_obj 2 ex_square [1; 1] Unbounded = false /\
  referee tau_margin tol_member delta_obj 2 ex_square [0; 0] Infeasible = false /\
  referee tau_margin tol_member delta_obj 2 d14_quadrant [1; 1] Unbounded = true /\
  referee tau_margin tol_member delta_obj 2 d14_quadrant [- (1); 0] (Optimal [1; - (1 + 1 + 1)]) = true /\
  referee tau_margin tol_member delta_obj 1 [([1], 0); ([- (1)], - (1))] [1] Infeasible = true /\
  referee tau_margin tol_member delta_obj 3 (cheb_sys 2 ex_square [1; 1; 1; 1]) (cheb_obj 2) (Optimal [0; 0; 1]) = true /\
  referee tau_margin tol_member delta_obj 3 (cheb_sys 2 d14_slab [1; 1]) (cheb_obj 2) (Optimal [0; 1 + 1 + 1; 1]) = true.
Proof. exact lp_nonvacuous. Qed.

Print Assumptions C10_as_linprog_sound.
Print Assumptions C10_as_linprog_complete.
Print Assumptions C10_as_linprog_v0_denotes.
Print Assumptions C10_frontend_correct.
Print Assumptions C10_feasible_by_margin.
Print Assumptions C10_infeasible_only_if_thin.
Print Assumptions C10_status_not_unbounded.
Print Assumptions C10_minimum_exists.
Print Assumptions C10_unbounded_only_if.
Print Assumptions C10_unbounded_if.
Print Assumptions C10_chk_infeasible_sound.
Print Assumptions C10_chk_member.
Print Assumptions C10_chk_dual_bound.
Print Assumptions C10_chk_bounded_sound.
Print Assumptions C10_chk_optimal_sound.
Print Assumptions C10_chk_unbounded_sound.
Print Assumptions C10_classify_sound.
Print Assumptions C10_referee_sound.
Print Assumptions C10_referee_rejections_certified.
Print Assumptions C10_chebyshev.
Print Assumptions C10_chebyshev_largest.
Print Assumptions C10_cauchy_schwarz.
Print Assumptions C10_D14_quadrant_refuted.
Print Assumptions C10_D14_slab_refuted.
Print Assumptions C10_nonvacuous.

(* Props/C09.v -- C09: reported regions agree with evaluation and partition the domain.  Property theorems only. *)
From AT Require Import Num Vec Aff Farkas PTree Reduce Paths Cells Abs PolyGen PolyGenProofs.

(* the label sequence returned by find_terminal is the path of the terminal it returns *)
Theorem C09_route_is_path : forall t x ls, route t x = Some ls ->
  exists f, follow t ls = Some (T f) /\ term t x = Some f.
Proof. exact route_follow. Qed.
(* x satisfies the (closed) path conditions reported for every node on its path *)
Theorem C09_route_in_regions : forall t x ls, bin t -> route t x = Some ls ->
  forall k, Forall (fun pl => in_closed pl x) (path_preds t (firstn k ls)).
Proof. exact route_in_closed. Qed.
(* conversely a point strictly inside a node's reported path polytope is routed through that node *)
Theorem C09_interior_routed : forall t x ls, bin t -> Forall (fun l => (l < 2)%nat) ls ->
  (exists s, follow t ls = Some s) ->
  Forall (fun pl => in_open pl x) (path_preds t ls) -> passes t x ls.
Proof. exact open_passes. Qed.
(* regions of distinct terminals have disjoint interiors *)
Theorem C09_interiors_disjoint : forall t x ls1 ls2 f1 f2, bin t ->
  Forall (fun l => (l < 2)%nat) ls1 -> Forall (fun l => (l < 2)%nat) ls2 ->
  follow t ls1 = Some (T f1) -> follow t ls2 = Some (T f2) ->
  Forall (fun pl => in_open pl x) (path_preds t ls1) ->
  Forall (fun pl => in_open pl x) (path_preds t ls2) -> ls1 = ls2.
Proof. exact interiors_disjoint. Qed.
(* trees without missing branches: every input reaches a terminal, whose closed region contains it *)
Theorem C09_total : forall t x, bin t -> full t -> exists f, term t x = Some f.
Proof. exact full_total. Qed.
Theorem C09_cover : forall t x, bin t -> full t ->
  exists ls f, follow t ls = Some (T f) /\ Forall (fun pl => in_closed pl x) (path_preds t ls).
Proof. exact cover_closed. Qed.

(* the generator: the coded PolyhedraGen machine (DfsPre stack with last_push, predicate stack with the
   1 + last_depth - depth pops; PolyGen.v pgen_run) produces, for EVERY script of Next / skip_subtree commands, exactly
   the stream of the specification forest machine (each pending subtree with its depth, remaining-sibling counter
   and closed path rows; Skip forgets the children of the last item) on the tree the arena unfolds to.
   ginv: root parentless, child/parent links mirror each other, no child in two slots (C12's invariant), at most two
   slots per node and one-row predicates on nodes that have children (AffTree<2> well-formedness); its executable
   form ginvb and the unfolding dabs are evaluated by the runner on every dumped tree *)
Theorem C09_generator_refines_spec : forall a r fuel dt script, ginv a r -> dabs fuel a r = Some dt ->
  pgen_run a (pgen_new r) script = f_run (f_new dt) script.
Proof. exact pgen_run_spec. Qed.
Theorem C09_ginvb_sound : forall a r, ginvb a r = true -> ginv a r.
Proof. exact ginvb_sound. Qed.
Theorem C09_dabs_sound : forall a fuel i t, dabs fuel a i = Some t -> drep a i t.
Proof. exact dabs_sound. Qed.

Definition c09_p (a b : Qc) : aff := {| a_in := 1; a_mat := [[a]]; a_bias := [b] |}.
Definition c09_ex : ptree := D (c09_p 1 0) [D (c09_p 1 1) [T (c09_p 0 1); T (c09_p 1 0)]; T (c09_p 0 0)].
Example C09_nonvacuous : bin c09_ex /\ full c09_ex /\ route c09_ex [1 + 1] = Some [0%nat; 0%nat] /\
  route c09_ex [1] = Some [0%nat; 1%nat] /\ route c09_ex [0] = Some [1%nat].
Proof.
  repeat split; try (apply binb_spec; vm_compute; reflexivity); try (vm_compute; reflexivity).
  repeat constructor.
Qed.

Print Assumptions C09_route_is_path.
Print Assumptions C09_route_in_regions.
Print Assumptions C09_interior_routed.
Print Assumptions C09_interiors_disjoint.
Print Assumptions C09_total.
Print Assumptions C09_cover.
Print Assumptions C09_generator_refines_spec.
Print Assumptions C09_ginvb_sound.
Print Assumptions C09_dabs_sound.

From AT Require Import PolyGenUpd.

(* the generator on a tree the caller rewrites between two next() calls (PolyhedraGen does not borrow the tree;
   AffTree::remove_axes, infeasible_elimination).  Pwl/PolyGenUpd.v: scripts Next | Skip | Update i p (update_node),
   the arena is threaded through the script, the same coded machine pgen_next / pgen_skip runs on the current arena.
   Without updates this is the static machine, so C09_generator_refines_spec carries over *)
Theorem C09_generator_static_instance : forall script a s,
  pgen_run_upd a s (map ucmd_of script) = pgen_run a s script.
Proof. exact pgen_run_upd_static. Qed.
(* after any script prefix (updates included) that leaves the arena a and the generator state s behind, the item
   reported by the following Next carries the kept prefix of the path rows followed by the edge rows of the predicate
   stored at its parent IN a (the arena at the moment of the report), under its label there *)
Theorem C09_generator_reads_current_parent : forall a0 s0 pre a s o,
  ucfg a0 s0 pre = Some (a, s) ->
  pgen_run_upd a0 s0 (pre ++ [UNext]) = pgen_run_upd a0 s0 pre ++ [OItem o] ->
  exists c, aget a (o_index o) = Some c /\
    match c_parent c with
    | None => o_rows o = firstn (kept s (o_depth o)) (pg_preds s)
    | Some pi => exists pc l r, aget a pi = Some pc /\ find_label (c_children pc) (o_index o) = Some l /\
                   edge_rows (ac_aff (c_val pc)) l = Some r /\
                   o_rows o = firstn (kept s (o_depth o)) (pg_preds s) ++ r
    end.
Proof. exact pgen_run_upd_reads_current_parent. Qed.
(* in particular: update_node(parent, p) right before the child is reported -> the child's last block are rows of p *)
Theorem C09_generator_after_update : forall a0 s0 pre a s pi p o c,
  ucfg a0 s0 pre = Some (a, s) ->
  pgen_run_upd a0 s0 (pre ++ [UUpdate pi p; UNext]) = pgen_run_upd a0 s0 pre ++ [OItem o] ->
  aget a (o_index o) = Some c -> c_parent c = Some pi ->
  exists pc l r, aget a pi = Some pc /\ find_label (c_children pc) (o_index o) = Some l /\
    edge_rows p l = Some r /\ o_rows o = firstn (kept s (o_depth o)) (pg_preds s) ++ r.
Proof. exact pgen_run_upd_after_update. Qed.
(* one decision over two leaves: rewriting the root after its report changes the rows reported for the children *)
Example C09_generator_update_nonvacuous :
  map (fun o => rows_eqb (out_rows o) [([- (1)], - 0)]) (pgen_run_upd pgu_arena (pgen_new 0) [UNext; UNext; UNext])
    = [false; true; false] /\
  map (fun o => rows_eqb (out_rows o) [([- (1 + 1)], - (1))])
      (pgen_run_upd pgu_arena (pgen_new 0) [UNext; UUpdate 0 pgu_q; UNext; UNext]) = [false; true; false] /\
  map (fun o => rows_eqb (out_rows o) [([1 + 1], 1)])
      (pgen_run_upd pgu_arena (pgen_new 0) [UNext; UUpdate 0 pgu_q; UNext; UNext]) = [false; false; true] /\
  map (fun o => rows_eqb (out_rows o) [([- (1)], - 0)])
      (pgen_run_upd pgu_arena (pgen_new 0) [UNext; UNext; UUpdate 0 pgu_q; UNext]) = [false; true; false] /\
  map (fun o => rows_eqb (out_rows o) [([1 + 1], 1)])
      (pgen_run_upd pgu_arena (pgen_new 0) [UNext; UNext; UUpdate 0 pgu_q; UNext]) = [false; false; true].
Proof. exact pgen_run_upd_example. Qed.

Print Assumptions C09_generator_static_instance.
Print Assumptions C09_generator_reads_current_parent.
Print Assumptions C09_generator_after_update.
Print Assumptions C09_generator_update_nonvacuous.

From AT Require Import PolyGenSub.

(* PolyhedraGen::with_root(tree, r) for ANY start node r (Pwl/PolyGenSub.v).  ginv_sub = ginv without "r is parent-less"
   (executable form gsubb); start_rows a r = [] for a parent-less r, else the rows of the edge that enters r
   (edge_rows of the predicate of r's parent under r's label there).  The coded machine started at r produces, for EVERY
   Next / skip_subtree script, the stream of the specification forest machine whose single pending item is r's subtree
   with the closed rows rows0: depth counts from r, every reported row list starts with rows0 and continues with the
   rows of the edges from r down to the node.  For a parent-less r this is C09_generator_refines_spec
   (f_new_sub [] dt = f_new dt) *)
Theorem C09_generator_subtree_refines_spec : forall a r fuel dt rows0 script,
  ginv_sub a -> dabs fuel a r = Some dt -> start_rows a r = Some rows0 ->
  pgen_run a (pgen_new r) script = f_run (f_new_sub rows0 dt) script.
Proof. exact pgen_run_sub_spec. Qed.
(* the same with the parent edge spelled out *)
Theorem C09_generator_subtree_parent_edge : forall a r fuel dt c pi pc l rows0 script,
  ginv_sub a -> dabs fuel a r = Some dt ->
  aget a r = Some c -> c_parent c = Some pi -> aget a pi = Some pc ->
  find_label (c_children pc) r = Some l -> edge_rows (ac_aff (c_val pc)) l = Some rows0 ->
  pgen_run a (pgen_new r) script = f_run (f_new_sub rows0 dt) script.
Proof. exact pgen_run_sub_parent. Qed.
(* relation to a traversal that started above r: the specification machine that holds r's subtree at depth d0 with the
   closed rows pre ++ rows0 (the pending item a traversal from an ancestor creates for r: mk_pending appends the edge
   rows to the rows pre it reported for r's parent) yields the stream of with_root(r) with d0 added to every depth and
   pre prepended to every row list: the rows with_root(r) reports for n are the last depth_below_r(n) + 1 groups of
   the rows the traversal from above reports for n *)
Theorem C09_generator_subtree_rows : forall a r fuel dt rows0 script d0 pre,
  ginv_sub a -> dabs fuel a r = Some dt -> start_rows a r = Some rows0 ->
  f_run {| f_pending := [ {| pd_depth := d0; pd_nrem := 0; pd_rows := pre ++ rows0; pd_tree := dt |} ]; f_last := 0 |} script
  = map (lift_out d0 pre) (pgen_run a (pgen_new r) script).
Proof. exact pgen_sub_rows. Qed.
Theorem C09_gsubb_sound : forall a, gsubb a = true -> ginv_sub a.
Proof. exact gsubb_sound. Qed.
Theorem C09_ginv_is_ginv_sub : forall a r, ginv a r -> ginv_sub a.
Proof. exact ginv_ginv_sub. Qed.
(* root 0 over leaf 1 and decision 2; 2 over the leaves 3 and 4; with_root(2): 4 is off the left-most chain of 2 *)
Example C09_generator_subtree_nonvacuous :
  gsubb pgs_arena = true /\
  option_map (fun r => rows_eqb r [([1], 0)]) (start_rows pgs_arena 2) = Some true /\
  map pgs_key (pgen_run pgs_arena (pgen_new 2) [Next; Next; Next; Next]) = [20%nat; 131%nat; 140%nat; 999%nat] /\
  map (fun o => rows_eqb (out_rows o) [([1], 0)]) (pgen_run pgs_arena (pgen_new 2) [Next; Next; Next; Next])
    = [true; false; false; false] /\
  map (fun o => rows_eqb (out_rows o) [([1], 0); ([- (1)], - (1))]) (pgen_run pgs_arena (pgen_new 2) [Next; Next; Next; Next])
    = [false; true; false; false] /\
  map (fun o => rows_eqb (out_rows o) [([1], 0); ([1], 1)]) (pgen_run pgs_arena (pgen_new 2) [Next; Next; Next; Next])
    = [false; false; true; false] /\
  map pgs_key (pgen_run pgs_arena (pgen_new 2) [Next; Skip; Next]) = [20%nat; 777%nat; 999%nat].
Proof. exact pgen_run_sub_example. Qed.

Print Assumptions C09_generator_subtree_refines_spec.
Print Assumptions C09_generator_subtree_parent_edge.
Print Assumptions C09_generator_subtree_rows.
Print Assumptions C09_gsubb_sound.
Print Assumptions C09_ginv_is_ginv_sub.
Print Assumptions C09_generator_subtree_nonvacuous.

(* what a traversal from above holds for a child: when the specification machine reports a node, the pending items it
   creates for the children are one level deeper and carry the rows just reported ++ the rows of the edge to the child;
   so the pending item for r in a traversal from an ancestor is the one of C09_generator_subtree_rows with
   pre = rows reported for r's parent, rows0 = the rows of the edge into r *)
Theorem C09_spec_children_rows : forall fs oi fs', f_next fs = FItem oi fs' ->
  exists p rest i f ch new, f_pending fs = p :: rest /\ pd_tree p = DN i f ch /\ o_index oi = i /\
    f_pending fs' = new ++ rest /\ f_last fs' = length new /\
    Forall (fun q => pd_depth q = S (o_depth oi) /\
                     exists l r0, In (l, pd_tree q) (label_children 0 ch) /\ edge_rows f l = Some r0 /\
                                  pd_rows q = o_rows oi ++ r0) new.
Proof. exact f_next_children_rows. Qed.
Print Assumptions C09_spec_children_rows.

(* Props/C09.v -- C09: reported regions agree with evaluation and partition the domain.  Property theorems only. *)
From AT Require Import Num Vec Aff Farkas PTree Reduce Paths Cells Abs PolyGen PolyGenProofs.

(* the label sequence returned by find_terminal is the path of the terminal it returns *)
Theorem C09_route_is_path : forall t x ls, route t x = Some ls ->
  exists f, follow t ls = Some (T f) /\ term t x = Some f.
Proof. exact route_follow. Qed.
(* x satisfies the (closed) path conditions reported for every node on its path *)
Theorem C09_route_in_regions : forall t x ls, bin t -> route t x = Some ls ->
  forall k, Forall (fun pl => in_closed pl x) (path_preds t (firstn k ls)).
Proof. exact route_in_closed. Qed.
(* conversely a point strictly inside a node's reported path polytope is routed through that node *)
Theorem C09_interior_routed : forall t x ls, bin t -> Forall (fun l => (l < 2)%nat) ls ->
  (exists s, follow t ls = Some s) ->
  Forall (fun pl => in_open pl x) (path_preds t ls) -> passes t x ls.
Proof. exact open_passes. Qed.
(* regions of distinct terminals have disjoint interiors *)
Theorem C09_interiors_disjoint : forall t x ls1 ls2 f1 f2, bin t ->
  Forall (fun l => (l < 2)%nat) ls1 -> Forall (fun l => (l < 2)%nat) ls2 ->
  follow t ls1 = Some (T f1) -> follow t ls2 = Some (T f2) ->
  Forall (fun pl => in_open pl x) (path_preds t ls1) ->
  Forall (fun pl => in_open pl x) (path_preds t ls2) -> ls1 = ls2.
Proof. exact interiors_disjoint. Qed.
(* trees without missing branches: every input reaches a terminal, whose closed region contains it *)
Theorem C09_total : forall t x, bin t -> full t -> exists f, term t x = Some f.
Proof. exact full_total. Qed.
Theorem C09_cover : forall t x, bin t -> full t ->
  exists ls f, follow t ls = Some (T f) /\ Forall (fun pl => in_closed pl x) (path_preds t ls).
Proof. exact cover_closed. Qed.

(* the generator: the coded PolyhedraGen machine (DfsPre stack with last_push, predicate stack with the
   1 + last_depth - depth pops; PolyGen.v pgen_run) produces, for EVERY script of Next / skip_subtree commands, exactly
   the stream of the specification forest machine (each pending subtree with its depth, remaining-sibling counter
   and closed path rows; Skip forgets the children of the last item) on the tree the arena unfolds to.
   ginv: root parentless, child/parent links mirror each other, no child in two slots (C12's invariant), at most two
   slots per node and one-row predicates on nodes that have children (AffTree<2> well-formedness); its executable
   form ginvb and the unfolding dabs are evaluated by the runner on every dumped tree *)
Theorem C09_generator_refines_spec : forall a r fuel dt script, ginv a r -> dabs fuel a r = Some dt ->
  pgen_run a (pgen_new r) script = f_run (f_new dt) script.
Proof. exact pgen_run_spec. Qed.
Theorem C09_ginvb_sound : forall a r, ginvb a r = true -> ginv a r.
Proof. exact ginvb_sound. Qed.
Theorem C09_dabs_sound : forall a fuel i t, dabs fuel a i = Some t -> drep a i t.
Proof. exact dabs_sound. Qed.

Definition c09_p (a b : Qc) : aff := {| a_in := 1; a_mat := [[a]]; a_bias := [b] |}.
Definition c09_ex : ptree := D (c09_p 1 0) [D (c09_p 1 1) [T (c09_p 0 1); T (c09_p 1 0)]; T (c09_p 0 0)].
Example C09_nonvacuous : bin c09_ex /\ full c09_ex /\ route c09_ex [1 + 1] = Some [0%nat; 0%nat] /\
  route c09_ex [1] = Some [0%nat; 1%nat] /\ route c09_ex [0] = Some [1%nat].
Proof.
  repeat split; try (apply binb_spec; vm_compute; reflexivity); try (vm_compute; reflexivity).
  repeat constructor.
Qed.

Print Assumptions C09_route_is_path.
Print Assumptions C09_route_in_regions.
Print Assumptions C09_interior_routed.
Print Assumptions C09_interiors_disjoint.
Print Assumptions C09_total.
Print Assumptions C09_cover.
Print Assumptions C09_generator_refines_spec.
Print Assumptions C09_ginvb_sound.
Print Assumptions C09_dabs_sound.

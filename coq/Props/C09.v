(* Props/C09.v -- C09: reported regions agree with evaluation and partition the domain.  Property theorems only. *)
From AT Require Import Num Vec Aff Farkas PTree Reduce Paths Cells Abs PolyGen PolyGenProofs.

(* the label sequence returned by find_terminal is the path of the terminal it returns *)
Theorem C09_route_is_path : forall t x ls, route t x = Some ls ->
  exists f, follow t ls = Some (T f) /\ term t x = Some f.
Proof. exact route_follow. Qed.
(* x satisfies the (closed) path conditions reported for every node on its path *)
Theorem C09_route_in_regions : forall t x ls, bin t -> route t x = Some ls ->
  forall k, Forall (fun pl => in_closed pl x) (path_preds t (firstn k ls)).
Proof. exact route_in_closed. Qed.
(* conversely a point strictly inside a node's reported path polytope is routed through that node *)
Theorem C09_interior_routed : forall t x ls, bin t -> Forall (fun l => (l < 2)%nat) ls ->
  (exists s, follow t ls = Some s) ->
  Forall (fun pl => in_open pl x) (path_preds t ls) -> passes t x ls.
Proof. exact open_passes. Qed.
(* regions of distinct terminals have disjoint interiors *)
Theorem C09_interiors_disjoint : forall t x ls1 ls2 f1 f2, bin t ->
  Forall (fun l => (l < 2)%nat) ls1 -> Forall (fun l => (l < 2)%nat) ls2 ->
  follow t ls1 = Some (T f1) -> follow t ls2 = Some (T f2) ->
  Forall (fun pl => in_open pl x) (path_preds t ls1) ->
  Forall (fun pl => in_open pl x) (path_preds t ls2) -> ls1 = ls2.
Proof. exact interiors_disjoint. Qed.
(* trees without missing branches: every input reaches a terminal, whose closed region contains it *)
Theorem C09_total : forall t x, bin t -> full t -> exists f, term t x = Some f.
Proof. exact full_total. Qed.
Theorem C09_cover : forall t x, bin t -> full t ->
  exists ls f, follow t ls = Some (T f) /\ Forall (fun pl => in_closed pl x) (path_preds t ls).
Proof. exact cover_closed. Qed.

(* the generator: the coded PolyhedraGen machine (DfsPre stack with last_push, predicate stack with the
   1 + last_depth - depth pops; PolyGen.v pgen_run) produces, for EVERY script of Next / skip_subtree commands, exactly
   the stream of the specification forest machine (each pending subtree with its depth, remaining-sibling counter
   and closed path rows; Skip forgets the children of the last item) on the tree the arena unfolds to.
   ginv: root parentless, child/parent links mirror each other, no child in two slots (C12's invariant), at most two
   slots per node and one-row predicates on nodes that have children (AffTree<2> well-formedness); its executable
   form ginvb and the unfolding dabs are evaluated by the runner on every dumped tree *)
Theorem C09_generator_refines_spec : forall a r fuel dt script, ginv a r -> dabs fuel a r = Some dt ->
  pgen_run a (pgen_new r) script = f_run (f_new dt) script.
Proof. exact pgen_run_spec. Qed.
Theorem C09_ginvb_sound : forall a r, ginvb a r = true -> ginv a r.
Proof. exact ginvb_sound. Qed.
Theorem C09_dabs_sound : forall a fuel i t, dabs fuel a i = Some t -> drep a i t.
Proof. exact dabs_sound. Qed.

Definition c09_p (a b : Qc) : aff := {| a_in := 1; a_mat := [[a]]; a_bias := [b] |}.
Definition c09_ex : ptree := D (c09_p 1 0) [D (c09_p 1 1) [T (c09_p 0 1); T (c09_p 1 0)]; T (c09_p 0 0)].
Example C09_nonvacuous : bin c09_ex /\ full c09_ex /\ route c09_ex [1 + 1] = Some [0%nat; 0%nat] /\
  route c09_ex [1] = Some [0%nat; 1%nat] /\ route c09_ex [0] = Some [1%nat].
Proof.
  repeat split; try (apply binb_spec; vm_compute; reflexivity); try (vm_compute; reflexivity).
  repeat constructor.
Qed.

Print Assumptions C09_route_is_path.
Print Assumptions C09_route_in_regions.
Print Assumptions C09_interior_routed.
Print Assumptions C09_interiors_disjoint.
Print Assumptions C09_total.
Print Assumptions C09_cover.
Print Assumptions C09_generator_refines_spec.
Print Assumptions C09_ginvb_sound.
Print Assumptions C09_dabs_sound.

From AT Require Import PolyGenUpd.

(* the generator on a tree the caller rewrites between two next() calls (PolyhedraGen does not borrow the tree;
   AffTree::remove_axes, infeasible_elimination).  Pwl/PolyGenUpd.v: scripts Next | Skip | Update i p (update_node),
   the arena is threaded through the script, the same coded machine pgen_next / pgen_skip runs on the current arena.
   Without updates this is the static machine, so C09_generator_refines_spec carries over *)
Theorem C09_generator_static_instance : forall script a s,
  pgen_run_upd a s (map ucmd_of script) = pgen_run a s script.
Proof. exact pgen_run_upd_static. Qed.
(* after any script prefix (updates included) that leaves the arena a and the generator state s behind, the item
   reported by the following Next carries the kept prefix of the path rows followed by the edge rows of the predicate
   stored at its parent IN a (the arena at the moment of the report), under its label there *)
Theorem C09_generator_reads_current_parent : forall a0 s0 pre a s o,
  ucfg a0 s0 pre = Some (a, s) ->
  pgen_run_upd a0 s0 (pre ++ [UNext]) = pgen_run_upd a0 s0 pre ++ [OItem o] ->
  exists c, aget a (o_index o) = Some c /\
    match c_parent c with
    | None => o_rows o = firstn (kept s (o_depth o)) (pg_preds s)
    | Some pi => exists pc l r, aget a pi = Some pc /\ find_label (c_children pc) (o_index o) = Some l /\
                   edge_rows (ac_aff (c_val pc)) l = Some r /\
                   o_rows o = firstn (kept s (o_depth o)) (pg_preds s) ++ r
    end.
Proof. exact pgen_run_upd_reads_current_parent. Qed.
(* in particular: update_node(parent, p) right before the child is reported -> the child's last block are rows of p *)
Theorem C09_generator_after_update : forall a0 s0 pre a s pi p o c,
  ucfg a0 s0 pre = Some (a, s) ->
  pgen_run_upd a0 s0 (pre ++ [UUpdate pi p; UNext]) = pgen_run_upd a0 s0 pre ++ [OItem o] ->
  aget a (o_index o) = Some c -> c_parent c = Some pi ->
  exists pc l r, aget a pi = Some pc /\ find_label (c_children pc) (o_index o) = Some l /\
    edge_rows p l = Some r /\ o_rows o = firstn (kept s (o_depth o)) (pg_preds s) ++ r.
Proof. exact pgen_run_upd_after_update. Qed.
(* one decision over two leaves: rewriting the root after its report changes the rows reported for the children *)
Example C09_generator_update_nonvacuous :
  map (fun o => rows_eqb (out_rows o) [([- (1)], - 0)]) (pgen_run_upd pgu_arena (pgen_new 0) [UNext; UNext; UNext])
    = [false; true; false] /\
  map (fun o => rows_eqb (out_rows o) [([- (1 + 1)], - (1))])
      (pgen_run_upd pgu_arena (pgen_new 0) [UNext; UUpdate 0 pgu_q; UNext; UNext]) = [false; true; false] /\
  map (fun o => rows_eqb (out_rows o) [([1 + 1], 1)])
      (pgen_run_upd pgu_arena (pgen_new 0) [UNext; UUpdate 0 pgu_q; UNext; UNext]) = [false; false; true] /\
  map (fun o => rows_eqb (out_rows o) [([- (1)], - 0)])
      (pgen_run_upd pgu_arena (pgen_new 0) [UNext; UNext; UUpdate 0 pgu_q; UNext]) = [false; true; false] /\
  map (fun o => rows_eqb (out_rows o) [([1 + 1], 1)])
      (pgen_run_upd pgu_arena (pgen_new 0) [UNext; UNext; UUpdate 0 pgu_q; UNext]) = [false; false; true].
Proof. exact pgen_run_upd_example. Qed.

Print Assumptions C09_generator_static_instance.
Print Assumptions C09_generator_reads_current_parent.
Print Assumptions C09_generator_after_update.
Print Assumptions C09_generator_update_nonvacuous.

From AT Require Import PolyGenSub.

(* PolyhedraGen::with_root(tree, r) for ANY start node r (Pwl/PolyGenSub.v).  ginv_sub = ginv without "r is parent-less"
   (executable form gsubb); start_rows a r = [] for a parent-less r, else the rows of the edge that enters r
   (edge_rows of the predicate of r's parent under r's label there).  The coded machine started at r produces, for EVERY
   Next / skip_subtree script, the stream of the specification forest machine whose single pending item is r's subtree
   with the closed rows rows0: depth counts from r, every reported row list starts with rows0 and continues with the
   rows of the edges from r down to the node.  For a parent-less r this is C09_generator_refines_spec
   (f_new_sub [] dt = f_new dt) *)
Theorem C09_generator_subtree_refines_spec : forall a r fuel dt rows0 script,
  ginv_sub a -> dabs fuel a r = Some dt -> start_rows a r = Some rows0 ->
  pgen_run a (pgen_new r) script = f_run (f_new_sub rows0 dt) script.
Proof. exact pgen_run_sub_spec. Qed.
(* the same with the parent edge spelled out *)
Theorem C09_generator_subtree_parent_edge : forall a r fuel dt c pi pc l rows0 script,
  ginv_sub a -> dabs fuel a r = Some dt ->
  aget a r = Some c -> c_parent c = Some pi -> aget a pi = Some pc ->
  find_label (c_children pc) r = Some l -> edge_rows (ac_aff (c_val pc)) l = Some rows0 ->
  pgen_run a (pgen_new r) script = f_run (f_new_sub rows0 dt) script.
Proof. exact pgen_run_sub_parent. Qed.
(* relation to a traversal that started above r: the specification machine that holds r's subtree at depth d0 with the
   closed rows pre ++ rows0 (the pending item a traversal from an ancestor creates for r: mk_pending appends the edge
   rows to the rows pre it reported for r's parent) yields the stream of with_root(r) with d0 added to every depth and
   pre prepended to every row list: the rows with_root(r) reports for n are the last depth_below_r(n) + 1 groups of
   the rows the traversal from above reports for n *)
Theorem C09_generator_subtree_rows : forall a r fuel dt rows0 script d0 pre,
  ginv_sub a -> dabs fuel a r = Some dt -> start_rows a r = Some rows0 ->
  f_run {| f_pending := [ {| pd_depth := d0; pd_nrem := 0; pd_rows := pre ++ rows0; pd_tree := dt |} ]; f_last := 0 |} script
  = map (lift_out d0 pre) (pgen_run a (pgen_new r) script).
Proof. exact pgen_sub_rows. Qed.
Theorem C09_gsubb_sound : forall a, gsubb a = true -> ginv_sub a.
Proof. exact gsubb_sound. Qed.
Theorem C09_ginv_is_ginv_sub : forall a r, ginv a r -> ginv_sub a.
Proof. exact ginv_ginv_sub. Qed.
(* root 0 over leaf 1 and decision 2; 2 over the leaves 3 and 4; with_root(2): 4 is off the left-most chain of 2 *)
Example C09_generator_subtree_nonvacuous :
  gsubb pgs_arena = true /\
  option_map (fun r => rows_eqb r [([1], 0)]) (start_rows pgs_arena 2) = Some true /\
  map pgs_key (pgen_run pgs_arena (pgen_new 2) [Next; Next; Next; Next]) = [20%nat; 131%nat; 140%nat; 999%nat] /\
  map (fun o => rows_eqb (out_rows o) [([1], 0)]) (pgen_run pgs_arena (pgen_new 2) [Next; Next; Next; Next])
    = [true; false; false; false] /\
  map (fun o => rows_eqb (out_rows o) [([1], 0); ([- (1)], - (1))]) (pgen_run pgs_arena (pgen_new 2) [Next; Next; Next; Next])
    = [false; true; false; false] /\
  map (fun o => rows_eqb (out_rows o) [([1], 0); ([1], 1)]) (pgen_run pgs_arena (pgen_new 2) [Next; Next; Next; Next])
    = [false; false; true; false] /\
  map pgs_key (pgen_run pgs_arena (pgen_new 2) [Next; Skip; Next]) = [20%nat; 777%nat; 999%nat].
Proof. exact pgen_run_sub_example. Qed.

Print Assumptions C09_generator_subtree_refines_spec.
Print Assumptions C09_generator_subtree_parent_edge.
Print Assumptions C09_generator_subtree_rows.
Print Assumptions C09_gsubb_sound.
Print Assumptions C09_ginv_is_ginv_sub.
Print Assumptions C09_generator_subtree_nonvacuous.

(* what a traversal from above holds for a child: when the specification machine reports a node, the pending items it
   creates for the children are one level deeper and carry the rows just reported ++ the rows of the edge to the child;
   so the pending item for r in a traversal from an ancestor is the one of C09_generator_subtree_rows with
   pre = rows reported for r's parent, rows0 = the rows of the edge into r *)
Theorem C09_spec_children_rows : forall fs oi fs', f_next fs = FItem oi fs' ->
  exists p rest i f ch new, f_pending fs = p :: rest /\ pd_tree p = DN i f ch /\ o_index oi = i /\
    f_pending fs' = new ++ rest /\ f_last fs' = length new /\
    Forall (fun q => pd_depth q = S (o_depth oi) /\
                     exists l r0, In (l, pd_tree q) (label_children 0 ch) /\ edge_rows f l = Some r0 /\
                                  pd_rows q = o_rows oi ++ r0) new.
Proof. exact f_next_children_rows. Qed.
Print Assumptions C09_spec_children_rows.

(* x-c09seg: the root traversal CONTAINS the sub-tree traversal (Pwl/PolyGenSeg.v; Next-only scripts).
   Position of r = dt_idx (pd_tree q): par is the pending item of r's parent (below: chain of pchild steps from the
   root item pend0 dt), q the pending item created for r (pchild par q r0: depth S (depth par), rows = rows of par ++
   edge rows r0, sibling counter).  The dsize dt Next calls of new(tree) report
     (before ++ item of r's parent :: mid) ++ [lifted stream of with_root(r)] ++ after,
   lifted = depth + depth(r), rows reported for the parent in front; the only difference is the sibling counter of
   r's own item (with_root(r) reports 0, the root traversal the number of r's later siblings): set_first_nrem *)
From AT Require Import PolyGenSeg.
Theorem C09_root_stream_contains_subtree_stream : forall a root fuel dt par q r0,
  ginv a root -> dabs fuel a root = Some dt -> below (pend0 dt) par -> pchild par q r0 ->
  start_rows a (dt_idx (pd_tree q)) = Some r0 /\
  exists before mid after,
    pgen_run a (pgen_new root) (repeat Next (dsize dt)) =
      (before ++ OItem (pend_item par) :: mid)
      ++ set_first_nrem (pd_nrem q)
           (map (lift_out (S (pd_depth par)) (pd_rows par))
                (pgen_run a (pgen_new (dt_idx (pd_tree q))) (repeat Next (dsize (pd_tree q)))))
      ++ after.
Proof. exact pgen_root_stream_contains_sub. Qed.
(* the same on the specification machine, for any binary decorated tree *)
Theorem C09_spec_stream_subtree_segment : forall dt par q r0, dbin dt -> below (pend0 dt) par -> pchild par q r0 ->
  exists before mid after,
    f_run (f_new dt) (repeat Next (dsize dt)) =
      (before ++ OItem (pend_item par) :: mid)
      ++ set_first_nrem (pd_nrem q)
           (map (lift_out (S (pd_depth par)) (pd_rows par)) (f_run (f_new_sub r0 (pd_tree q)) (repeat Next (dsize (pd_tree q)))))
      ++ after.
Proof. exact next_stream_subtree_segment. Qed.
(* r = root: d0 = 0, pre = [], rows0 = [] *)
Theorem C09_root_stream_self : forall a root fuel dt script, ginv a root -> dabs fuel a root = Some dt ->
  pgen_run a (pgen_new root) script = map (lift_out 0 []) (f_run (f_new_sub [] dt) script).
Proof. exact pgen_root_stream_self. Qed.
(* dsize = number of nodes: exactly dsize items, no End/Panic, afterwards only End *)
Theorem C09_root_stream_all_items : forall a root fuel dt, ginv a root -> dabs fuel a root = Some dt ->
  exists items, pgen_run a (pgen_new root) (repeat Next (dsize dt)) = map OItem items /\ length items = dsize dt.
Proof. exact pgen_root_stream_all_items. Qed.
Theorem C09_sub_stream_all_items : forall r0 t, dbin t ->
  (exists items, f_run (f_new_sub r0 t) (repeat Next (dsize t)) = map OItem items /\ length items = dsize t) /\
  forall m, f_run (f_new_sub r0 t) (repeat Next (dsize t + m)) = f_run (f_new_sub r0 t) (repeat Next (dsize t)) ++ repeat OEnd m.
Proof. exact sub_stream_all_items. Qed.
Theorem C09_abstraction_is_binary : forall a, ginv_sub a -> forall i t, drep a i t -> dbin t.
Proof. exact drep_dbin. Qed.
Example C09_root_stream_segment_nonvacuous :
  ginvb pgs_arena 0 = true /\ dabs 6 pgs_arena 0 = Some pgs_dt /\ dsize pgs_dt = 5%nat /\
  below (pend0 pgs_dt) (pend0 pgs_dt) /\ pchild (pend0 pgs_dt) pgs_q2 pgs_r2 /\
  below (pend0 pgs_dt) pgs_q2 /\ pchild pgs_q2 pgs_q4 pgs_r4 /\
  dt_idx (pd_tree pgs_q2) = 2%nat /\ dt_idx (pd_tree pgs_q4) = 4%nat /\ dsize (pd_tree pgs_q2) = 3%nat /\
  map pgs_key (pgen_run pgs_arena (pgen_new 0) (repeat Next 5)) = [0%nat; 111%nat; 120%nat; 231%nat; 240%nat] /\
  outs_eqb (pgen_run pgs_arena (pgen_new 0) (repeat Next 5))
           (firstn 2 (pgen_run pgs_arena (pgen_new 0) (repeat Next 5))
            ++ set_first_nrem 0 (map (lift_out 1 []) (pgen_run pgs_arena (pgen_new 2) (repeat Next 3))) ++ []) = true /\
  outs_eqb (pgen_run pgs_arena (pgen_new 0) (repeat Next 5))
           (firstn 4 (pgen_run pgs_arena (pgen_new 0) (repeat Next 5))
            ++ set_first_nrem 0 (map (lift_out 2 (pd_rows pgs_q2)) (pgen_run pgs_arena (pgen_new 4) (repeat Next 1))) ++ []) = true /\
  outs_eqb (pgen_run pgs_arena (pgen_new 0) (repeat Next 5))
           (firstn 2 (pgen_run pgs_arena (pgen_new 0) (repeat Next 5))
            ++ pgen_run pgs_arena (pgen_new 2) (repeat Next 3)) = false.
Proof. exact pgen_root_segment_example. Qed.
Print Assumptions C09_root_stream_contains_subtree_stream.
Print Assumptions C09_spec_stream_subtree_segment.
Print Assumptions C09_root_stream_self.
Print Assumptions C09_root_stream_all_items.
Print Assumptions C09_sub_stream_all_items.
Print Assumptions C09_abstraction_is_binary.
Print Assumptions C09_root_stream_segment_nonvacuous.
(* the position given by a path of labels from the root: r = the node reached by ls ++ [l]; d0 = S (length ls) *)
Theorem C09_root_stream_contains_subtree_stream_path : forall a root fuel dt ls l par q r0,
  ginv a root -> dabs fuel a root = Some dt -> pend_at (pend0 dt) ls = Some par -> child_pend par l = Some (q, r0) ->
  pd_depth q = S (length ls) /\ start_rows a (dt_idx (pd_tree q)) = Some r0 /\
  exists before mid after,
    pgen_run a (pgen_new root) (repeat Next (dsize dt)) =
      (before ++ OItem (pend_item par) :: mid)
      ++ set_first_nrem (pd_nrem q)
           (map (lift_out (S (length ls)) (pd_rows par))
                (pgen_run a (pgen_new (dt_idx (pd_tree q))) (repeat Next (dsize (pd_tree q)))))
      ++ after.
Proof. exact pgen_root_stream_contains_sub_path. Qed.
Example C09_root_stream_segment_path_nonvacuous :
  option_map (fun p => dt_idx (pd_tree p)) (pend_at (pend0 pgs_dt) [1%nat; 1%nat]) = Some 4%nat /\
  option_map (fun p => dt_idx (pd_tree p)) (pend_at (pend0 pgs_dt) [1%nat; 0%nat]) = Some 3%nat /\
  option_map (fun p => pd_nrem p) (pend_at (pend0 pgs_dt) [1%nat; 0%nat]) = Some 1%nat /\
  pend_at (pend0 pgs_dt) [1%nat] = Some pgs_q2 /\
  option_map fst (child_pend pgs_q2 1%nat) = Some pgs_q4 /\
  pend_at (pend0 pgs_dt) [0%nat; 0%nat] = None.
Proof. exact pgen_root_segment_path_example. Qed.
Print Assumptions C09_root_stream_contains_subtree_stream_path.
Print Assumptions C09_root_stream_segment_path_nonvacuous.

(* Props/C02.v -- C02: composition law.  Property theorems only. *)
From AT Require Import Num Vec Aff PTree Cells Abs ArenaEval ArenaCompose ArenaComposeAbs ArenaFrameCheck ArenaComposeOrder.

(* f.compose(g) without pruning: h(x) is defined exactly when f(x) and g(f(x)) are, and then h(x) = g(f(x));
   every branching factor (children lists of any length), partial operands (U), boundary inputs. *)
Theorem C02_compose_eval : forall n m f g x,
  wf n f -> outs m f -> wf m g ->
  eval (compose f g) x = obind (eval f x) (eval g).
Proof. exact compose_eval. Qed.

(* apply_func(a) is the special case of an affine right operand *)
Theorem C02_apply_func_eval : forall n m a t x,
  wf n t -> outs m t -> wf_aff a -> a_in a = m ->
  eval (apply_func a t) x = option_map (apply a) (eval t x).
Proof. exact apply_func_eval. Qed.
Theorem C02_apply_func_is_compose : forall a t, apply_func a t = compose t (T a).
Proof. exact apply_func_as_compose. Qed.

(* the result is again well-formed, with the output dimension of g *)
Theorem C02_compose_wf : forall n m k f g, wf n f -> outs m f -> wf m g -> outs k g ->
  wf n (compose f g) /\ outs k (compose f g).
Proof. intros n m k f g Hf Ho Hg Hk. split; [eapply wf_compose; eauto | apply outs_compose; auto]. Qed.

(* ---- arena level ----
   evaluate() / find_terminal as coded (loop over the slab arena) computes eval / route / term of the inductive tree
   the arena abstracts to: the link between what the runner decides about abs(dump) and what the code computes *)
Theorem C02_evaluate_is_eval : forall fuel a i t x, abs_at fuel a i = Some t -> fits t ->
  evaluate_arena fuel a i x = Some (eval t x).
Proof. exact evaluate_arena_spec. Qed.
Theorem C02_find_terminal_is_route : forall fuel a i t x, abs_at fuel a i = Some t -> fits t ->
  match find_terminal_arena fuel a i x with
  | FOk (Some (ti, ls)) =>
      route t x = Some ls /\ exists c, aget a ti = Some c /\ c_leaf c = true /\ term t x = Some (ac_aff (c_val c))
  | FOk None => route t x = None /\ term t x = None
  | FPanic => False
  end.
Proof. exact find_terminal_arena_spec. Qed.

(* the frame clause: generic_composition_inplace without pruning, as a sequence of update_node / add_child_node on
   the slab arena with ANY allocator that hands out unoccupied keys: every node of the receiver survives under its
   index, with its parent, its children under their labels, its cached state and -- if it is a decision -- its value
   (extends); only the terminal being processed and new cells are written (untouched).  The argument tree is borrowed
   immutably by the code (&AffTree): it cannot change. *)
Theorem C02_frame : forall alloc K s L a a', fresh_alloc alloc -> arena_compose alloc K s L a = Some a' -> extends a a'.
Proof. exact arena_compose_extends. Qed.
Theorem C02_frame_one_terminal : forall alloc K s L a i a', fresh_alloc alloc ->
  arena_compose_at alloc K s L a i = Some a' -> untouched a a' i.
Proof. exact arena_compose_at_untouched. Qed.
(* the runner decides the frame relation on the implementation's dumps with a checker that is proved sound for it *)
Theorem C02_frame_checker_sound : forall a a', extendsb a a' = true -> extends_f a a'.
Proof. exact extendsb_sound. Qed.
Theorem C02_frame_implies_checked_relation : forall a a', extends a a' -> extends_f a a'.
Proof. exact extends_extends_f. Qed.

(* the arena-level composition REFINES the lifted tree: if the receiver's arena abstracts to t, the run abstracts to
   lift s t L -- every schema, every K, every allocator returning unoccupied keys, the code's order of terminals;
   and it returns Ok (no unwrap fails) whenever lhs has K slots per decision with at least one child and the leaves
   of the receiver have K empty slots (what the arena invariant of C12 gives) *)
Theorem C02_arena_refines_lift : forall alloc K s L a a', fresh_alloc alloc -> karity K L -> L <> U -> leaves_empty K a ->
  arena_compose alloc K s L a = Some a' ->
  forall fuel i t, abs_at fuel a i = Some t -> exists F, abs_at F a' i = Some (lift s t L).
Proof. exact arena_compose_abs. Qed.
Theorem C02_arena_compose_ok : forall alloc K s L a, fresh_alloc alloc -> karity K L -> L <> U -> leaves_empty K a ->
  exists a', arena_compose alloc K s L a = Some a'.
Proof. exact arena_compose_some. Qed.

(* the side condition on the leaves is itself preserved, so compositions chain: f.compose(g).compose(h) *)
Theorem C02_arena_leaves_preserved : forall alloc K s L a a', fresh_alloc alloc -> leaves_empty K a ->
  arena_compose alloc K s L a = Some a' -> leaves_empty K a'.
Proof. exact arena_compose_leaves_empty. Qed.
Theorem C02_arena_compose_twice : forall alloc K s L1 L2 a a1 a2, fresh_alloc alloc -> karity K L1 -> L1 <> U -> karity K L2 -> L2 <> U ->
  leaves_empty K a -> arena_compose alloc K s L1 a = Some a1 -> arena_compose alloc K s L2 a1 = Some a2 ->
  forall fuel i t, abs_at fuel a i = Some t -> exists F, abs_at F a2 i = Some (lift s (lift s t L1) L2).
Proof. exact arena_compose_twice. Qed.

(* the arena-level run on an arena with a freed slot: Ok, abstracts to the lifted tree, indices / states as claimed *)
Example C02_frame_nonvacuous :
  fresh_alloc next_key /\
  option_map (fun a' => (abs_at 5 a' 0%nat, map (fun o => option_map (fun c => (c_parent c, c_children c, c_leaf c, ac_state (c_val c))) o) a'))
             (arena_compose next_key 2%nat comp_schema exa_L exa_arena)
  = Some (Some (lift comp_schema (D (exa_f 1 0) [U; T (exa_f (1 + 1) 0)]) exa_L),
          [ Some (None, [None; Some 2%nat], false, Indet);
            None;
            Some (Some 0%nat, [Some 3%nat; None], false, Feas);
            Some (Some 2%nat, [None; None], true, Indet) ]).
Proof. exact (conj next_key_fresh exa_run). Qed.

(* non-vacuity: a partial two-level f and a decision g satisfy the hypotheses, and the law computes *)
Definition ex_f : ptree :=
  D {| a_in := 1; a_mat := [[1]]; a_bias := [0] |}
    [T {| a_in := 1; a_mat := [[1 + 1]]; a_bias := [1] |}; U].
Definition ex_g : ptree :=
  D {| a_in := 1; a_mat := [[1]]; a_bias := [1 + 1 + 1] |}
    [T {| a_in := 1; a_mat := [[0]]; a_bias := [1] |}; T {| a_in := 1; a_mat := [[1]]; a_bias := [0] |}].
Example C02_nonvacuous : wf 1 ex_f /\ outs 1 ex_f /\ wf 1 ex_g /\
  eval (compose ex_f ex_g) [1 + 1] = Some [1] /\ eval (compose ex_f ex_g) [1] = Some [1 + 1 + 1] /\
  eval (compose ex_f ex_g) [- (1)] = None.
Proof.
  repeat split; try (apply wfb_spec; vm_compute; reflexivity); try (apply outsb_spec; vm_compute; reflexivity);
  vm_compute; reflexivity.
Qed.

Print Assumptions C02_compose_eval.
Print Assumptions C02_apply_func_eval.
Print Assumptions C02_apply_func_is_compose.
Print Assumptions C02_compose_wf.
Print Assumptions C02_evaluate_is_eval.
Print Assumptions C02_find_terminal_is_route.
Print Assumptions C02_frame.
Print Assumptions C02_frame_one_terminal.
Print Assumptions C02_frame_checker_sound.
Print Assumptions C02_frame_implies_checked_relation.
Print Assumptions C02_arena_refines_lift.
Print Assumptions C02_arena_compose_ok.
Print Assumptions C02_arena_leaves_preserved.
Print Assumptions C02_arena_compose_twice.
Print Assumptions C02_frame_nonvacuous.

(* ---- the generic entry point with the terminals in ANY order (Pwl/ArenaComposeOrder.v) ----
   generic_composition_inplace is public and takes the list of terminals of the receiver as an argument; compose passes
   terminal_indices() (ascending).  For every permutation of the terminals the run returns Ok and every node of the
   receiver abstracts to the lifted tree, exactly as for the ascending order *)
Theorem C02_arena_any_terminal_order : forall alloc K s L ts a, fresh_alloc alloc -> karity K L -> L <> U -> leaves_empty K a ->
  Permutation ts (terminal_keys a) ->
  exists a', arena_compose_list alloc K s L ts a = Some a' /\
    forall fuel i t, abs_at fuel a i = Some t -> exists F, abs_at F a' i = Some (lift s t L).
Proof. exact arena_compose_list_abs_perm. Qed.
(* the frame clause for every order: every old cell keeps index, parent, children, cached state, decisions their value;
   non-terminals are not written; the leaves keep K empty slots (so runs chain) *)
Theorem C02_arena_any_terminal_order_frame : forall alloc K s L ts a a', fresh_alloc alloc ->
  Permutation ts (terminal_keys a) -> arena_compose_list alloc K s L ts a = Some a' ->
  extends a a' /\ (forall k c, ~ In k (terminal_keys a) -> aget a k = Some c -> aget a' k = Some c) /\
  (leaves_empty K a -> leaves_empty K a').
Proof. exact arena_compose_list_extends_perm. Qed.
(* two orders (and two allocators): the same abstraction at every node of the receiver *)
Theorem C02_arena_order_irrelevant : forall alloc1 alloc2 K s L ts1 ts2 a a1 a2, fresh_alloc alloc1 -> fresh_alloc alloc2 ->
  karity K L -> L <> U -> leaves_empty K a -> Permutation ts1 (terminal_keys a) -> Permutation ts2 (terminal_keys a) ->
  arena_compose_list alloc1 K s L ts1 a = Some a1 -> arena_compose_list alloc2 K s L ts2 a = Some a2 ->
  forall fuel i t, abs_at fuel a i = Some t -> exists F t', abs_at F a1 i = Some t' /\ abs_at F a2 i = Some t'.
Proof. exact arena_compose_order_irrelevant. Qed.
(* the caller lists only SOME terminals (duplicate-free, any order): Ok, frame, unlisted cells not written, and the
   result abstracts to the tree in which exactly the listed terminals carry the grafted copy of lhs
   (abs_sub (lift_sel s L ts): abs_at with `graft s L` at the terminals whose key is in ts and `T` at the others) *)
Theorem C02_arena_listed_terminals_only : forall alloc K s L ts a, fresh_alloc alloc -> karity K L -> L <> U -> leaves_empty K a ->
  NoDup ts -> incl ts (terminal_keys a) ->
  (exists a', arena_compose_list alloc K s L ts a = Some a') /\
  forall a', arena_compose_list alloc K s L ts a = Some a' ->
    extends a a' /\ (forall k c, ~ In k ts -> aget a k = Some c -> aget a' k = Some c) /\
    forall fuel i t, abs_sub (lift_sel s L ts) fuel a i = Some t -> exists F, abs_at F a' i = Some t.
Proof. exact arena_compose_list_sub. Qed.
(* what the indexed abstraction is at the two ends: nothing listed = abs_at, everything listed = the lifted tree *)
Theorem C02_arena_listed_none : forall s L fuel a i, abs_sub (lift_sel s L []) fuel a i = abs_at fuel a i.
Proof. exact abs_sub_nil. Qed.
Theorem C02_arena_listed_all : forall s L ts a, (forall j, In j (terminal_keys a) -> In j ts) ->
  forall fuel i t, abs_at fuel a i = Some t -> abs_sub (lift_sel s L ts) fuel a i = Some (lift s t L).
Proof. exact abs_sub_all. Qed.
(* non-vacuity: an arena with two terminals and a freed slot satisfies the hypotheses; ascending and reversed lists both
   return Ok with the same abstraction (the lifted tree) and the old links / cached states kept, the two result arenas
   differ (fresh keys 4, 5 swap parents); with only terminal 3 listed terminal 2 is kept *)
Example C02_arena_order_nonvacuous :
  (fresh_alloc next_key /\ karity 2 exa_L /\ exa_L <> U /\ leaves_empty 2 exo_arena /\
   terminal_keys exo_arena = [2%nat; 3%nat] /\ Permutation [3%nat; 2%nat] (terminal_keys exo_arena) /\
   abs_at 5 exo_arena 0%nat = Some exo_t) /\
  (option_map exo_view (arena_compose_list next_key 2%nat comp_schema exa_L [2%nat; 3%nat] exo_arena)
   = Some (Some (lift comp_schema exo_t exa_L),
           [ Some (None, [Some 3%nat; Some 2%nat], false, Indet);
             None;
             Some (Some 0%nat, [Some 4%nat; None], false, Feas);
             Some (Some 0%nat, [Some 5%nat; None], false, Indet);
             Some (Some 2%nat, [None; None], true, Indet);
             Some (Some 3%nat, [None; None], true, Indet) ]) /\
   option_map exo_view (arena_compose_list next_key 2%nat comp_schema exa_L [3%nat; 2%nat] exo_arena)
   = Some (Some (lift comp_schema exo_t exa_L),
           [ Some (None, [Some 3%nat; Some 2%nat], false, Indet);
             None;
             Some (Some 0%nat, [Some 5%nat; None], false, Feas);
             Some (Some 0%nat, [Some 4%nat; None], false, Indet);
             Some (Some 3%nat, [None; None], true, Indet);
             Some (Some 2%nat, [None; None], true, Indet) ]) /\
   arena_compose_list next_key 2%nat comp_schema exa_L [2%nat; 3%nat] exo_arena
   = arena_compose next_key 2%nat comp_schema exa_L exo_arena /\
   arena_compose_list next_key 2%nat comp_schema exa_L [3%nat; 2%nat] exo_arena
   <> arena_compose_list next_key 2%nat comp_schema exa_L [2%nat; 3%nat] exo_arena) /\
  (incl [3%nat] (terminal_keys exo_arena) /\
   abs_sub (lift_sel comp_schema exa_L [3%nat]) 5 exo_arena 0%nat
   = Some (D (exa_f 1 0) [graft comp_schema exa_L (exa_f (1 + 1 + 1) 0); T (exa_f (1 + 1) 0)]) /\
   option_map exo_view (arena_compose_list next_key 2%nat comp_schema exa_L [3%nat] exo_arena)
   = Some (Some (D (exa_f 1 0) [graft comp_schema exa_L (exa_f (1 + 1 + 1) 0); T (exa_f (1 + 1) 0)]),
           [ Some (None, [Some 3%nat; Some 2%nat], false, Indet);
             None;
             Some (Some 0%nat, [None; None], true, Feas);
             Some (Some 0%nat, [Some 4%nat; None], false, Indet);
             Some (Some 3%nat, [None; None], true, Indet) ])).
Proof. exact (conj exo_hyps (conj exo_run exo_run_sub)). Qed.

Print Assumptions C02_arena_any_terminal_order.
Print Assumptions C02_arena_any_terminal_order_frame.
Print Assumptions C02_arena_order_irrelevant.
Print Assumptions C02_arena_listed_terminals_only.
Print Assumptions C02_arena_listed_none.
Print Assumptions C02_arena_listed_all.
Print Assumptions C02_arena_order_nonvacuous.

(* Props/C02.v -- C02: composition law.  Property theorems only. *)
From AT Require Import Num Vec Aff PTree.

(* f.compose(g) without pruning: h(x) is defined exactly when f(x) and g(f(x)) are, and then h(x) = g(f(x));
   every branching factor (children lists of any length), partial operands (U), boundary inputs. *)
Theorem C02_compose_eval : forall n m f g x,
  wf n f -> outs m f -> wf m g ->
  eval (compose f g) x = obind (eval f x) (eval g).
Proof. exact compose_eval. Qed.

(* apply_func(a) is the special case of an affine right operand *)
Theorem C02_apply_func_eval : forall n m a t x,
  wf n t -> outs m t -> wf_aff a -> a_in a = m ->
  eval (apply_func a t) x = option_map (apply a) (eval t x).
Proof. exact apply_func_eval. Qed.
Theorem C02_apply_func_is_compose : forall a t, apply_func a t = compose t (T a).
Proof. exact apply_func_as_compose. Qed.

(* the result is again well-formed, with the output dimension of g *)
Theorem C02_compose_wf : forall n m k f g, wf n f -> outs m f -> wf m g -> outs k g ->
  wf n (compose f g) /\ outs k (compose f g).
Proof. intros n m k f g Hf Ho Hg Hk. split; [eapply wf_compose; eauto | apply outs_compose; auto]. Qed.

(* non-vacuity: a partial two-level f and a decision g satisfy the hypotheses, and the law computes *)
Definition ex_f : ptree :=
  D {| a_in := 1; a_mat := [[1]]; a_bias := [0] |}
    [T {| a_in := 1; a_mat := [[1 + 1]]; a_bias := [1] |}; U].
Definition ex_g : ptree :=
  D {| a_in := 1; a_mat := [[1]]; a_bias := [1 + 1 + 1] |}
    [T {| a_in := 1; a_mat := [[0]]; a_bias := [1] |}; T {| a_in := 1; a_mat := [[1]]; a_bias := [0] |}].
Example C02_nonvacuous : wf 1 ex_f /\ outs 1 ex_f /\ wf 1 ex_g /\
  eval (compose ex_f ex_g) [1 + 1] = Some [1] /\ eval (compose ex_f ex_g) [1] = Some [1 + 1 + 1] /\
  eval (compose ex_f ex_g) [- (1)] = None.
Proof.
  repeat split; try (apply wfb_spec; vm_compute; reflexivity); try (apply outsb_spec; vm_compute; reflexivity);
  vm_compute; reflexivity.
Qed.

Print Assumptions C02_compose_eval.
Print Assumptions C02_apply_func_eval.
Print Assumptions C02_apply_func_is_compose.
Print Assumptions C02_compose_wf.

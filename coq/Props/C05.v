(* Props/C05.v -- C05: cached feasibility verdicts and witnesses stay sound.  Property theorems only.
   wit_ok tol q t  : every FeasibleWitness list in t is non-empty and each point satisfies the closed path
                     polytope of its node within the containment tolerance tol (Polytope::contains, 1e-8)
   marks_ok x q t  : no node marked Infeasible has x in its closed path polytope (per input x; for an oracle sound
                     up to thin regions: every x outside the polytopes it declared infeasible)
   Paths are those of the RESULT tree (a forwarded node has a shorter path, hence a larger region). *)
From AT Require Import Num Vec Aff PTree Cells Abs Cache Elim ElimEval ElimCache CPrune CPruneCache ElimExample RemoveAxesCache
  Ops Reduce Schema WfC OpsWf ElimWf CPruneWf History CacheHistory CacheHistoryRun CacheHistoryAxes
  CPruneEval EdgeRegion KPrune KPruneEval KElimCache KPruneExample KPruneCache.

(* points returned by the witness-repair heuristic lie in the polytope they were asked for: the acceptance test of
   mirror_points (normalised rows, positive factors nu_i, margin eps = 1e-10) implies membership *)
Theorem C05_mirror_points_sound : forall nus eps rs p, Forall (fun nu => 0 < nu) nus -> 0 <= eps -> length nus = length rs ->
  Forall (fun nr => accept_row (fst nr) eps (snd nr) p) (combine nus rs) -> in_rows rs p.
Proof. exact mirror_points_sound. Qed.

(* infeasible_elimination, any LP oracle: phase_inh re-checks the new half-space, phase_one / phase_two only store
   points that passed the containment test *)
Theorem C05_elim_witnesses : forall o tol t, mir_sound o tol -> wit_ok tol [] t -> wit_ok tol [] (fst (elim o tol t)).
Proof. exact elim_wit. Qed.
Theorem C05_elim_sub_witnesses : forall o tol, mir_sound o tol ->
  forall t isroot q st k, wit_kids tol q t -> st_wit tol q st -> wit_ok tol q (fst (elim_sub o tol isroot q st t k)).
Proof. exact elim_sub_wit. Qed.
Theorem C05_elim_marks : forall o tol t x, osound o x -> marks_kids x [] t -> marks_kids x [] (fst (elim o tol t)).
Proof. exact elim_marks. Qed.
Theorem C05_elim_sub_marks : forall o tol x, osound o x ->
  forall t isroot q st k, marks_kids x q t -> (st = Infeas -> ~ in_rows q x) ->
  marks_ok x q (fst (elim_sub o tol isroot q st t k)).
Proof. exact elim_sub_marks. Qed.

(* composition / operators with pruning: nodes of the modified tree keep state and path (a terminal that becomes a
   decision keeps its cache), new nodes are Indeterminate -- for every oracle *)
Theorem C05_prune_witnesses : forall o tol s L t q k, wit_ok tol q t -> wit_ok tol q (fst (cprune o tol s L t q k)).
Proof. exact cprune_wit. Qed.
Theorem C05_prune_marks : forall o tol s L x t q k, marks_ok x q t -> marks_ok x q (fst (cprune o tol s L t q k)).
Proof. exact cprune_marks. Qed.

(* remove_axes resets every state: the projected tree carries no cache, whatever the old one was *)
Theorem C05_remove_axes_resets : forall mask tol x t q,
  wit_ok tol q (cremove_axes mask t) /\ marks_ok x q (cremove_axes mask t).
Proof. exact cremove_axes_cache. Qed.

(* a witness that moves up with its node stays a witness: dropping path rows only enlarges the region *)
Theorem C05_witness_monotone : forall tol t q q', (forall r, In r q' -> In r q) -> wit_ok tol q t -> wit_ok tol q' t.
Proof. exact wit_ok_incl. Qed.

(* ---- all operation histories (History.run: apply_func, compose with and without pruning, elimination, reduce, the
   lifted operators, negation, operators with an affine map; every step with its own oracle).  The invariant
   hinv x tol t = no Infeasible mark on a region that contains x  /\  every stored witness lies in its node's path
   polytope (within tol)  /\  a node marked Infeasible has no sibling.  Only the elimination steps consult the
   oracle assumptions (LP: Infeasible answers exclude x; repair heuristic: returned points pass the containment
   test, which the code re-checks). ---- *)
Theorem C05_history : forall tol x ops n m init t,
  cwft n m init -> compat_hist (n, m) ops = true ->
  (forall ox, In ox ops -> osound (fst ox) x /\ mir_sound (fst ox) tol) ->
  hinv x tol init -> run tol init ops = HOk t -> hinv x tol t.
Proof. exact history_inv. Qed.
(* every tree the library constructs has all states Indeterminate *)
Theorem C05_history_from_fresh : forall tol x ops n m init t,
  cwft n m init -> compat_hist (n, m) ops = true -> fresh init ->
  (forall ox, In ox ops -> osound (fst ox) x /\ mir_sound (fst ox) tol) ->
  run tol init ops = HOk t -> hinv x tol t.
Proof. exact history_inv_fresh. Qed.
Theorem C05_step : forall tol x o op t t',
  cleafok t -> osound o x -> mir_sound o tol -> hinv x tol t -> step tol o op t = HOk t' -> hinv x tol t'.
Proof. exact step_inv. Qed.
(* reduce moves child 0 (with its cache) into the place of its parent: sound because a marked node has no sibling *)
Theorem C05_reduce : forall x tol t, solo t -> marks_ok x [] t -> wit_ok tol [] t ->
  solo (creduce t) /\ marks_ok x [] (creduce t) /\ wit_ok tol [] (creduce t).
Proof. exact creduce_inv. Qed.
(* elimination never leaves a marked node beside a sibling *)
Theorem C05_elim_marked_alone : forall o tol t, solo t -> solo (fst (elim o tol t)).
Proof. exact elim_solo. Qed.
(* after remove_axes a history continues from a reset cache *)
Theorem C05_remove_axes_restarts : forall mask x tol t, hinv x tol (cremove_axes mask t).
Proof. exact cremove_axes_hinv. Qed.
(* non-vacuity of the history theorem: elimination (prunes + forwards), reduce, apply_func, elimination *)
Example C05_history_nonvacuous :
  cwft 1 1 ex_t /\ compat_hist (1%nat, 1%nat) hx_hist = true /\ fresh ex_t /\
  (forall x ox, In ox hx_hist -> osound (fst ox) x /\ mir_sound (fst ox) 0) /\
  run 0 ex_t hx_hist = HOk hx_res /\ (forall x, hinv x 0 hx_res).
Proof. exact hx_example. Qed.

Example C05_nonvacuous :
  mir_sound ex_o 0 /\ wit_ok 0 [] ex_t /\ wit_ok 0 [] (fst (elim ex_o 0 ex_t)) /\
  (forall x, marks_kids x [] (fst (elim ex_o 0 ex_t))).
Proof. exact ex_c05. Qed.

Print Assumptions C05_mirror_points_sound.
Print Assumptions C05_elim_witnesses.
Print Assumptions C05_elim_sub_witnesses.
Print Assumptions C05_elim_marks.
Print Assumptions C05_elim_sub_marks.
Print Assumptions C05_prune_witnesses.
Print Assumptions C05_prune_marks.
Print Assumptions C05_remove_axes_resets.
Print Assumptions C05_witness_monotone.
Print Assumptions C05_nonvacuous.
Print Assumptions C05_history.
Print Assumptions C05_history_from_fresh.
Print Assumptions C05_step.
Print Assumptions C05_reduce.
Print Assumptions C05_elim_marked_alone.
Print Assumptions C05_remove_axes_restarts.
Print Assumptions C05_history_nonvacuous.

(* ---- the pruned composition / the pruned operators for EVERY branching factor K (Pwl/KPrune.kprune; AffTree<4> since the
   repair of D20): the nodes of the receiver keep state and path, every node the composition creates is Indeterminate
   (is_edge_feasible reads the cache, it never writes), a forwarded child is such a new node.  For every oracle -- no
   assumption on the LP answers or on the repair heuristic -- every schema, every K, every lhs, every receiver.
   kwit_ok / kmarks: the K-ary forms of wit_ok / marks_ok with the per-row edge regions (EdgeRegion.label_rows). ---- *)
Theorem C05_kprune_witnesses : forall o tol s K L t q k,
  KElimCache.kwit_ok tol q t -> KElimCache.kwit_ok tol q (fst (KPrune.kprune o tol s K L t q k)).
Proof. exact kprune_wit. Qed.
Theorem C05_kprune_marks : forall o tol s K L x t q k,
  KPruneEval.kmarks x q t -> KPruneEval.kmarks x q (fst (KPrune.kprune o tol s K L t q k)).
Proof. exact kprune_marks. Qed.
(* compose::<true> and tree (op) tree with pruning *)
Theorem C05_kcompose_prune_caches : forall o tol K t L,
  (KElimCache.kwit_ok tol [] t -> KElimCache.kwit_ok tol [] (fst (KPrune.kcompose_prune o tol K t L))) /\
  (forall x, KPruneEval.kmarks x [] t -> KPruneEval.kmarks x [] (fst (KPrune.kcompose_prune o tol K t L))).
Proof. exact kcompose_prune_caches. Qed.
Theorem C05_kop_prune_caches : forall o tol K fo t L,
  (KElimCache.kwit_ok tol [] t -> KElimCache.kwit_ok tol [] (fst (KPrune.kprune o tol (op_schema fo) K L t [] k0))) /\
  (forall x, KPruneEval.kmarks x [] t -> KPruneEval.kmarks x [] (fst (KPrune.kprune o tol (op_schema fo) K L t [] k0))).
Proof. exact ktop_prune_caches. Qed.
(* function and caches together, under the hypotheses of the function part (C03_kprune) *)
Theorem C05_kcompose_prune_sound : forall o tol K t L x,
  osound o x -> kary K L -> kok comp_schema t -> KPruneEval.kmarks x [] t -> KElimCache.kwit_ok tol [] t ->
  kev (fst (kcompose_prune o tol K t L)) x = eval (compose (kerase t) L) x /\
  KPruneEval.kmarks x [] (fst (kcompose_prune o tol K t L)) /\ KElimCache.kwit_ok tol [] (fst (kcompose_prune o tol K t L)).
Proof. exact kcompose_prune_sound. Qed.
(* K = 2: on binary operands these are the binary statements C05_prune_witnesses / C05_prune_marks *)
Theorem C05_kprune_binary : forall o tol s L t q k x, bin2 L -> cbin t -> terms_ok s t ->
  cbin (fst (cprune o tol s L t q k)) -> cleafok (fst (cprune o tol s L t q k)) ->
  (KElimCache.kwit_ok tol q (fst (KPrune.kprune o tol s 2 L (kemb t) q k)) <-> wit_ok tol q (fst (cprune o tol s L t q k))) /\
  (KPruneEval.kmarks x q (fst (KPrune.kprune o tol s 2 L (kemb t) q k)) <-> marks_ok x q (fst (cprune o tol s L t q k))).
Proof. exact kprune_binary_cache. Qed.
(* non-vacuity at K = 4: a receiver with three witness lists and one Infeasible mark, exact oracle; with the full argument
   two cache entries survive (two terminals are forwarded over), with the partial argument all four; every stored
   witness passes the executable check, every mark has a Farkas certificate *)
Example C05_kprune_nonvacuous :
  (forall x, length x = 1%nat -> osound (kx_oracle 1) x) /\ mir_sound (kx_oracle 1) 0 /\
  kary 4 kx_L /\ kary 4 kx_Lp /\ kok comp_schema kx_tw /\
  KElimCache.kwit_ok 0 [] kx_tw /\ (forall x, length x = 1%nat -> KPruneEval.kmarks x [] kx_tw) /\
  kn_wit kx_tw = 3%nat /\ kn_inf kx_tw = 1%nat /\
  (kn_wit (fst (kcompose_prune (kx_oracle 1) 0 4 kx_tw kx_L)) = 2%nat /\
   kn_inf (fst (kcompose_prune (kx_oracle 1) 0 4 kx_tw kx_L)) = 0%nat /\
   k_lp (snd (kcompose_prune (kx_oracle 1) 0 4 kx_tw kx_L)) = 6%nat /\
   kwit_okb 0 [] (fst (kcompose_prune (kx_oracle 1) 0 4 kx_tw kx_L)) = true /\
   kmarks_cert 1 [] (fst (kcompose_prune (kx_oracle 1) 0 4 kx_tw kx_L)) = true) /\
  (kn_wit (fst (kcompose_prune (kx_oracle 1) 0 4 kx_tw kx_Lp)) = 3%nat /\
   kn_inf (fst (kcompose_prune (kx_oracle 1) 0 4 kx_tw kx_Lp)) = 1%nat /\
   k_lp (snd (kcompose_prune (kx_oracle 1) 0 4 kx_tw kx_Lp)) = 5%nat /\
   kwit_okb 0 [] (fst (kcompose_prune (kx_oracle 1) 0 4 kx_tw kx_Lp)) = true /\
   kmarks_cert 1 [] (fst (kcompose_prune (kx_oracle 1) 0 4 kx_tw kx_Lp)) = true) /\
  (forall x, length x = 1%nat ->
     kev (fst (kcompose_prune (kx_oracle 1) 0 4 kx_tw kx_L)) x = eval (compose (kerase kx_tw) kx_L) x /\
     KPruneEval.kmarks x [] (fst (kcompose_prune (kx_oracle 1) 0 4 kx_tw kx_L)) /\
     KElimCache.kwit_ok 0 [] (fst (kcompose_prune (kx_oracle 1) 0 4 kx_tw kx_L)) /\
     kev (fst (kcompose_prune (kx_oracle 1) 0 4 kx_tw kx_Lp)) x = eval (compose (kerase kx_tw) kx_Lp) x /\
     KPruneEval.kmarks x [] (fst (kcompose_prune (kx_oracle 1) 0 4 kx_tw kx_Lp)) /\
     KElimCache.kwit_ok 0 [] (fst (kcompose_prune (kx_oracle 1) 0 4 kx_tw kx_Lp))).
Proof. exact kx_cache. Qed.
(* the executable checks are sound *)
Theorem C05_kwit_check_sound : forall tol t q, kwit_okb tol q t = true -> KElimCache.kwit_ok tol q t.
Proof. exact kwit_okb_sound. Qed.
Theorem C05_kmarks_cert_sound : forall n x, length x = n -> forall t q, kmarks_cert n q t = true -> KPruneEval.kmarks x q t.
Proof. exact kmarks_cert_sound. Qed.

Print Assumptions C05_kprune_witnesses.
Print Assumptions C05_kprune_marks.
Print Assumptions C05_kcompose_prune_caches.
Print Assumptions C05_kop_prune_caches.
Print Assumptions C05_kcompose_prune_sound.
Print Assumptions C05_kprune_binary.
Print Assumptions C05_kprune_nonvacuous.
Print Assumptions C05_kwit_check_sound.
Print Assumptions C05_kmarks_cert_sound.

(* Props/C05.v -- placeholder until the theorems are stated; see Pwl/Cache.v *)
From AT Require Import Num Vec Aff Farkas FM Equiv PTree Cache.
Theorem C05_mirror_points_sound : forall nus eps rs p, Forall (fun nu => 0 < nu) nus -> 0 <= eps -> length nus = length rs ->
  Forall (fun nr => accept_row (fst nr) eps (snd nr) p) (combine nus rs) -> in_rows rs p.
Proof. exact mirror_points_sound. Qed.
Print Assumptions C05_mirror_points_sound.

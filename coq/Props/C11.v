(* Props/C11.v -- C11: pruning is fail-safe when the LP solver misbehaves.  Property theorems only.
   The C03 / C05 theorems are stated for EVERY oracle; the only answers they constrain are Infeasible ones.  An
   Error, an Unbounded, or an Optimal point outside the polytope at any call or calls is therefore already
   covered: this file instantiates them for an arbitrarily corrupted oracle and adds the "only less pruning"
   clause.  (Well-formedness under faults -- no panic, tree stays well-formed -- is C04's preservation theorem,
   which is also stated for every oracle.) *)
From AT Require Import Num Vec Aff PTree Cells Abs Cache Elim ElimEval ElimCache CPrune CPruneEval CPruneCache ElimExample ElimFault.

(* faulty o hit bad: at the calls selected by [hit] the answer is replaced by [bad k] -- an Error, an Unbounded,
   or an Optimal with an arbitrary point, never Infeasible (not_inf) *)

(* the represented function is unchanged under any fault plan *)
Theorem C11_elim_function_unchanged : forall o hit bad tol t x,
  osound o x -> (forall k, not_inf (bad k)) -> marks_kids x [] t ->
  cev (fst (elim (faulty o hit bad) tol t)) x = cev t x.
Proof. exact fault_elim_function. Qed.
Theorem C11_compose_function_unchanged : forall o hit bad tol t L x,
  osound o x -> (forall k, not_inf (bad k)) -> bin2 L -> cbin t -> terms_ok comp_schema t -> marks_ok x [] t ->
  cev (fst (compose_prune (faulty o hit bad) tol t L)) x = eval (compose (erase t) L) x.
Proof. exact fault_compose_function. Qed.

(* no unsound witness or verdict is cached under any fault plan: a bogus Optimal point is re-checked with
   contains() before it is stored, the repaired point likewise *)
Theorem C11_no_unsound_witness : forall o hit bad tol t,
  mir_sound o tol -> wit_ok tol [] t -> wit_ok tol [] (fst (elim (faulty o hit bad) tol t)).
Proof. exact fault_no_unsound_witness. Qed.
Theorem C11_no_unsound_verdict : forall o hit bad tol t x,
  osound o x -> (forall k, not_inf (bad k)) -> marks_kids x [] t ->
  marks_kids x [] (fst (elim (faulty o hit bad) tol t)).
Proof. exact fault_no_unsound_verdict. Qed.
Theorem C11_compose_caches : forall o hit bad tol s L t q k x,
  wit_ok tol q t -> marks_ok x q t ->
  wit_ok tol q (fst (cprune (faulty o hit bad) tol s L t q k)) /\
  marks_ok x q (fst (cprune (faulty o hit bad) tol s L t q k)).
Proof. exact fault_compose_caches. Qed.

(* the only permitted effect is less pruning: an answer other than Infeasible never produces an Infeasible verdict,
   so it never removes an edge nor forwards a decision -- a corrupted call classifies as Feasible or Indeterminate *)
Theorem C11_fault_never_prunes : forall o tol q k s k',
  phase_two o tol q k = (s, k') -> o_lp o (k_lp k) q <> LInf -> is_infeas s = false.
Proof. exact fault_never_prunes. Qed.
Theorem C11_fault_keeps_edge : forall o tol top st q k,
  o_lp o (k_lp k) q <> LInf -> st <> Infeas -> fst (explore o tol top st q k) = true.
Proof. exact fault_keeps_edge. Qed.

Example C11_nonvacuous :
  let o := faulty ex_o (fun k => Nat.eqb k 3) (fun _ => LErr) in
  (forall x, osound o x) /\ (forall x, cev (fst (elim o 0 ex_t)) x = cev ex_t x) /\
  (* the Error at the call that would have found the infeasible path: nothing is pruned *)
  erase (fst (elim o 0 ex_t)) = erase ex_t.
Proof. exact fault_example. Qed.

Print Assumptions C11_elim_function_unchanged.
Print Assumptions C11_compose_function_unchanged.
Print Assumptions C11_no_unsound_witness.
Print Assumptions C11_no_unsound_verdict.
Print Assumptions C11_compose_caches.
Print Assumptions C11_fault_never_prunes.
Print Assumptions C11_fault_keeps_edge.
Print Assumptions C11_nonvacuous.

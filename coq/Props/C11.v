(* Props/C11.v -- C11: pruning is fail-safe when the LP solver misbehaves.  Property theorems only.
   The C03 / C05 theorems are stated for EVERY oracle; the only answers they constrain are Infeasible ones.  An
   Error, an Unbounded, or an Optimal point outside the polytope at any call or calls is therefore already
   covered: this file instantiates them for an arbitrarily corrupted oracle and adds the "only less pruning"
   clause.  (Well-formedness under faults -- no panic, tree stays well-formed -- is C04's preservation theorem,
   which is also stated for every oracle.) *)
From AT Require Import Num Vec Aff PTree Cells Abs Cache Elim ElimEval ElimCache CPrune CPruneEval CPruneCache ElimExample ElimFault.
From AT Require Import EdgeRegion KPrune KPruneEval KPruneExample KElim KElimEval KElimCache KElimExample KFault.

(* faulty o hit bad: at the calls selected by [hit] the answer is replaced by [bad k] -- an Error, an Unbounded,
   or an Optimal with an arbitrary point, never Infeasible (not_inf) *)

(* the represented function is unchanged under any fault plan *)
Theorem C11_elim_function_unchanged : forall o hit bad tol t x,
  osound o x -> (forall k, not_inf (bad k)) -> marks_kids x [] t ->
  cev (fst (elim (faulty o hit bad) tol t)) x = cev t x.
Proof. exact fault_elim_function. Qed.
Theorem C11_compose_function_unchanged : forall o hit bad tol t L x,
  osound o x -> (forall k, not_inf (bad k)) -> bin2 L -> cbin t -> terms_ok comp_schema t -> marks_ok x [] t ->
  cev (fst (compose_prune (faulty o hit bad) tol t L)) x = eval (compose (erase t) L) x.
Proof. exact fault_compose_function. Qed.

(* no unsound witness or verdict is cached under any fault plan: a bogus Optimal point is re-checked with
   contains() before it is stored, the repaired point likewise *)
Theorem C11_no_unsound_witness : forall o hit bad tol t,
  mir_sound o tol -> wit_ok tol [] t -> wit_ok tol [] (fst (elim (faulty o hit bad) tol t)).
Proof. exact fault_no_unsound_witness. Qed.
Theorem C11_no_unsound_verdict : forall o hit bad tol t x,
  osound o x -> (forall k, not_inf (bad k)) -> marks_kids x [] t ->
  marks_kids x [] (fst (elim (faulty o hit bad) tol t)).
Proof. exact fault_no_unsound_verdict. Qed.
Theorem C11_compose_caches : forall o hit bad tol s L t q k x,
  wit_ok tol q t -> marks_ok x q t ->
  wit_ok tol q (fst (cprune (faulty o hit bad) tol s L t q k)) /\
  marks_ok x q (fst (cprune (faulty o hit bad) tol s L t q k)).
Proof. exact fault_compose_caches. Qed.

(* the only permitted effect is less pruning: an answer other than Infeasible never produces an Infeasible verdict,
   so it never removes an edge nor forwards a decision -- a corrupted call classifies as Feasible or Indeterminate *)
Theorem C11_fault_never_prunes : forall o tol q k s k',
  phase_two o tol q k = (s, k') -> o_lp o (k_lp k) q <> LInf -> is_infeas s = false.
Proof. exact fault_never_prunes. Qed.
Theorem C11_fault_keeps_edge : forall o tol top st q k,
  o_lp o (k_lp k) q <> LInf -> st <> Infeas -> fst (explore o tol top st q k) = true.
Proof. exact fault_keeps_edge. Qed.

Example C11_nonvacuous :
  let o := faulty ex_o (fun k => Nat.eqb k 3) (fun _ => LErr) in
  (forall x, osound o x) /\ (forall x, cev (fst (elim o 0 ex_t)) x = cev ex_t x) /\
  (* the Error at the call that would have found the infeasible path: nothing is pruned *)
  erase (fst (elim o 0 ex_t)) = erase ex_t.
Proof. exact fault_example. Qed.

Print Assumptions C11_elim_function_unchanged.
Print Assumptions C11_compose_function_unchanged.
Print Assumptions C11_no_unsound_witness.
Print Assumptions C11_no_unsound_verdict.
Print Assumptions C11_compose_caches.
Print Assumptions C11_fault_never_prunes.
Print Assumptions C11_fault_keeps_edge.
Print Assumptions C11_nonvacuous.

(* x-c11k begin ---------------------------------------------------------------------------------------------------
   the same for EVERY branching factor K (Pwl/KFault.v): the K-ary models KElim.kelim (infeasible_elimination) and
   KPrune.kprune (pruned composition / operators) run with faulty o hit bad. *)
Theorem C11_kelim_function_unchanged : forall o hit bad tol K t x,
  osound o x -> (forall k, not_inf (bad k)) -> kshape K t -> kmarks_kids x [] t ->
  kev (fst (kelim (faulty o hit bad) tol K t)) x = kev t x /\
  kterm (fst (kelim (faulty o hit bad) tol K t)) x = kterm t x.
Proof. exact kfault_elim_function_unchanged. Qed.
Theorem C11_kprune_function_unchanged : forall o hit bad tol s K L x,
  osound o x -> (forall k, not_inf (bad k)) -> kary K L ->
  forall t q k, kok s t -> kmarks x q t -> in_rows q x ->
  kev (fst (kprune (faulty o hit bad) tol s K L t q k)) x = eval (lift s (kerase t) L) x /\
  kterm (fst (kprune (faulty o hit bad) tol s K L t q k)) x = term (lift s (kerase t) L) x.
Proof. exact kfault_prune_function_unchanged. Qed.
Theorem C11_kcompose_function_unchanged : forall o hit bad tol K t L x,
  osound o x -> (forall k, not_inf (bad k)) -> kary K L -> kok comp_schema t -> kmarks x [] t ->
  kev (fst (kcompose_prune (faulty o hit bad) tol K t L)) x = eval (compose (kerase t) L) x.
Proof. exact kfault_compose_function_unchanged. Qed.
(* no unsound witness or verdict is cached *)
Theorem C11_kelim_caches : forall o hit bad tol K t,
  (mir_sound o tol -> kwit_ok tol [] t -> kwit_ok tol [] (fst (kelim (faulty o hit bad) tol K t))) /\
  (forall x, osound o x -> (forall k, not_inf (bad k)) -> kshape K t -> kmarks_kids x [] t ->
     kmarks_kids x [] (fst (kelim (faulty o hit bad) tol K t))).
Proof. exact kfault_elim_caches. Qed.
(* only less pruning: the classification of a node makes at most the LP call number k_lp k; an answer other than
   Infeasible never yields the state Infeasible, the node is neither skipped nor queued for removal *)
Theorem C11_kfault_never_prunes : forall o tol stP q h k s k',
  kclassify o tol stP q h k = (s, k') -> o_lp o (k_lp k) q <> LInf -> is_infeas s = false.
Proof. exact kfault_never_prunes. Qed.
Theorem C11_kfault_never_prunes_faulty : forall o hit bad tol stP q h k s k',
  hit (k_lp k) = true -> not_inf (bad (k_lp k)) ->
  kclassify (faulty o hit bad) tol stP q h k = (s, k') -> is_infeas s = false.
Proof. exact kfault_never_prunes_faulty. Qed.
Theorem C11_kfault_never_prunes_visit : forall o tol stP q h c k s k' fr sk,
  kvisit o tol stP q h c k = (s, k', fr, sk) -> k_state c <> Infeas -> o_lp o (k_lp k) q <> LInf ->
  is_infeas s = false /\ sk = false.
Proof. exact kfault_never_prunes_visit. Qed.
(* the edge loop of the pruned composition keeps every existing edge when no LP call is answered Infeasible *)
Theorem C11_kfault_keeps_edges : forall o tol top st q p', never_inf o -> st <> Infeas ->
  forall ch l created k, fst (kedges o tol top st q p' ch l created k) = map pexists ch.
Proof. exact kfault_keeps_edges. Qed.
(* an LP backend that never answers Infeasible (e.g. every call faulted), no cached Infeasible mark, K >= 2: nothing is
   removed and nothing is forwarded -- the result without its caches is the input / the un-pruned lifting *)
Theorem C11_kfault_all_faulted : forall o hit bad, (forall k, hit k = true) -> (forall k, not_inf (bad k)) ->
  never_inf (faulty o hit bad).
Proof. exact faulty_all_never_inf. Qed.
Theorem C11_kfault_elim_removes_nothing : forall o tol K t, never_inf o -> (2 <= K)%nat -> kclean_kids t ->
  kerase (fst (kelim o tol K t)) = kerase t.
Proof. exact kfault_elim_removes_nothing. Qed.
Theorem C11_kfault_prune_removes_nothing : forall o tol s K L, never_inf o -> (2 <= K)%nat ->
  forall t q k, kclean t -> kerase (fst (kprune o tol s K L t q k)) = lift s (kerase t) L.
Proof. exact kfault_prune_removes_nothing. Qed.

(* K = 4 (two-row predicates): the runs of KElimExample / KPruneExample with every LP call faulted *)
Example C11_kfault_nonvacuous :
  ktree_eqb (fst (kelim (kx_oracle 1) 0 4 kex_t)) kex_r = true /\
  ktree_eqb (fst (kelim (kf_all LErr) 0 4 kex_t)) kex_t = true /\
  k_lp (snd (kelim (kf_all LErr) 0 4 kex_t)) = 10%nat /\
  kerase (fst (kelim (kf_all LUnb) 0 4 kex_t)) = kerase kex_t /\
  kerase (fst (kelim (kf_all kf_bogus) 0 4 kex_t)) = kerase kex_t /\
  kerase (fst (kcompose_prune (kf_all LErr) 0 4 kx_t kx_L)) = compose (kerase kx_t) kx_L /\
  kerase (fst (kcompose_prune (kf_all LUnb) 0 4 kx_t kx_L)) = compose (kerase kx_t) kx_L /\
  (forall a x, length x = 1%nat -> not_inf a ->
     osound (kf_all a) x /\ never_inf (kf_all a) /\ kshape 4 kex_t /\ kmarks_kids x [] kex_t /\ kclean_kids kex_t /\
     kev (fst (kelim (kf_all a) 0 4 kex_t)) x = kev kex_t x /\
     kterm (fst (kelim (kf_all a) 0 4 kex_t)) x = kterm kex_t x /\
     kerase (fst (kelim (kf_all a) 0 4 kex_t)) = kerase kex_t /\
     kev (fst (kcompose_prune (kf_all a) 0 4 kx_t kx_L)) x = eval (compose (kerase kx_t) kx_L) x /\
     kerase (fst (kcompose_prune (kf_all a) 0 4 kx_t kx_L)) = compose (kerase kx_t) kx_L).
Proof. exact kfault_example. Qed.

Print Assumptions C11_kelim_function_unchanged.
Print Assumptions C11_kprune_function_unchanged.
Print Assumptions C11_kcompose_function_unchanged.
Print Assumptions C11_kelim_caches.
Print Assumptions C11_kfault_never_prunes.
Print Assumptions C11_kfault_never_prunes_faulty.
Print Assumptions C11_kfault_never_prunes_visit.
Print Assumptions C11_kfault_keeps_edges.
Print Assumptions C11_kfault_all_faulted.
Print Assumptions C11_kfault_elim_removes_nothing.
Print Assumptions C11_kfault_prune_removes_nothing.
Print Assumptions C11_kfault_nonvacuous.
(* x-c11k end ----------------------------------------------------------------------------------------------------- *)

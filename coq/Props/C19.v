(* Props/C19.v -- C19: text and DOT renderings are faithful.  Property theorems only.
   Model: Fmt/Decimal.v (`{:.p}`), Fmt/Render.v (impl_affineformat.rs at token level), Fmt/Dot.v (dot.rs, Display for AffTree).
   The string is the concatenation of the token texts by definition; Rust's float printing itself is std and is
   validated by the run-time comparison (runner/fam_c19.ml), not proved. *)
From Coq Require Import String Ascii Permutation Sorted.
From AT Require Import Num Vec Aff Decimal Render Cells Abs Dot.

(* `{:.p}`: the printed number n / 10^p is within half a unit of the last printed digit of the exact value q ... *)
Theorem C19_printed_precision : forall p q, qabs (num_val (fixed_n p q) p - q) <= half_ulp p.
Proof. exact fixed_n_close. Qed.
(* ... and the digit string denotes n: at least one integer digit, p fraction digits, all digits 0..9 *)
Theorem C19_digits : forall n p, (0 <= n)%Z ->
  dval (num_digits n p) = n /\ (S p <= length (num_digits n p))%nat /\
  Forall (fun d => (0 <= d < 10)%Z) (num_digits n p).
Proof. exact num_digits_spec. Qed.

(* write_lincomb, all options, any tie-break of the unstable sort: every number is preceded by the sign bit of a
   stored coefficient x and followed, after one space, by the ORIGINAL index i of that coefficient, and it shows
   |x| at the printed precision *)
Theorem C19_coeff_next_to_index : forall o p rk row pre n q post,
  render_lincomb o p rk row = pre ++ Num n q :: post ->
  exists i x pre' post', nth_error row i = Some x /\
    pre = pre' ++ [Sign (f_neg x)] /\ post = Sp :: Var i :: post' /\
    q = p /\ n = num_of p x /\ qabs (num_val n p - qabs (f_val x)) <= half_ulp p.
Proof. exact lincomb_num. Qed.

(* the variables shown are those at the positions outside skip_axes of the (sorted or unsorted) sequence ... *)
Theorem C19_axes_shown : forall o p rk row,
  vars_of (render_lincomb o p rk row) = map fst (shown (o_skip_axes o) (order o rk row)).
Proof. exact lincomb_shown. Qed.
(* ... which is a permutation of the (index, coefficient) pairs, by descending magnitude when sorting applies and
   the identity otherwise *)
Theorem C19_order_perm : forall o rk row, Permutation (order o rk row) (enumerate row).
Proof. exact order_perm. Qed.
Theorem C19_order_sorted : forall o rk row, sorting o (length row) = true -> StronglySorted desc (order o rk row).
Proof. exact order_sorted. Qed.
Theorem C19_order_unsorted : forall o rk row, sorting o (length row) = false -> order o rk row = enumerate row.
Proof. exact order_unsorted. Qed.
(* an ellipsis is present iff at least one position was skipped, and then exactly once *)
Theorem C19_axes_ellipsis : forall o p rk row,
  filter is_hell (render_lincomb o p rk row) =
  if existsb (skipped (o_skip_axes o)) (seq 0 (length row)) then [HEllipsis] else [].
Proof. exact lincomb_ellipsis. Qed.
(* state-free form of the loop: position by position, own item / the one ellipsis / nothing *)
Theorem C19_lincomb_blocks : forall o p rk row,
  render_lincomb o p rk row =
  concat (map (block (o_skip_axes o) lin_ell (lin_item p) true 0) (enumerate (order o rk row))).
Proof. exact lincomb_blocks. Qed.

(* write_inequality: every number is a coefficient left of ≤ next to its variable, or the bias as the last token
   right of ≤ with its own sign; values are the stored ones, divided by the row's scale when normalize applies *)
Theorem C19_inequality_num : forall o p dv rk row bias pre n q post,
  render_inequality o p dv rk row bias = pre ++ Num n q :: post ->
  (exists i x0 pre' post', nth_error row i = Some x0 /\
     pre = pre' ++ [Sign (f_neg x0)] /\ post = Sp :: Var i :: post' /\ q = p /\
     n = num_of p (norm_fl o dv row x0) /\ In Leq post') \/
  (pre = render_lincomb o p rk (norm_row o dv row) ++ [Sp; Leq; Sp; Sign (f_neg bias)] /\ post = [] /\
     q = p /\ n = num_of p (norm_fl o dv row bias)).
Proof. exact inequality_num. Qed.
Theorem C19_shown_value : forall o p row x,
  qabs (num_val (num_of p (norm_fl o Qcdiv row x)) p -
        qabs (if norm_on o row then f_val x / scale_of row else f_val x)) <= half_ulp p.
Proof. exact shown_value_close. Qed.
(* normalize: one positive factor (the maximal magnitude) for the whole row and the bias, so the inequality
   shown is equivalent to the stored one, and all shown coefficients lie in [-1, 1] *)
Theorem C19_normalize_equiv : forall row bias x, all_zero row = false ->
  let s := scale_of row in
  0 < s /\
  (dot (vals (map (fdiv Qcdiv s) row)) x <= f_val (fdiv Qcdiv s bias) <-> dot (vals row) x <= f_val bias) /\
  Forall (fun c => qabs (f_val c) <= s) row.
Proof. exact normalize_equiv. Qed.
(* ⊤ / ⊥ only for all-zero rows with bias >= 0 / < 0, and only when simplify_tautologies is on *)
Theorem C19_tautologies : forall o p dv rk row bias,
  (In Top (render_inequality o p dv rk row bias) ->
     o_staut o = true /\ all_zero row = true /\ 0 <= f_val bias /\ render_inequality o p dv rk row bias = [Top]) /\
  (In Bot (render_inequality o p dv rk row bias) ->
     o_staut o = true /\ all_zero row = true /\ f_val bias < 0 /\ render_inequality o p dv rk row bias = [Bot]).
Proof. exact inequality_top_bot. Qed.
Theorem C19_all_zero : forall row, all_zero row = true <-> Forall (fun x => f_val x = 0) row.
Proof. exact all_zero_spec. Qed.

(* write_affcomb: the bias first, with its own sign; the linear part is dropped only when it is identically zero *)
Theorem C19_affcomb_bias_first : forall o p rk row bias,
  render_affcomb o p rk row bias =
    Sign (f_neg bias) :: Num (num_of p bias) p :: Sp ::
    (if o_szero o && all_zero row then [] else render_lincomb o p rk row).
Proof. exact affcomb_shape. Qed.

(* write_func / write_poly: row by row, own rendering iff outside skip_rows; ⋮ iff some row was skipped, once *)
Theorem C19_rows_blocks : forall R sk M b,
  render_rows R sk M b =
  concat (map (block sk row_ell (row_item R (length b)) true 0) (enumerate (combine M b))).
Proof. exact rows_blocks. Qed.
Theorem C19_func_ellipsis : forall o p rk M b,
  filter is_vell (render_func o p rk M b) =
  if existsb (skipped (o_skip_rows o)) (seq 0 (length (combine M b))) then [VEllipsis] else [].
Proof. exact func_ellipsis. Qed.
Theorem C19_poly_ellipsis : forall o p dv rk M b,
  filter is_vell (render_poly o p dv rk M b) =
  if existsb (skipped (o_skip_rows o)) (seq 0 (length (combine M b))) then [VEllipsis] else [].
Proof. exact poly_ellipsis. Qed.

(* DOT: exactly one node statement per arena cell, in index order, labelled with the node's own function (leaf)
   or predicate (decision) *)
Theorem C19_dot_node_count : forall V (fn : V -> fmat) p dv rk (a : arena V),
  length (filter is_dnode (dot_model fn p dv rk a)) = alen a /\
  map (fun s => match s with DNode i _ _ => i | _ => O end) (filter is_dnode (dot_model fn p dv rk a)) = akeys a.
Proof. exact @dot_node_count. Qed.
Theorem C19_dot_node_own_label : forall V (fn : V -> fmat) p dv rk (a : arena V) i lf lab,
  In (DNode i lf lab) (dot_model fn p dv rk a) <->
  exists c, aget a i = Some c /\ lf = c_leaf c /\ lab = node_label fn p dv (rk i) c.
Proof. exact @dot_node_own_label. Qed.
(* every edge statement is a parent link with the label under which the parent lists the child ... *)
Theorem C19_dot_edge_sound : forall V (fn : V -> fmat) p dv rk (a : arena V) s t l,
  In (DEdge s t l) (dot_model fn p dv rk a) ->
  exists c pc, aget a t = Some c /\ c_parent c = Some s /\ aget a s = Some pc /\ nth_error (c_children pc) l = Some (Some t).
Proof. exact @dot_edge_sound. Qed.
(* ... and on a consistent arena there is exactly one per parent link (and no panic) *)
Theorem C19_dot_edge_count : forall V (fn : V -> fmat) p dv rk (a : arena V), parent_ok a ->
  length (filter is_dedge (dot_model fn p dv rk a)) = length (filter has_parent (cells a)) /\
  filter is_dpanic (dot_model fn p dv rk a) = [].
Proof. exact @dot_edge_count. Qed.
Theorem C19_dot_edge_complete : forall V (fn : V -> fmat) p dv rk (a : arena V) i c pi, parent_ok a ->
  aget a i = Some c -> c_parent c = Some pi -> exists l, In (DEdge pi i l) (dot_model fn p dv rk a).
Proof. exact @dot_edge_complete. Qed.

(* Display of a tree: one node line per cell; the children line lists exactly the node's child links *)
Theorem C19_display_nodes : forall V (fn : V -> fmat) dv rk (a : arena V),
  filter is_tnode (display_model fn dv rk a) =
  map (fun e => TNode (fst e) (c_leaf (snd e)) (node_label fn 2 dv (rk (fst e)) (snd e))) (cells a) /\
  length (filter is_tnode (display_model fn dv rk a)) = alen a.
Proof. exact @display_nodes. Qed.
Theorem C19_display_children : forall V (fn : V -> fmat) dv rk (a : arena V) ps,
  In (TChildren ps) (display_model fn dv rk a) ->
  exists i c, aget a i = Some c /\ ps = children_pairs (c_children c) /\
    forall l ch, In (l, ch) ps <-> nth_error (c_children c) l = Some (Some ch).
Proof. exact @display_children. Qed.

(* non-vacuity: -0.0 and a tie at the rounding digit, sorted with skipped axes, normalised; a tautology; a tree
   with a hole in the arena *)
Definition ex_fl (neg : bool) (m e : Z) : fl := {| f_neg := neg; f_val := qc_of_float m e |}.
Definition ex_row : frow := [ex_fl true 0 0; ex_fl false 1 (-3); ex_fl true (-5) (-1); ex_fl false 3 (-3)].
Definition ex_opts : fopts :=
  {| o_sort := 2; o_szero := true; o_staut := true; o_norm := false; o_skip_axes := (BIncl 1%Z, BExcl 2%Z); o_skip_rows := no_skip |}.
Definition ex_cell (i : Z) (par : option nat) (ch : list (option nat)) (lf : bool) : option (cell acont) :=
  Some (mkcell {| ac_aff := {| a_in := 1; a_mat := [[qc_of_float i 0]]; a_bias := [qc_of_float 1 (-3)] |}; ac_state := Indet |} par ch lf).
Definition ex_arena : arena acont :=
  [ex_cell 1 None [Some 3%nat; Some 2%nat] false; None; ex_cell 2 (Some 0%nat) [None; None] true; ex_cell (-3) (Some 0%nat) [None; None] true].
Example C19_nonvacuous :
  text (render_lincomb opts_default 2 (fun i => i) ex_row) = "−0.00 $0 +0.12 $1 −2.50 $2 +0.38 $3"%string /\
  text (render_lincomb ex_opts 0 (fun i => i) ex_row) = "−2 $2 ⋯ +0 $1 −0 $0"%string /\
  text (render_inequality opts_poly 2 Qcdiv (fun i => i) ex_row (ex_fl false 5 0)) = "−0.00 $0 +0.05 $1 −1.00 $2 +0.15 $3 ≤ +2.00"%string /\
  text (render_inequality opts_poly 2 Qcdiv (fun i => i) [ex_fl true 0 0] (ex_fl true 0 0)) = "⊤"%string /\
  dot_text (dot_model acont_fn 1 Qcdiv (fun _ _ i => i) ex_arena) =
    append "digraph afftree {" (append nl (append "bgcolor=transparent;" (append nl (append "concentrate=true;" (append nl
    (append "margin=0;" (append nl (append "n0 [label=" (append dq (append "+1.0 $0 ≤ +0.1" (append dq (append ", shape=ellipse];" (append nl
    (append "n2 [label=" (append dq (append "+0.1 +2.0 $0" (append dq (append ", shape=box];" (append nl
    (append "n3 [label=" (append dq (append "+0.1 −3.0 $0" (append dq (append ", shape=box];" (append nl
    (append "n0 -> n2 [label=1, style=solid];" (append nl (append "n0 -> n3 [label=0, style=dashed];" (append nl "}")))))))))))))))))))))))))))))%string /\
  parent_ok ex_arena.
Proof.
  repeat split; try (vm_compute; reflexivity).
  intros i c pi Hc Hp.
  assert (Hi : (i < 4)%nat).
  { destruct (Nat.lt_ge_cases i 4) as [L|L]; auto. unfold aget in Hc.
    assert (E : nth_error ex_arena i = None) by (apply nth_error_None; exact L). rewrite E in Hc. discriminate. }
  destruct i as [|[|[|[|i]]]]; try lia; vm_compute in Hc; try discriminate Hc;
    injection Hc as <-; vm_compute in Hp; try discriminate Hp; injection Hp as <-;
    eexists; (split; [vm_compute; reflexivity | vm_compute; tauto]).
Qed.

Print Assumptions C19_printed_precision.
Print Assumptions C19_digits.
Print Assumptions C19_coeff_next_to_index.
Print Assumptions C19_axes_shown.
Print Assumptions C19_order_perm.
Print Assumptions C19_order_sorted.
Print Assumptions C19_order_unsorted.
Print Assumptions C19_axes_ellipsis.
Print Assumptions C19_lincomb_blocks.
Print Assumptions C19_inequality_num.
Print Assumptions C19_shown_value.
Print Assumptions C19_normalize_equiv.
Print Assumptions C19_tautologies.
Print Assumptions C19_all_zero.
Print Assumptions C19_affcomb_bias_first.
Print Assumptions C19_rows_blocks.
Print Assumptions C19_func_ellipsis.
Print Assumptions C19_poly_ellipsis.
Print Assumptions C19_dot_node_count.
Print Assumptions C19_dot_node_own_label.
Print Assumptions C19_dot_edge_sound.
Print Assumptions C19_dot_edge_count.
Print Assumptions C19_dot_edge_complete.
Print Assumptions C19_display_nodes.
Print Assumptions C19_display_children.
Print Assumptions C19_nonvacuous.

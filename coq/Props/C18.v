(* Props/C18.v -- C18: Architecture shape tracking and layer files describe the real network.  Property theorems only.
   Model: Distill/Arch.v (Architecture builder calls, extract_range, shape level of afftree_from_layers_generic, as
   coded after the repairs of D10; `true` selects the code as found), Distill/Npz.v (read_layers on an abstract
   archive of named arrays).  Reference notions, independent of the code: layer_out_dim / layers_out_dim
   (dimension compatibility), shapes_after (running output dimensions), net_eval (semantics of a layer list over Qc),
   encode / expand (the npz dialect and its meaning). *)
From Coq Require Import String Permutation.
From AT Require Import Num Vec Aff PTree Schema Arch ArchProofs Npz NpzProofs.

(* ---- the builder: all sequences of calls (valid and invalid) from Architecture::new(n) ---- *)
(* current shape = output dimension of the network built so far; every recorded shape is the output dimension after
   its layer *)
Theorem C18_invariant : forall n cs,
  let st := arch_run false (arch_new n) cs in
  ar_in st = n /\ layers_out_dim n (arch_layers st) = Some (ar_cur st) /\
  arch_shapes st = shapes_after n (arch_layers st) /\ length (arch_shapes st) = length (arch_layers st).
Proof. exact run_content. Qed.
Theorem C18_step_keeps_invariant : forall st c, arch_inv st -> arch_inv (snd (arch_step false st c)).
Proof. exact step_inv. Qed.

(* a call is accepted exactly when the layers it stands for are dimension-compatible with what precedes it *)
Theorem C18_accept_iff_compatible : forall st c, arch_inv st ->
  (fst (arch_step false st c) = None <->
   layers_ok (ar_in st) (arch_layers st ++ call_layers (ar_cur st) c) = true).
Proof. exact accept_iff_compatible. Qed.
(* an accepted call queues exactly those layers and moves the shape to their output dimension; a rejected call
   leaves the architecture untouched *)
Theorem C18_step_spec : forall st c, arch_inv st ->
  match layers_out_dim (ar_cur st) (call_layers (ar_cur st) c) with
  | Some d' => exists st', arch_step false st c = (None, st') /\
                 arch_layers st' = arch_layers st ++ call_layers (ar_cur st) c /\
                 ar_cur st' = d' /\ ar_in st' = ar_in st /\ arch_inv st'
  | None => exists e, arch_step false st c = (Some e, st)
  end.
Proof. exact step_spec. Qed.
Theorem C18_reject_unchanged : forall st c e, arch_inv st -> fst (arch_step false st c) = Some e ->
  snd (arch_step false st c) = st.
Proof. exact step_reject_unchanged. Qed.

(* every accepted architecture is dimension-consistent and distills without a dimension panic; the shape-level model
   of afftree_from_layers_generic panics exactly on a dimension mismatch *)
Theorem C18_accepted_layers_ok : forall n cs, layers_ok n (arch_layers (arch_run false (arch_new n) cs)) = true.
Proof. exact run_layers_ok. Qed.
Theorem C18_distill_panics_iff_mismatch : forall d ls, distill_shape false d ls = DPanic <-> layers_ok d ls = false.
Proof. exact distill_panic_iff. Qed.
Theorem C18_accepted_no_panic : forall n cs,
  let st := arch_run false (arch_new n) cs in
  distill_shape false n (arch_layers st) = DOk (ar_cur st) (ar_cur st).
Proof. exact accepted_no_panic. Qed.

(* extract_range returns the sub-list with the right input / current shapes, for every range *)
Theorem C18_extract_range : forall st s e, arch_inv st -> (s < e)%nat -> (e <= length (ar_ops st))%nat ->
  exists st', extract_range st s e = XOk st' /\
    ar_ops st' = firstn (e - s) (skipn s (ar_ops st)) /\
    arch_layers st' = firstn (e - s) (skipn s (arch_layers st)) /\
    layers_out_dim (ar_in st) (firstn s (arch_layers st)) = Some (ar_in st') /\
    layers_out_dim (ar_in st) (firstn e (arch_layers st)) = Some (ar_cur st') /\
    arch_inv st'.
Proof. exact extract_range_spec. Qed.
Theorem C18_extract_range_reject : forall st s e, (e <= s)%nat \/ (length (ar_ops st) < e)%nat ->
  extract_range st s e = XErr (EIndex e (length (ar_ops st))).
Proof. exact extract_range_reject. Qed.
Theorem C18_extract_split : forall st k, arch_inv st -> (0 < k)%nat -> (k < length (ar_ops st))%nat ->
  exists s1 s2, extract_range st 0 k = XOk s1 /\ extract_range st k (length (ar_ops st)) = XOk s2 /\
    arch_layers st = arch_layers s1 ++ arch_layers s2 /\
    ar_in s1 = ar_in st /\ ar_cur s1 = ar_in s2 /\ ar_cur s2 = ar_cur st /\ arch_inv s1 /\ arch_inv s2.
Proof. exact extract_split. Qed.

(* split points: the network is the second part after the first part; hence (composition law C02) trees that denote
   the parts compose to a tree that denotes the whole -- and such trees exist (the unpruned reference tree) *)
Theorem C18_net_eval_split : forall s l1 l2 x, net_eval s (l1 ++ l2) x = net_eval s l2 (net_eval s l1 x).
Proof. exact net_eval_app. Qed.
Theorem C18_split_compose : forall s n m t1 t2 l1 l2,
  layers_out_dim n l1 = Some m -> Forall layer_wf l1 ->
  denotes s n t1 l1 -> outs m t1 -> denotes s m t2 l2 ->
  denotes s n (compose t1 t2) (l1 ++ l2).
Proof. exact split_compose. Qed.
Theorem C18_split_arch : forall s st k t1 t2, arch_inv st -> Forall layer_wf (arch_layers st) ->
  (0 < k)%nat -> (k < length (ar_ops st))%nat ->
  exists s1 s2, extract_range st 0 k = XOk s1 /\ extract_range st k (length (ar_ops st)) = XOk s2 /\
    (denotes s (ar_in s1) t1 (arch_layers s1) -> outs (ar_cur s1) t1 -> denotes s (ar_in s2) t2 (arch_layers s2) ->
     denotes s (ar_in st) (compose t1 t2) (arch_layers st)).
Proof. exact split_arch. Qed.
Theorem C18_reference_tree_denotes : forall s n ls d', layers_out_dim n ls = Some d' -> Forall layer_wf ls ->
  denotes s n (distill_ref s n ls) ls /\ outs d' (distill_ref s n ls).
Proof. exact distill_ref_denotes. Qed.
Theorem C18_split_reference : forall s n cs k,
  let st := arch_run false (arch_new n) cs in
  Forall layer_wf (arch_layers st) -> (0 < k)%nat -> (k < length (ar_ops st))%nat ->
  exists s1 s2, extract_range st 0 k = XOk s1 /\ extract_range st k (length (ar_ops st)) = XOk s2 /\
    forall x, length x = n ->
      eval (compose (distill_ref s (ar_in s1) (arch_layers s1)) (distill_ref s (ar_in s2) (arch_layers s2))) x
      = eval (distill_ref s n (arch_layers st)) x.
Proof. exact split_ref. Qed.

(* ---- D10 (repaired in /repo): the code as found ---- *)
(* Architecture::argmax left current_shape untouched: linear(2->2); argmax; linear(2->2) is accepted call by call, the
   invariant fails, the layer list is not dimension-consistent and its distillation panics *)
Theorem C18_D10_argmax_refuted :
  exists n cs, let st := arch_run true (arch_new n) cs in
    arch_results true (arch_new n) cs = map (fun _ => None) cs /\
    layers_out_dim n (arch_layers st) = None /\ ~ arch_inv st /\
    distill_shape true n (arch_layers st) = DPanic /\ distill_shape false n (arch_layers st) = DPanic.
Proof. exact d10_refuted. Qed.
(* ... and accepted shapes below 2, where schema::argmax indexes out of bounds *)
Theorem C18_D10_small_refuted :
  exists n cs, let st := arch_run true (arch_new n) cs in
    arch_results true (arch_new n) cs = map (fun _ => None) cs /\
    layers_out_dim n (arch_layers st) = None /\ distill_shape true n (arch_layers st) = DPanic.
Proof. exact d10_small_refuted. Qed.
(* afftree_from_layers_generic kept its `dim` variable stale after Argmax / ClassChar: a dimension-consistent layer
   list with a layer behind the head panicked *)
Theorem C18_distill_stale_dim_refuted :
  exists n ls, layers_out_dim n ls = Some 1%nat /\ Forall layer_wf ls /\ distill_shape true n ls = DPanic.
Proof. exact distill_stale_dim_refuted. Qed.

(* ---- read_layers ---- *)
(* every layer list in the documented dialect (zero-padded three-digit indices, hence at most 1000 file-level layers;
   entries in any order; markers with or without .npy; additional entries that do not match the pattern or are of
   kind `layers`): index order, stored weights, one activation entry per neuron of the preceding linear layer *)
Theorem C18_read_layers_dialect : forall fl sfx pay junk ar,
  (length fl <= 1000)%nat -> Forall flayer_ok fl ->
  Permutation ar (encode sfx pay fl ++ junk) -> NoDup (map fst ar) ->
  Forall (fun e => ignorable (fst e) = true) junk ->
  read_layers_model ar = ROk (expand fl).
Proof. exact read_layers_dialect. Qed.
Theorem C18_read_layers_ignores : forall ar names dim acc,
  rl_process ar names dim acc = rl_process ar (filter relevant names) dim acc.
Proof. exact process_filter. Qed.
Theorem C18_read_layers_unknown_kind_panics : forall ar nm rest dim acc idx kind, parse_name nm = Some (idx, kind) ->
  kind <> "relu"%string -> kind <> "hard_tanh"%string -> kind <> "hard_sigmoid"%string ->
  kind <> "linear.weights"%string -> kind <> "linear.bias"%string -> kind <> "layers"%string ->
  rl_process ar (nm :: rest) dim acc = RPanic.
Proof. exact unknown_kind_panics. Qed.
(* the bound: below 1000 the padded index strings sort like the numbers *)
Theorem C18_padded_index_order : forall i k r r', (i < k)%nat -> (k < 1000)%nat ->
  str_leb (pad3 i ++ r) (pad3 k ++ r') = true.
Proof. exact pad3_lt. Qed.
(* outside the dialect (unpadded indices) the sorted order is not the index order *)
Example C18_unpadded_is_outside_the_dialect :
  read_layers_model unpadded_ar = ROk [LLinear {| a_in := 1; a_mat := [[1]; [1]]; a_bias := [0; 0] |}].
Proof. exact unpadded_is_outside_the_dialect. Qed.

(* non-vacuity *)
Example C18_nonvacuous_builder :
  arch_results false (arch_new 3) ex_calls =
    [None; None; Some (EIndex 2 2); Some (EDim 2 3); None; Some (EDim 2 1); None; None] /\
  arch_layers (arch_run false (arch_new 3) ex_calls) =
    [LLinear ex_lin32; LReLU 0; LReLU 1; LArgmax; LLinear ex_lin12; LLeaky 1 (1 + 1)] /\
  arch_shapes (arch_run false (arch_new 3) ex_calls) = [2; 2; 2; 1; 2; 2]%nat /\
  ar_cur (arch_run false (arch_new 3) ex_calls) = 2%nat /\
  distill_shape false 3 (arch_layers (arch_run false (arch_new 3) ex_calls)) = DOk 2 2 /\
  (exists s', extract_range (arch_run false (arch_new 3) ex_calls) 3 5 = XOk s' /\
              arch_layers s' = [LArgmax; LLinear ex_lin12] /\ ar_in s' = 2%nat /\ ar_cur s' = 2%nat) /\
  net_eval sixth (arch_layers (arch_run false (arch_new 3) ex_calls)) [1; 1 + 1; - (1)] = [1; 1] /\
  eval (distill_ref sixth 3 (arch_layers (arch_run false (arch_new 3) ex_calls))) [1; 1 + 1; - (1)] = Some [1; 1].
Proof. exact ex_run. Qed.
Example C18_nonvacuous_read_layers :
  read_layers_model ex_ar = ROk (expand ex_fl) /\
  expand ex_fl = [LLinear ex_aff; LReLU 0; LReLU 1; LHardTanh 0; LHardTanh 1; LLinear ex_aff; LHardSigmoid 0; LHardSigmoid 1].
Proof. exact read_layers_example. Qed.

Print Assumptions C18_invariant.
Print Assumptions C18_step_keeps_invariant.
Print Assumptions C18_accept_iff_compatible.
Print Assumptions C18_step_spec.
Print Assumptions C18_reject_unchanged.
Print Assumptions C18_accepted_layers_ok.
Print Assumptions C18_distill_panics_iff_mismatch.
Print Assumptions C18_accepted_no_panic.
Print Assumptions C18_extract_range.
Print Assumptions C18_extract_range_reject.
Print Assumptions C18_extract_split.
Print Assumptions C18_net_eval_split.
Print Assumptions C18_split_compose.
Print Assumptions C18_split_arch.
Print Assumptions C18_reference_tree_denotes.
Print Assumptions C18_split_reference.
Print Assumptions C18_D10_argmax_refuted.
Print Assumptions C18_D10_small_refuted.
Print Assumptions C18_distill_stale_dim_refuted.
Print Assumptions C18_read_layers_dialect.
Print Assumptions C18_read_layers_ignores.
Print Assumptions C18_read_layers_unknown_kind_panics.
Print Assumptions C18_padded_index_order.
Print Assumptions C18_unpadded_is_outside_the_dialect.
Print Assumptions C18_nonvacuous_builder.
Print Assumptions C18_nonvacuous_read_layers.

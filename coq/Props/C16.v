(* Props/C16.v -- C16: affine algebra and named constructors.  Property theorems only.
   Model: Base/AffOps.v (operations as coded in /repo/src/linalg/affine.rs and impl_ops.rs; None = Rust panics).
   All statements hold for every dimension (0 included), every matrix/bias and every input x : list Qc. *)
From Coq Require Import Sorted.
From AT Require Import Num Vec Aff Poly AffOps AffOps2.

(* ---- compose, stack ---- *)
Theorem C16_compose : forall f g x, wf_aff f -> wf_aff g -> a_in f = outdim g ->
  exists h, compose_rs f g = Some h /\ wf_aff h /\ apply h x = apply f (apply g x).
Proof. exact compose_rs_apply. Qed.
Theorem C16_compose_guard : forall f g, a_in f <> outdim g -> compose_rs f g = None.
Proof. exact compose_rs_panics. Qed.
Theorem C16_stack : forall f g x, wf_aff f -> wf_aff g -> a_in f = a_in g ->
  exists h, stack_rs f g = Some h /\ wf_aff h /\ apply h x = apply f x ++ apply g x.
Proof. exact stack_rs_apply. Qed.

(* ---- operators: on operands of equal shape the (co-broadcasting) Rust operator is the coefficient-wise one ---- *)
Theorem C16_ops_same_shape : forall fo f g, wf_aff f -> wf_aff g -> same_shape f g ->
  aop_rs fo f g = Some (aop fo f g).
Proof. exact aop_rs_same. Qed.
Theorem C16_ops_coefficientwise : forall fo f g i j, wf_aff f -> wf_aff g -> same_shape f g ->
  (i < outdim f)%nat -> (j < a_in f)%nat ->
  coef (aop fo f g) i j = fo (coef f i j) (coef g i j) /\ bcoef (aop fo f g) i = fo (bcoef f i) (bcoef g i).
Proof. exact aop_coef. Qed.
(* + - and negation are the point-wise sum, difference, negation *)
Theorem C16_add_pointwise : forall f g x, wf_aff f -> wf_aff g -> same_shape f g -> length x = a_in f ->
  apply (aadd f g) x = vadd (apply f x) (apply g x).
Proof. exact apply_aadd. Qed.
Theorem C16_sub_pointwise : forall f g x, wf_aff f -> wf_aff g -> same_shape f g -> length x = a_in f ->
  apply (asub f g) x = vsub (apply f x) (apply g x).
Proof. exact apply_asub. Qed.
Theorem C16_neg_pointwise : forall f x, wf_aff f -> apply (aneg f) x = vopp (apply f x).
Proof. exact apply_aneg. Qed.
(* / (and %): defined exactly on divisors without a zero coefficient; otherwise Rust yields inf/NaN (RNonfinite) *)
Theorem C16_div_guard_ok : forall fo f g, wf_aff f -> wf_aff g -> same_shape f g -> nz_aff g = true ->
  aop_guarded fo f g = ROk (aop fo f g).
Proof. exact aop_guarded_same. Qed.
Theorem C16_div_guard_zero : forall fo f g, wf_aff f -> wf_aff g -> same_shape f g -> nz_aff g = false ->
  aop_guarded fo f g = RNonfinite.
Proof. exact aop_guarded_zero_divisor. Qed.
Theorem C16_div_coefficientwise : forall f g i j, wf_aff f -> wf_aff g -> same_shape f g -> nz_aff g = true ->
  (i < outdim f)%nat -> (j < a_in f)%nat ->
  coef (adiv f g) i j = coef f i j / coef g i j /\ coef (adiv f g) i j * coef g i j = coef f i j /\
  bcoef (adiv f g) i = bcoef f i / bcoef g i /\ bcoef (adiv f g) i * bcoef g i = bcoef f i.
Proof. exact adiv_coef. Qed.

(* ---- rows ---- *)
Theorem C16_row : forall f i x, wf_aff f -> (i < outdim f)%nat ->
  exists g, row_rs f i = Some g /\ wf_aff g /\ apply g x = [nth i (apply f x) 0].
Proof. exact row_rs_apply. Qed.
Theorem C16_row_iter : forall f x, concat (map (fun g => apply g x) (row_iter f)) = apply f x.
Proof. exact row_iter_apply. Qed.
Theorem C16_row_iter_nth : forall f i, length (a_mat f) = length (a_bias f) -> (i < outdim f)%nat ->
  nth i (row_iter f) (mk (a_in f) [[]] [0]) = arow f i.
Proof. exact row_iter_nth. Qed.
Theorem C16_from_row_iter : forall f, wf_aff f ->
  from_row_iter_rs (a_in f) (outdim f) (combine (a_mat f) (a_bias f)) = Some f.
Proof. exact from_row_iter_rows. Qed.
Theorem C16_remove_rows : forall f idx g x, remove_rows_rs f idx = Some g ->
  apply g x = fst (rm_idx 0 (apply f x) idx).
Proof. exact remove_rows_apply. Qed.
Theorem C16_remove_rows_positions : forall (l : vec) k idx, StronglySorted lt idx ->
  Forall (fun i => (k <= i < k + length l)%nat) idx ->
  rm_idx k l idx = (map snd (filter (kept idx) (combine (seq k (length l)) l)), []).
Proof. exact rm_idx_spec. Qed.
Theorem C16_remove_zero_rows : forall f x,
  reinsert (combine (a_mat f) (a_bias f)) (apply (remove_zero_rows f) x) = apply f x.
Proof. exact remove_zero_rows_reinsert. Qed.
Theorem C16_remove_zero_columns : forall f x, wf_aff f -> length x = a_in f ->
  apply (remove_zero_columns f) (vfilter (colmask f) x) = apply f x.
Proof. exact remove_zero_columns_apply. Qed.

(* ---- conversions ---- *)
Theorem C16_convert_to : forall P r x, length (a_mat P) = length (a_bias P) ->
  (denotes r (convert_to P r) x <-> in_poly P x).
Proof. exact convert_to_denotes. Qed.
Theorem C16_as_polytope : forall f x, in_poly (as_polytope f) x <-> vle (matvec (a_mat f) x) (a_bias f).
Proof. exact as_polytope_denotes. Qed.
Theorem C16_as_function : forall P x, apply (as_function P) x = vadd (matvec (a_mat P) x) (a_bias P).
Proof. exact as_function_apply. Qed.
Theorem C16_view_owned : forall f x, apply (view f) x = apply f x /\ apply (to_owned f) x = apply f x.
Proof. exact view_owned_apply. Qed.

(* ---- named constructors: apply (ctor ...) x = documented function, every dimension ---- *)
Theorem C16_identity : forall n x, length x = n -> apply (c_identity n) x = x.
Proof. exact apply_identity. Qed.
Theorem C16_zeros : forall n x, apply (c_zeros n) x = vzero n.
Proof. exact apply_zeros. Qed.
Theorem C16_constant : forall n v x, apply (c_constant n v) x = [v].
Proof. exact apply_constant. Qed.
Theorem C16_unit : forall n i x, (i < n)%nat -> exists f, c_unit n i = Some f /\ wf_aff f /\ apply f x = [nth i x 0].
Proof. exact apply_unit. Qed.
Theorem C16_zero_idx : forall n i x, (i < n)%nat -> length x = n ->
  exists f, c_zero_idx n i = Some f /\ apply f x = vset x i 0.
Proof. exact apply_zero_idx. Qed.
Theorem C16_sum : forall n x, length x = n -> apply (c_sum n) x = [vsum x].
Proof. exact apply_sum. Qed.
Theorem C16_subtraction : forall n l r x, (l < n)%nat -> (r < n)%nat ->
  exists f, c_subtraction n l r = Some f /\ apply f x = [nth l x 0 - nth r x 0].
Proof. exact apply_subtraction. Qed.
Theorem C16_rotation : forall n R x, cols n R -> length R = n ->
  exists f, c_rotation n R = Some f /\ wf_aff f /\ apply f x = matvec R x.
Proof. exact apply_rotation. Qed.
Theorem C16_scaling : forall s x, length x = length s -> apply (c_scaling s) x = vmul s x.
Proof. exact apply_scaling. Qed.
Theorem C16_uniform_scaling : forall n c x, length x = n -> apply (c_uniform_scaling n c) x = vscale c x.
Proof. exact apply_uniform_scaling. Qed.
Theorem C16_slice : forall ref x, length x = length ref -> apply (c_slice ref) x = slice_spec ref x.
Proof. exact apply_slice. Qed.
Theorem C16_translation : forall n offset x, length x = n -> length offset = n ->
  exists f, c_translation n offset = Some f /\ wf_aff f /\ apply f x = vadd x offset.
Proof. exact apply_translation. Qed.

(* ---- findings: the code as it was before the repairs does not satisfy the property ---- *)
(* D8: translation built a zero matrix and returned the constant offset *)
Theorem C16_translation_refuted :
  exists n offset x, length x = n /\ length offset = n /\ apply (c_translation_old n offset) x <> vadd x offset.
Proof. exact translation_old_refuted. Qed.
(* subtraction(dim, i, i) returned -x_i instead of 0 *)
Theorem C16_subtraction_refuted :
  exists n l r x f, (l < n)%nat /\ (r < n)%nat /\ c_subtraction_old n l r = Some f /\
    apply f x <> [nth l x 0 - nth r x 0].
Proof. exact subtraction_old_refuted. Qed.
(* D13: remove_zero_columns panicked when every column is zero *)
Theorem C16_remove_zero_columns_refuted : exists f, wf_aff f /\ remove_zero_columns_old f = None.
Proof. exact remove_zero_columns_old_refuted. Qed.

(* non-vacuity: the guards are satisfiable and the laws compute on a concrete instance *)
Definition ex_f : aff := mk 2 [[1; 1 + 1]; [0; - (1)]] [1; 0].
Definition ex_g : aff := mk 2 [[0; 1]; [1; 1]] [1 + 1; 1].
Example C16_nonvacuous :
  wf_aff ex_f /\ wf_aff ex_g /\ a_in ex_f = outdim ex_g /\ same_shape ex_f ex_g /\ nz_aff ex_f = false /\
  compose_rs ex_f ex_g = Some (mk 2 [[1 + 1; 1 + 1 + 1]; [- (1); - (1)]] [1 + 1 + 1 + 1 + 1; - (1)]) /\
  apply (aadd ex_f ex_g) [1; 1] = [1 + 1 + 1 + 1 + 1 + 1 + 1; 1 + 1] /\
  c_translation 2 [1; 1] = Some (mk 2 [[1; 0]; [0; 1]] [1; 1]) /\
  (exists f, c_subtraction 3 1 1 = Some f /\ apply f [1; 1 + 1; 1] = [0]).
Proof.
  repeat split; try (apply wf_affb_spec; vm_compute; reflexivity); try (vm_compute; reflexivity).
  eexists. split; vm_compute; reflexivity.
Qed.

Print Assumptions C16_compose.
Print Assumptions C16_compose_guard.
Print Assumptions C16_stack.
Print Assumptions C16_ops_same_shape.
Print Assumptions C16_ops_coefficientwise.
Print Assumptions C16_add_pointwise.
Print Assumptions C16_sub_pointwise.
Print Assumptions C16_neg_pointwise.
Print Assumptions C16_div_guard_ok.
Print Assumptions C16_div_guard_zero.
Print Assumptions C16_div_coefficientwise.
Print Assumptions C16_row.
Print Assumptions C16_row_iter.
Print Assumptions C16_row_iter_nth.
Print Assumptions C16_from_row_iter.
Print Assumptions C16_remove_rows.
Print Assumptions C16_remove_rows_positions.
Print Assumptions C16_remove_zero_rows.
Print Assumptions C16_remove_zero_columns.
Print Assumptions C16_convert_to.
Print Assumptions C16_as_polytope.
Print Assumptions C16_as_function.
Print Assumptions C16_view_owned.
Print Assumptions C16_identity.
Print Assumptions C16_zeros.
Print Assumptions C16_constant.
Print Assumptions C16_unit.
Print Assumptions C16_zero_idx.
Print Assumptions C16_sum.
Print Assumptions C16_subtraction.
Print Assumptions C16_rotation.
Print Assumptions C16_scaling.
Print Assumptions C16_uniform_scaling.
Print Assumptions C16_slice.
Print Assumptions C16_translation.
Print Assumptions C16_translation_refuted.
Print Assumptions C16_subtraction_refuted.
Print Assumptions C16_remove_zero_columns_refuted.

(* ---- apply_transpose, reset_row (Base/AffOps2.v) ---- *)
(* apply_transpose(y) = M^T (y - b): characterised by <z, x> = <y - b, M x> for every x ... *)
Theorem C16_apply_transpose_adjoint : forall f y x, wf_aff f -> length y = outdim f ->
  exists z, apply_transpose_rs f y = Some z /\ length z = a_in f /\
            dot z x = dot (vsub y (a_bias f)) (matvec (a_mat f) x).
Proof. exact apply_transpose_adjoint. Qed.
(* ... which determines it *)
Theorem C16_apply_transpose_unique : forall f y z z', wf_aff f -> length y = outdim f ->
  apply_transpose_rs f y = Some z -> length z' = a_in f ->
  (forall x, length x = a_in f -> dot z' x = dot (vsub y (a_bias f)) (matvec (a_mat f) x)) -> z' = z.
Proof. exact apply_transpose_unique. Qed.
(* "for orthogonal functions this corresponds to the inverse" *)
Theorem C16_apply_transpose_inverse : forall f x, wf_aff f -> length x = a_in f ->
  (forall u v, length u = a_in f -> length v = a_in f ->
               dot (matvec (a_mat f) u) (matvec (a_mat f) v) = dot u v) ->
  apply_transpose_rs f (apply f x) = Some x.
Proof. exact apply_transpose_inverse. Qed.
(* ndarray's shape rule for `input - &bias`: a 1-entry input is broadcast, everything else of the wrong length panics *)
Theorem C16_apply_transpose_guard : forall f y, length y <> length (a_bias f) -> length y <> 1%nat ->
  apply_transpose_rs f y = None.
Proof. exact apply_transpose_panics. Qed.
Theorem C16_apply_transpose_broadcast : forall f c, length (a_bias f) <> 1%nat ->
  apply_transpose_rs f [c] = apply_transpose_rs f (repeat c (length (a_bias f))).
Proof. exact apply_transpose_broadcast. Qed.
Theorem C16_reset_row : forall f i x, wf_aff f -> (i < outdim f)%nat ->
  exists g, reset_row_rs f i = Some g /\ wf_aff g /\ a_in g = a_in f /\ apply g x = vset (apply f x) i 0.
Proof. exact reset_row_apply. Qed.
Theorem C16_reset_row_guard : forall f i, (outdim f <= i)%nat -> reset_row_rs f i = None.
Proof. exact reset_row_panics. Qed.
(* non-vacuity: a rotation by 90 degrees with an offset, undone by apply_transpose *)
Example C16_apply_transpose_nonvacuous :
  let f := mk 2 [[0; - (1)]; [1; 0]] [qz 3; qz 5] in
  wf_aff f /\ apply f [qz 2; qz 7] = [qz (-4); qz 7] /\ apply_transpose_rs f [qz (-4); qz 7] = Some [qz 2; qz 7].
Proof. split; [split; [repeat constructor | reflexivity] | split; vm_compute; reflexivity]. Qed.

Print Assumptions C16_apply_transpose_adjoint.
Print Assumptions C16_apply_transpose_unique.
Print Assumptions C16_apply_transpose_inverse.
Print Assumptions C16_apply_transpose_guard.
Print Assumptions C16_apply_transpose_broadcast.
Print Assumptions C16_reset_row.
Print Assumptions C16_reset_row_guard.
Print Assumptions C16_apply_transpose_nonvacuous.

(* Props/C15.v -- C15: constraint clean-up keeps exactly the same point set.  Property theorems only.
   Model: Base/PolyClean.v (polytopes as row lists [(a_i, b_i)], a_i.x <= b_i; the clean-ups as coded in
   /repo/src/linalg/affine.rs:493-645 and polyhedron.rs:45-80).  Oracles: the positive factors of normalize (square
   roots), the LP answers of remove_redundant_row_constraints; relative_eq on normalised rows = exact equality.
   All statements hold for every dimension, every system (zero rows, duplicates, empty and unbounded sets) and
   every rational point x. *)
From AT Require Import Num Vec Farkas FM Equiv Cache LP PolyClean PolyCleanInst.

(* ---- remove_rows: only drops rows; never loses points; same set when the dropped rows were implied ---- *)
Theorem C15_remove_rows_subseq : forall P idx R, remove_rows P idx = Some R -> subseq R P.
Proof. exact remove_rows_subseq. Qed.
Theorem C15_remove_rows_set : forall P idx R x, remove_rows P idx = Some R ->
  (in_rows P x -> in_rows R x) /\ ((forall y, in_rows R y -> in_rows P y) -> (in_rows R x <-> in_rows P x)).
Proof. exact remove_rows_set. Qed.

(* ---- remove_zero_rows ---- *)
Theorem C15_remove_zero_rows_subseq : forall P, subseq (remove_zero_rows P) P.
Proof. exact remove_zero_rows_subseq. Qed.
Theorem C15_remove_zero_rows_set : forall P x, in_rows (remove_zero_rows P) x <-> in_rows P x.
Proof. exact remove_zero_rows_set. Qed.

(* ---- normalize: row-wise positive scaling, any positive factors ---- *)
Theorem C15_normalize_rows : forall ss P, length ss = length P ->
  normalize_with ss P = map (fun sr => scale_row (fst sr) (snd sr)) (combine ss P).
Proof. exact normalize_rows. Qed.
Theorem C15_normalize_set : forall ss P x, Forall factor_ok ss -> (in_rows (normalize_with ss P) x <-> in_rows P x).
Proof. exact normalize_set. Qed.

(* ---- remove_tautologies ---- *)
Theorem C15_remove_tautologies_set : forall n P x, in_rows (remove_tautologies n P) x <-> in_rows P x.
Proof. exact remove_tautologies_set. Qed.
(* the result is the canonical empty polytope (only for an input without points), or a subsequence of the input --
   except that an input consisting of tautologies only comes back as the canonical whole-space polytope 0 <= 1 *)
Theorem C15_remove_tautologies_shape : forall n P,
  (remove_tautologies n P = canonical_empty n /\ forall x, ~ in_rows P x) \/
  (remove_tautologies n P = canonical_unbounded n /\ all_tautologies P) \/
  (subseq (remove_tautologies n P) P /\ Forall (fun rb => is_zero_row rb = false) (remove_tautologies n P) /\
   remove_tautologies n P <> []).
Proof. exact remove_tautologies_shape. Qed.
(* the subsequence clause of the property fails on that class (pinned by /repo's tests test_remove_tautologies_all_zero
   and test_remove_tautologies_only: known finding, not repaired) *)
Theorem C15_remove_tautologies_subseq_refuted :
  exists n P, all_tautologies P /\ (forall x, in_rows P x) /\ ~ subseq (remove_tautologies n P) P.
Proof. exact taut_all_refuted. Qed.

(* ---- remove_duplicate_rows (any positive normalisation factors) ---- *)
Theorem C15_remove_duplicate_rows_subseq : forall ss P, subseq (remove_duplicate_rows_with ss P) P.
Proof. exact remove_duplicate_rows_subseq. Qed.
Theorem C15_remove_duplicate_rows_set : forall ss P x, Forall factor_ok ss ->
  (in_rows (remove_duplicate_rows_with ss P) x <-> in_rows P x).
Proof. exact remove_duplicate_rows_set. Qed.
(* rows taken for duplicates are positive multiples of each other, bias included *)
Theorem C15_duplicates_are_positive_multiples : forall s1 s2 r1 r2, 0 < s1 -> 0 < s2 ->
  scale_row (Some s1) r1 = scale_row (Some s2) r2 ->
  0 < s1 / s2 /\ fst r1 = vscale (s1 / s2) (fst r2) /\ snd r1 = (s1 / s2) * snd r2.
Proof. exact equal_normal_forms_proportional. Qed.

(* ---- remove_redundant_row_constraints ---- *)
(* for every LP oracle and every eps: rows are only dropped *)
Theorem C15_remove_redundant_subseq : forall lp eps P R, remove_redundant lp eps P = RROk R -> subseq R P.
Proof. exact remove_redundant_subseq. Qed.
(* exact oracle: same set; the canonical empty polytope only for an input without points *)
Theorem C15_remove_redundant_set : forall n lp P, lp_exact n lp ->
  match remove_redundant lp 0 P with
  | RROk R => forall x, length x = n -> (in_rows R x <-> in_rows P x)
  | RREmpty => forall x, length x = n -> ~ in_rows P x
  | RRErr => True
  end.
Proof. exact remove_redundant_set. Qed.
(* exact oracle: no remaining row is implied by the other remaining rows *)
Theorem C15_remove_redundant_irredundant : forall n lp P R, lp_exact n lp ->
  remove_redundant lp 0 P = RROk R -> irredundant n R.
Proof. exact remove_redundant_irredundant. Qed.
(* the hypothesis is satisfiable: the certified classifier of C10 is an exact oracle *)
Theorem C15_exact_oracle_exists : forall n, lp_exact n (exact_lp n).
Proof. exact exact_lp_exact. Qed.
(* D15 (repaired in /repo by the D14 commit): with the LP layer as found -- Unbounded on every program whose optimal
   face is unbounded -- x <= 2 stayed in {x <= 1, x <= 2, y <= 1}; an exact oracle removes it *)
Theorem C15_D15_lp_as_found_refuted :
  remove_redundant (lp_as_found 2) 0 d15 = RROk d15 /\ ~ irredundant 2 d15 /\
  remove_redundant (exact_lp 2) 0 d15 = RROk [([1; 0], 1); ([0; 1], 1)].
Proof. exact d15_refuted. Qed.

(* ---- certified comparisons used by the tie ---- *)
Theorem C15_rows_incl_yes : forall n P Q, rows_incl n P Q = InclYes -> forall x, length x = n -> in_rows P x -> in_rows Q x.
Proof. exact rows_incl_yes. Qed.
Theorem C15_rows_incl_no : forall n P Q x, rows_incl n P Q = InclNo x -> length x = n /\ in_rows P x /\ ~ in_rows Q x.
Proof. exact rows_incl_no. Qed.
Theorem C15_implied_by_margin : forall n R a b d, implied_by_margin n R a b d = Some true ->
  forall x, length x = n -> in_rows R x -> dot a x <= b - d.
Proof. exact implied_by_margin_true. Qed.
Theorem C15_subseqb_sound : forall l2 l1, subseqb l1 l2 = true -> subseq l1 l2.
Proof. exact subseqb_sound. Qed.

(* ---- non-vacuity ---- *)
Example C15_nonvacuous :
  remove_tautologies 2 ex_sys = [([1; 0], 1); ([1 + 1; 0], 1 + 1); ([- (1); 0], - (1)); ([1; 0], 1 + 1); ([0; 1], 0)] /\
  remove_tautologies 2 [([0; 0], - (1)); ([1; 0], 1)] = canonical_empty 2 /\
  remove_zero_rows ex_sys = [([1; 0], 1); ([0; 0], 1); ([1 + 1; 0], 1 + 1); ([- (1); 0], - (1)); ([1; 0], 1 + 1); ([0; 1], 0)] /\
  remove_rows ex_sys [1; 4; 6]%nat = Some [([1; 0], 1); ([1 + 1; 0], 1 + 1); ([- (1); 0], - (1)); ([0; 1], 0)] /\
  remove_rows ex_sys [4; 1]%nat = None /\
  remove_duplicate_rows_with [Some 1; None; Some (1 + 1); Some 1; Some 1; Some 1; None] ex_sys =
    [([1; 0], 1); ([0; 0], 1); ([- (1); 0], - (1)); ([1; 0], 1 + 1); ([0; 1], 0); ([0; 0], 0)] /\
  map (fun rb => (map this (fst rb), this (snd rb)))
      (normalize_with [Some 1; None; Some (1 + 1)] [([1; 0], 1); ([0; 0], 1); ([1 + 1; 0], 1 + 1)]) =
    [([1; 0], 1); ([0; 0], 1); ([1; 0], 1)]%Q /\
  remove_redundant (exact_lp 2) 0 ex_sys = RROk [([1; 0], 1); ([- (1); 0], - (1)); ([0; 1], 0)] /\
  remove_redundant (exact_lp 1) 0 [([1], 0); ([- (1)], - (1)); ([1], 1 + 1)] = RREmpty /\
  remove_redundant (exact_lp 1) 0 [([1], 0); ([- (1)], - (1))] = RROk [([1], 0); ([- (1)], - (1))].
Proof. exact clean_nonvacuous. Qed.

Print Assumptions C15_remove_rows_subseq.
Print Assumptions C15_remove_rows_set.
Print Assumptions C15_remove_zero_rows_subseq.
Print Assumptions C15_remove_zero_rows_set.
Print Assumptions C15_normalize_rows.
Print Assumptions C15_normalize_set.
Print Assumptions C15_remove_tautologies_set.
Print Assumptions C15_remove_tautologies_shape.
Print Assumptions C15_remove_tautologies_subseq_refuted.
Print Assumptions C15_remove_duplicate_rows_subseq.
Print Assumptions C15_remove_duplicate_rows_set.
Print Assumptions C15_duplicates_are_positive_multiples.
Print Assumptions C15_remove_redundant_subseq.
Print Assumptions C15_remove_redundant_set.
Print Assumptions C15_remove_redundant_irredundant.
Print Assumptions C15_exact_oracle_exists.
Print Assumptions C15_D15_lp_as_found_refuted.
Print Assumptions C15_rows_incl_yes.
Print Assumptions C15_rows_incl_no.
Print Assumptions C15_implied_by_margin.
Print Assumptions C15_subseqb_sound.
Print Assumptions C15_nonvacuous.

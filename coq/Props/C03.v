(* Props/C03.v -- C03: pruning never changes the represented (partial) function.  Property theorems only.
   Models: Pwl/Elim.v (infeasible_elimination as coded, after the D11 repair), Pwl/CPrune.v (generic composition
   with pruning: compose::<true> and the tree operators), both parametric in the LP / mirror oracles.
   For a fixed input x the hypotheses are exactly what the property grants:
     osound o x      : no Infeasible answer is given for a query polytope that contains x
     marks_* x ..    : no cached Infeasible mark sits on a node whose closed path polytope contains x
   Nothing is assumed about Error / Unbounded / Optimal answers or about the mirror heuristic.  For an oracle that
   is sound only up to thin regions the conclusions hold for every x outside the polytopes it declared infeasible. *)
From AT Require Import Num Vec Aff PTree Cells Abs Cache Elim ElimEval ElimCache ElimEff CPrune CPruneEval Ops ElimExample SkipOnlyIf Farkas FM Equiv EquivThin.

(* infeasible_elimination: defined exactly where it was defined, with the same value *)
Theorem C03_elim_preserves : forall o tol t x, osound o x -> marks_kids x [] t ->
  cev (fst (elim o tol t)) x = cev t x.
Proof. exact elim_cev. Qed.
(* the general form, at any node with its path polytope (what the induction carries) *)
Theorem C03_elim_sub_preserves : forall o tol x, osound o x ->
  forall t isroot q st k, marks_kids x q t -> in_rows q x ->
  cev (fst (elim_sub o tol isroot q st t k)) x = cev t x.
Proof. exact elim_sub_cev. Qed.
(* cev (evaluation on the arena-shaped tree) is evaluation of the inductive tree the runner compares *)
Theorem C03_cev_is_eval : forall t x, cbin t -> cev t x = eval (erase t) x.
Proof. exact cev_erase. Qed.

(* composition with pruning = composition without pruning *)
Theorem C03_compose_prune : forall o tol t L x, osound o x -> bin2 L -> cbin t -> terms_ok comp_schema t ->
  marks_ok x [] t -> cev (fst (compose_prune o tol t L)) x = eval (compose (erase t) L) x.
Proof. exact compose_prune_eval. Qed.
(* the tree operators (which prune on the fly) = the point-wise lifting *)
Theorem C03_ops_prune : forall o tol fo t L x, osound o x -> bin2 L -> cbin t -> marks_ok x [] t ->
  cev (fst (cprune o tol (op_schema fo) L t [] k0)) x = eval (top fo (erase t) L) x.
Proof. exact top_prune_eval. Qed.
(* any schema that keeps decisions one-row, at any node *)
Theorem C03_generic_prune : forall o tol s L x, osound o x -> bin2 L ->
  forall t q k, cbin t -> terms_ok s t -> marks_ok x q t -> in_rows q x ->
  cev (fst (cprune o tol s L t q k)) x = eval (lift s (erase t) L) x.
Proof. exact cprune_cev. Qed.

(* only paths that no input can take disappear: an Infeasible verdict is only ever derived from an Infeasible
   answer of the oracle for the node's closed path polytope (or was cached) *)
Theorem C03_infeasible_only_from_oracle : forall o tol stP q h c k s k' fr sk x,
  visit o tol stP q h c k = (s, k', fr, sk) -> osound o x -> (c_state c = Infeas -> ~ in_rows q x) ->
  is_infeas s = true -> ~ in_rows q x.
Proof. exact visit_infeas. Qed.
Theorem C03_edge_dropped_only_if_infeasible : forall o tol top st q ql k k' x,
  explore o tol top st ql k = (false, k') -> osound o x -> (st = Infeas -> ~ in_rows q x) -> in_rows q x ->
  ~ in_rows ql x.
Proof. exact explore_false. Qed.

(* a decision is skipped only when its other branch is a path no input can take: if the node that ends up in the
   place of decision i is not decision i (it was replaced by one of its branches), one of the two closed branch
   regions excludes x -- for every x the oracle's Infeasible answers and the cached marks treat soundly *)
Theorem C03_skip_only_if_elim : forall o tol x i p s' c0 c1 q st k, osound o x ->
  marks_kids x q (CN i false p s' c0 c1) -> in_rows q x ->
  c_idx (fst (elim_sub o tol false q st (CN i false p s' c0 c1) k)) <> Some i ->
  ~ in_rows (q ++ [row0 p]) x \/ ~ in_rows (q ++ [row1 p]) x.
Proof. exact elim_skip_only_if. Qed.
Theorem C03_skip_only_if_compose : forall o tol s tf x p l0 l1 top st i q k, osound o x ->
  (st = Infeas -> ~ in_rows q x) -> in_rows q x ->
  ~ is_dec_at i (s_dec s p tf) (fst (graftp o tol s tf (D p [l0; l1]) top st i q k)) ->
  ~ in_rows (q ++ [row0 (s_dec s p tf)]) x \/ ~ in_rows (q ++ [row1 (s_dec s p tf)]) x.
Proof. exact graftp_skip_only_if. Qed.

(* the deciding comparison the runner makes on the implementation's trees is itself verified: a verdict Equal means the
   tree after agrees with the tree before at EVERY input that lies in no certified-thin cell of the tree before (thin =
   nothing survives tightening each row by tau * |row|_1); differences inside one thin cell cannot hide others *)
Theorem C03_comparison_sound : forall n tau t_ref t, tree_equiv_skip (thin_skip n tau) n [] t_ref t = Equal ->
  forall x, length x = n ->
    (forall c, thin n tau (closed_rows c) -> ~ in_rows (closed_rows c) x) -> eval t_ref x = eval t x.
Proof. exact tree_equiv_mod_thin_sound. Qed.

(* non-vacuity: a concrete tree and oracle meeting every hypothesis for every x, on which elimination removes an
   infeasible terminal and replaces a decision by its remaining branch *)
Example C03_nonvacuous :
  (forall x, osound ex_o x /\ marks_kids x [] ex_t) /\
  elim ex_o 0 ex_t = (ex_r, {| k_lp := 4; k_mir := 0 |}) /\
  (forall x, cev ex_r x = cev ex_t x).
Proof. exact ex_c03. Qed.

Print Assumptions C03_elim_preserves.
Print Assumptions C03_elim_sub_preserves.
Print Assumptions C03_cev_is_eval.
Print Assumptions C03_compose_prune.
Print Assumptions C03_ops_prune.
Print Assumptions C03_generic_prune.
Print Assumptions C03_infeasible_only_from_oracle.
Print Assumptions C03_edge_dropped_only_if_infeasible.
Print Assumptions C03_skip_only_if_elim.
Print Assumptions C03_skip_only_if_compose.
Print Assumptions C03_comparison_sound.
Print Assumptions C03_nonvacuous.

(* ---- "arbitrary cached feasibility states from earlier operations": for every tree that a history of library
   operations produces from a constructed tree, the hypothesis [marks_kids] of C03_elim_preserves holds
   (C05_history), so one more elimination leaves the value at x unchanged ---- *)
From AT Require Import Ops Reduce Schema WfC OpsWf ElimWf CPruneWf History CacheHistory CacheHistoryRun.
Theorem C03_after_any_history : forall tol x ops n m init t o,
  cwft n m init -> compat_hist (n, m) ops = true -> fresh init ->
  (forall ox, In ox ops -> osound (fst ox) x /\ mir_sound (fst ox) tol) ->
  run tol init ops = HOk t -> osound o x ->
  cev (fst (elim o tol t)) x = cev t x.
Proof. exact history_then_elim. Qed.
Print Assumptions C03_after_any_history.

(* ---- histories, at the level of the terminal reached.  sem_hist: the mathematical meaning of the operations applied
   to the affine function x is led to (composition grafts the argument, the operators combine coefficient-wise,
   elimination and reduce are the identity).  Every history of library operations -- with or without pruning, with
   any oracles that are sound for x -- leads x to exactly that function; hence pruning and oracle answers are
   immaterial for the represented function ("or would be without pruning"), also for the coefficient-wise
   operators whose result depends on the terminal function itself, not only on its value at x ---- *)
From AT Require Import TermLevel TermHistory.
Theorem C03_history_terminal : forall tol x ops n m init t,
  cwft n m init -> compat_hist (n, m) ops = true ->
  (forall ox, In ox ops -> osound (fst ox) x /\ mir_sound (fst ox) tol) ->
  hinv x tol init -> run tol init ops = HOk t ->
  cterm t x = sem_hist ops x (cterm init x).
Proof. exact history_term. Qed.
Theorem C03_history_value : forall tol x ops n m init t,
  cwft n m init -> compat_hist (n, m) ops = true ->
  (forall ox, In ox ops -> osound (fst ox) x /\ mir_sound (fst ox) tol) ->
  hinv x tol init -> run tol init ops = HOk t ->
  cev t x = option_map (fun f => apply f x) (sem_hist ops x (cterm init x)).
Proof. exact history_value. Qed.
Theorem C03_pruning_immaterial : forall tol x ops1 ops2 n m init t1 t2,
  map (fun ox => forget (snd ox)) ops1 = map (fun ox => forget (snd ox)) ops2 ->
  cwft n m init -> compat_hist (n, m) ops1 = true -> compat_hist (n, m) ops2 = true ->
  (forall ox, In ox ops1 -> osound (fst ox) x /\ mir_sound (fst ox) tol) ->
  (forall ox, In ox ops2 -> osound (fst ox) x /\ mir_sound (fst ox) tol) ->
  hinv x tol init -> run tol init ops1 = HOk t1 -> run tol init ops2 = HOk t2 ->
  cterm t1 x = cterm t2 x /\ cev t1 x = cev t2 x.
Proof. exact history_pruning_immaterial. Qed.
(* one step, terminal level: elimination and the pruning compositions/operators *)
Theorem C03_elim_terminal : forall o tol t x, osound o x -> marks_kids x [] t -> cterm (fst (elim o tol t)) x = cterm t x.
Proof. exact elim_cterm. Qed.
Theorem C03_prune_terminal : forall o tol s L x, osound o x -> bin2 L ->
  forall t q k, cbin t -> terms_ok s t -> marks_ok x q t -> in_rows q x ->
  cterm (fst (cprune o tol s L t q k)) x = term (lift s (erase t) L) x.
Proof. exact cprune_cterm. Qed.
Example C03_history_nonvacuous :
  exists t1 t2, run 0 ex_t th_ops1 = HOk t1 /\ run 0 ex_t th_ops2 = HOk t2 /\ (csize t1 < csize t2)%nat /\
  forall x, cterm t1 x = cterm t2 x /\ cev t1 x = cev t2 x.
Proof. exact th_example. Qed.
Print Assumptions C03_history_terminal.
Print Assumptions C03_history_value.
Print Assumptions C03_pruning_immaterial.
Print Assumptions C03_elim_terminal.
Print Assumptions C03_prune_terminal.
Print Assumptions C03_history_nonvacuous.

(* x-acprune begin ------------------------------------------------------------------------------------------------
   The pruned composition at the level of the slab arena.  Pwl/ACPrune.v is an executable machine over the arena of
   AffContent cells for generic_composition_inplace with C::explore = is_edge_feasible: explicit LIFO stack and fuel,
   add_child_node (allocator oracle), is_edge_feasible reading the arena through the parent pointers (path_to_node),
   remove_child, merge_child_with_parent; every unwrap / assert is the outcome None.  The structural recursions of
   Pwl/CPrune.v (graftp / cprune / compose_prune), about which the theorems above speak, are what this machine computes.
   (names qualified: several modules imported above define cwf / cidx / cheight of their own) *)
From AT Require ArenaCompose ArenaComposeAbs ACPrune ACPruneOps ACPruneRefine ACPruneAll ACPruneCor ACPruneMono.

(* is_edge_feasible computed from the arena = explore on the rows of the spine (the cells the parent pointers lead
   through, root first) followed by the row of the new edge *)
Theorem C03_arena_is_edge_feasible_is_explore : forall o tol pf a z p node v st chs dir nv nchs nlf k,
  ACPruneOps.zrep a z p -> (length z < pf)%nat ->
  aget a p = Some (mkcell (ArenaCompose.mkcont v st) (ACPruneOps.zpar z) chs false) ->
  aget a node = Some (mkcell (ArenaCompose.mkcont nv Indet) (Some p) nchs nlf) ->
  Tree.find_label chs node = Some (ACPruneOps.zlab dir) ->
  ACPrune.is_edge_feasible o tol pf a p node k =
  Some (explore o tol (Nat.eqb p 0) st (ACPruneOps.zrows z ++ [if dir then row1 v else row0 v]) k).
Proof. exact ACPruneOps.is_edge_feasible_explore. Qed.

(* one terminal i of the receiver (function tf, cached state st, spine z), counter threaded: for every allocator that
   hands out unoccupied keys and every oracle the loop body terminates for any fuel above size L, with the counters of
   graftp, and leaves in the place of i a tree T' of the shape graftp computes (node_post: what else changed -- nothing
   but the child slot of i's parent --, T' is in the arena with consistent parent pointers, its indices are i or were
   unoccupied, no index twice) *)
Theorem C03_arena_compose_prune_one_terminal_counter_threaded : forall alloc o tol pf s L a z i tf st k,
  ArenaCompose.fresh_alloc alloc -> ArenaComposeAbs.karity 2 L -> L <> U ->
  aget a i = Some (ACPruneOps.leafcell tf st (ACPruneOps.zpar z)) -> ACPruneOps.zrep a z i ->
  (length z + ACPruneRefine.pdepth L < pf)%nat -> (z = [] -> i = 0%nat) -> aget a 0%nat <> None ->
  (forall j, ACPruneRefine.zsib z = Some j -> aget a j <> None) ->
  exists a' T',
    (forall fuel, (size L < fuel)%nat ->
       ACPrune.acp_at alloc o tol pf 2 0 s fuel L a i k =
       Some (a', snd (graftp o tol s tf L (Nat.eqb i 0) st i (ACPruneOps.zrows z) k))) /\
    ACPruneRefine.cshape T' (fst (graftp o tol s tf L (Nat.eqb i 0) st i (ACPruneOps.zrows z) k)) /\
    ACPruneRefine.node_post a z i a' T'.
Proof. exact ACPruneRefine.acp_at_refines. Qed.

(* AffTree::compose::<true, _> on the arena, terminals in the code's order (ascending arena index), LP oracle that
   ignores the call number: for every arena a that abstracts to t (cabs; root at index 0, parent pointers and arity
   as AffTree<2> keeps them, no index twice, terminals without children, no terminal cell outside the tree) the machine
   returns Ok for any fuel above size L and path fuel above depth t + depth L, with the counters of compose_prune; the
   arena it returns abstracts to a tree t' of the shape (cshape: everything but arena indices) of compose_prune's
   result; the decisions of t keep index, value and cached state (cframe); every index of t' is an index of t or was
   unoccupied in a *)
Theorem C03_arena_compose_prune_refines_index_free_oracle : forall alloc o tol pf L a t fa,
  ArenaCompose.fresh_alloc alloc -> ACPruneAll.lp_index_free o -> ArenaComposeAbs.karity 2 L -> L <> U ->
  cabs fa a 0%nat = Some t -> ACPruneAll.cparents a None t -> NoDup (ACPruneRefine.cidx t) -> ACPruneAll.cwf t ->
  (forall j, In j (ArenaCompose.terminal_keys a) <-> In j (ACPruneAll.cleaves t)) ->
  (ACPruneAll.cdepth t + ACPruneRefine.pdepth L < pf)%nat ->
  exists a' t',
    (forall fuel, (size L < fuel)%nat ->
       ACPrune.acompose_prune alloc o tol pf 0 fuel L a = Some (a', snd (compose_prune o tol t L))) /\
    (forall F, (ACPruneAll.cheight t' <= F)%nat -> cabs F a' 0%nat = Some t') /\
    ACPruneAll.cparents a' None t' /\ NoDup (ACPruneRefine.cidx t') /\
    ACPruneRefine.cshape t' (fst (compose_prune o tol t L)) /\ ACPruneAll.cframe t t' /\
    (forall k, In k (ACPruneRefine.cidx t') -> In k (ACPruneRefine.cidx t) \/ aget a k = None).
Proof. exact ACPruneAll.acompose_prune_refines_index_free_oracle. Qed.
(* the same with ONE result for all fuels above the bounds (surplus fuel of either kind is immaterial) *)
Theorem C03_arena_compose_prune_refines : forall alloc o tol L a t fa,
  ArenaCompose.fresh_alloc alloc -> ACPruneAll.lp_index_free o -> ArenaComposeAbs.karity 2 L -> L <> U ->
  cabs fa a 0%nat = Some t -> ACPruneAll.cparents a None t -> NoDup (ACPruneRefine.cidx t) -> ACPruneAll.cwf t ->
  (forall j, In j (ArenaCompose.terminal_keys a) <-> In j (ACPruneAll.cleaves t)) ->
  exists a' t',
    (forall pf fuel, (ACPruneAll.cdepth t + ACPruneRefine.pdepth L < pf)%nat -> (size L < fuel)%nat ->
       ACPrune.acompose_prune alloc o tol pf 0 fuel L a = Some (a', snd (compose_prune o tol t L))) /\
    (forall F, (ACPruneAll.cheight t' <= F)%nat -> cabs F a' 0%nat = Some t') /\
    ACPruneAll.cparents a' None t' /\ NoDup (ACPruneRefine.cidx t') /\
    ACPruneRefine.cshape t' (fst (compose_prune o tol t L)) /\ ACPruneAll.cframe t t' /\
    (forall k, In k (ACPruneRefine.cidx t') -> In k (ACPruneRefine.cidx t) \/ aget a k = None).
Proof. exact ACPruneMono.acompose_prune_refines_any_fuel. Qed.

(* with C03_compose_prune: the tree held by the arena the machine returns evaluates as the composed function, at every x
   the oracle's Infeasible answers and the cached marks treat soundly *)
Theorem C03_arena_compose_prune_preserves : forall alloc o tol pf L a t fa x,
  ArenaCompose.fresh_alloc alloc -> ACPruneAll.lp_index_free o -> ArenaComposeAbs.karity 2 L -> L <> U ->
  cabs fa a 0%nat = Some t -> ACPruneAll.cparents a None t -> NoDup (ACPruneRefine.cidx t) -> ACPruneAll.cwf t ->
  (forall j, In j (ArenaCompose.terminal_keys a) <-> In j (ACPruneAll.cleaves t)) ->
  (ACPruneAll.cdepth t + ACPruneRefine.pdepth L < pf)%nat ->
  osound o x -> bin2 L -> cbin t -> terms_ok comp_schema t -> marks_ok x [] t ->
  exists a' t' k',
    (forall fuel, (size L < fuel)%nat -> ACPrune.acompose_prune alloc o tol pf 0 fuel L a = Some (a', k')) /\
    (forall F, (ACPruneAll.cheight t' <= F)%nat -> cabs F a' 0%nat = Some t') /\
    cev t' x = eval (compose (erase t) L) x.
Proof. exact ACPruneCor.acompose_prune_cev. Qed.

(* the replay oracle of the runner ignores the call number; cshape is what the runner's comparison decides *)
Theorem C03_replay_oracle_index_free : forall log, ACPruneAll.lp_index_free (oracle_by_rows log).
Proof. exact ACPruneAll.oracle_by_rows_index_free. Qed.
Theorem C03_cshape_is_eqb_shape : forall x y, ACPruneRefine.cshape x y -> ctree_eqb_shape x y = true.
Proof. exact ACPruneCor.cshape_eqb. Qed.

(* non-vacuity: an arena, an lhs, the append allocator and a query-keyed oracle that meet every assumption; the run
   makes 6 LP calls, merges one grafted decision away (the terminal at index 3 disappears) and agrees with compose_prune *)
Example C03_arena_compose_prune_nonvacuous :
  cabs 5 ACPrune.exp_arena 0%nat = Some ACPruneCor.acx_t /\
  ACPruneAll.cparents ACPrune.exp_arena None ACPruneCor.acx_t /\
  NoDup (ACPruneRefine.cidx ACPruneCor.acx_t) /\ ACPruneAll.cwf ACPruneCor.acx_t /\
  (forall j, In j (ArenaCompose.terminal_keys ACPrune.exp_arena) <-> In j (ACPruneAll.cleaves ACPruneCor.acx_t)) /\
  ArenaCompose.fresh_alloc ArenaCompose.next_key /\ ACPruneAll.lp_index_free ACPruneCor.acx_oracle /\
  ArenaComposeAbs.karity 2 ACPrune.exp_L /\
  exists a' k',
    ACPrune.acompose_prune ArenaCompose.next_key ACPruneCor.acx_oracle 0 4 0 4 ACPrune.exp_L ACPrune.exp_arena = Some (a', k') /\
    k' = snd (compose_prune ACPruneCor.acx_oracle 0 ACPruneCor.acx_t ACPrune.exp_L) /\ k_lp k' = 6%nat /\
    option_map (fun t' => ctree_eqb_shape t' (fst (compose_prune ACPruneCor.acx_oracle 0 ACPruneCor.acx_t ACPrune.exp_L)))
               (cabs 6 a' 0%nat) = Some true /\
    aget a' 3%nat = None.
Proof. exact ACPruneCor.acx_run. Qed.
Print Assumptions C03_arena_is_edge_feasible_is_explore.
Print Assumptions C03_arena_compose_prune_one_terminal_counter_threaded.
Print Assumptions C03_arena_compose_prune_refines_index_free_oracle.
Print Assumptions C03_arena_compose_prune_refines.
Print Assumptions C03_arena_compose_prune_preserves.
Print Assumptions C03_replay_oracle_index_free.
Print Assumptions C03_cshape_is_eqb_shape.
Print Assumptions C03_arena_compose_prune_nonvacuous.
(* x-acprune end -------------------------------------------------------------------------------------------------- *)

(* x-aelim begin --------------------------------------------------------------------------------------------------
   infeasible_elimination at the level of the slab arena.  Pwl/AElim.v models the code as the imperative machine it is:
   DfsPre (explicit stack, last_push, skip_subtree), PolyhedraGen (the predicates stack kept in step through last_depth,
   the edge row read from the node's current parent pointer), the deferred to_remove queue, forward_if_redundant
   (remove_child + merge_child_with_parent in the middle of the traversal, Err at the root discarded), the final loop
   that never removes a last remaining child; None = a panic path (unwrap / expect / assert!) or fuel exhausted.
   The machine computes the structural recursion `elim` all the theorems above are about -- for every oracle:
     arena_tree a r t : the arena holds t at root r (mirrored parent/child links, two child slots per node, terminals
                        without children, no index twice); decidable: AElimRefine.arena_okb
     wne t, mir_ne o  : no FeasibleWitness state with an empty list, no mirror answer Some [] (what keeps
                        assert!(!solution.is_empty()) of phase_inh quiet)
   Conclusion: no panic, at most csize t + 1 iterations (the fuel length a + 1 of aelim suffices), the same LP / mirror
   call counts, the returned arena holds fst (elim o tol t) with surviving nodes under their old indices, every cell
   outside the old tree is untouched, and every index of the old tree that is not in the result is vacant. *)
From AT Require AElim AElimBase AElimRefine AElimExample.
Theorem C03_arena_elim_refines : forall o tol a r t,
  AElimBase.mir_ne o -> AElimBase.arena_tree a r t -> AElimBase.wne t ->
  exists a', AElim.aelim o tol a r = Some (a', snd (elim o tol t)) /\
             AElimBase.arena_tree a' r (fst (elim o tol t)) /\
             (forall j, ~ In j (AElimBase.idxs t) -> aget a' j = aget a j) /\
             (forall j, In j (AElimBase.idxs t) -> ~ In j (AElimBase.idxs (fst (elim o tol t))) -> aget a' j = None).
Proof. exact AElimRefine.aelim_refines. Qed.
(* the same through the abstraction function cabs of Pwl/Elim.v and the executable link check *)
Theorem C03_arena_elim_refines_cabs : forall o tol a r fuel t, AElimBase.mir_ne o ->
  cabs fuel a r = Some t -> AElimRefine.linksb fuel a None r = true -> NoDup (AElimBase.idxs t) -> AElimBase.wne t ->
  exists a' fuel', AElim.aelim o tol a r = Some (a', snd (elim o tol t)) /\ cabs fuel' a' r = Some (fst (elim o tol t)).
Proof. exact AElimRefine.aelim_refines_cabs. Qed.
(* the main loop alone, with the iteration bound and independence of surplus fuel; then the final removal loop *)
Theorem C03_arena_elim_run : forall o tol a r t, AElimBase.mir_ne o -> AElimBase.arena_tree a r t -> AElimBase.wne t ->
  exists c a',
    (forall f, (AElimBase.csize t < f)%nat -> AElim.ae_loop f o tol r (AElim.ae_init a r) = Some c) /\
    AElim.m_k c = snd (elim o tol t) /\
    AElim.ae_final (AElim.m_rem c) (AElim.m_ar c) = Some a' /\
    AElimBase.arena_tree a' r (fst (elim o tol t)) /\
    (forall j, ~ In j (AElimBase.idxs t) -> aget a' j = aget a j) /\
    (forall j, In j (AElimBase.idxs t) -> ~ In j (AElimBase.idxs (fst (elim o tol t))) -> aget a' j = None).
Proof. exact AElimRefine.aelim_run. Qed.
(* with C03_elim_preserves: the function represented by the arena the machine returns *)
Theorem C03_arena_elim_preserves : forall o tol a r t x,
  AElimBase.mir_ne o -> AElimBase.arena_tree a r t -> AElimBase.wne t -> osound o x -> marks_kids x [] t ->
  exists a' k' fuel' t', AElim.aelim o tol a r = Some (a', k') /\ cabs fuel' a' r = Some t' /\ cev t' x = cev t x.
Proof. exact AElimRefine.aelim_preserves. Qed.
(* the decidable form of the assumptions on the arena *)
Theorem C03_arena_ok_sound : forall a r, AElimRefine.arena_okb a r = true ->
  exists t, cabs (S (length a)) a r = Some t /\ AElimBase.arena_tree a r t /\ AElimBase.wne t.
Proof. exact AElimRefine.arena_okb_sound. Qed.
(* non-vacuity: the tree of C03_nonvacuous in a slab arena; the run removes terminal 4, merges decision 2 away *)
Example C03_arena_elim_nonvacuous :
  AElimRefine.arena_okb AElimExample.exa_arena 0 = true /\ cabs 6 AElimExample.exa_arena 0 = Some ex_t /\
  AElimBase.arena_tree AElimExample.exa_arena 0 ex_t /\ AElimBase.wne ex_t /\ AElimBase.mir_ne ex_o /\
  AElim.aelim ex_o 0 AElimExample.exa_arena 0 = Some (AElimExample.exa_after, {| k_lp := 4; k_mir := 0 |}) /\
  elim ex_o 0 ex_t = (ex_r, {| k_lp := 4; k_mir := 0 |}) /\
  cabs 2 AElimExample.exa_after 0 = Some ex_r.
Proof. exact AElimExample.exa_run. Qed.
Print Assumptions C03_arena_elim_refines.
Print Assumptions C03_arena_elim_refines_cabs.
Print Assumptions C03_arena_elim_run.
Print Assumptions C03_arena_elim_preserves.
Print Assumptions C03_arena_ok_sound.
Print Assumptions C03_arena_elim_nonvacuous.
(* x-aelim end ---------------------------------------------------------------------------------------------------- *)

(* x-kprune begin -------------------------------------------------------------------------------------------------
   the pruned generic composition for EVERY branching factor K (Pwl/KPrune.v: the loop of impl_composition.rs:275-327
   over the existing child slots of an lhs node in ascending label order, is_edge_feasible = CPrune.explore on the path
   rows ++ EdgeRegion.label_rows p' label -- one half-space per row of the predicate, as pwl::iter::halfspaces_of_label
   since the repair of D20 --, keep_last over EXISTING edges, forwarding iff created == 1 && created + skipped == K,
   LIFO descent).  ktree = arena-shaped tree with a list of child slots; kev / kterm route by `decide` as
   AffTree::evaluate does; kerase forgets indices and states.
     kary K L      : every decision of lhs has K child slots and a predicate with r rows, 2^r <= K
     kok s t       : decisions of the receiver have one bias entry per row; its terminal functions keep the row count of
                     a decision under the schema (function composition: keeps_nrows_comp; operators: always)
     kmarks x q t  : no cached Infeasible mark on a node whose closed path polytope contains x
   An empty slot of lhs is never bridged by forwarding (seeded change C07-r3-2): it stays an empty slot of the result. *)
From AT Require EdgeRegion KPrune KPruneEval KPruneBin KPruneExample.
(* value and definedness, any schema that keeps row counts, at any node of the receiver *)
Theorem C03_kprune_preserves : forall o tol s K L x, osound o x -> KPruneEval.kary K L ->
  forall t q k, KPruneEval.kok s t -> KPruneEval.kmarks x q t -> in_rows q x ->
  KPrune.kev (fst (KPrune.kprune o tol s K L t q k)) x = eval (lift s (KPrune.kerase t) L) x.
Proof. exact KPruneEval.kprune_kev. Qed.
(* the terminal function x is led to (what the coefficient-wise operators depend on) *)
Theorem C03_kprune_terminal : forall o tol s K L x, osound o x -> KPruneEval.kary K L ->
  forall t q k, KPruneEval.kok s t -> KPruneEval.kmarks x q t -> in_rows q x ->
  KPrune.kterm (fst (KPrune.kprune o tol s K L t q k)) x = term (lift s (KPrune.kerase t) L) x.
Proof. exact KPruneEval.kprune_kterm. Qed.
(* compose::<true, _> and tree (op) tree for any K *)
Theorem C03_kcompose_prune : forall o tol K t L x, osound o x -> KPruneEval.kary K L ->
  KPruneEval.kok comp_schema t -> KPruneEval.kmarks x [] t ->
  KPrune.kev (fst (KPrune.kcompose_prune o tol K t L)) x = eval (compose (KPrune.kerase t) L) x.
Proof. exact KPruneEval.kcompose_prune_kev. Qed.
Theorem C03_kops_prune : forall o tol K fo t L x, osound o x -> KPruneEval.kary K L -> KPruneEval.kdecs t ->
  KPruneEval.kmarks x [] t ->
  KPrune.kev (fst (KPrune.kprune o tol (op_schema fo) K L t [] k0)) x = eval (top fo (KPrune.kerase t) L) x.
Proof. exact KPruneEval.ktop_prune_kev. Qed.
(* kev / kterm are evaluation / find_terminal of the inductive tree the runner compares *)
Theorem C03_kev_is_eval : forall t x, KPrune.kev t x = eval (KPrune.kerase t) x.
Proof. exact KPruneEval.kev_kerase. Qed.
(* function composition keeps the number of rows of every decision *)
Theorem C03_kprune_comp_keeps_rows : forall tf, length (a_bias tf) = length (a_mat tf) -> KPruneEval.keeps_nrows comp_schema tf.
Proof. exact KPruneEval.keeps_nrows_comp. Qed.
(* K = 2: the K-ary model on the embedding of a binary tree IS the binary model CPrune.v, result and oracle-call counter *)
Theorem C03_kprune_binary_is_cprune : forall o tol s L, bin2 L -> forall t q k, cbin t -> terms_ok s t ->
  KPrune.kprune o tol s 2 L (KPrune.kemb t) q k = (KPrune.kemb (fst (cprune o tol s L t q k)), snd (cprune o tol s L t q k)).
Proof. exact KPruneBin.kprune_binary. Qed.
Theorem C03_kgraft_binary_is_graftp : forall o tol s tf, keeps_rows s tf -> forall L, bin2 L -> forall top st i q k,
  KPrune.kgraft o tol s 2 tf L top st i q k =
  (KPrune.kemb (fst (graftp o tol s tf L top st i q k)), snd (graftp o tol s tf L top st i q k)).
Proof. exact KPruneBin.kgraft_binary. Qed.
Theorem C03_kemb_erase : forall t, KPrune.kerase (KPrune.kemb t) = erase t.
Proof. exact KPruneBin.kerase_kemb. Qed.
(* non-vacuity, K = 4 (two-row predicate y <= 1, -y <= 1 below the receiver x <= -2 ? id : id; exact certified oracle):
   below the terminal x <= -2 three of the four edges are infeasible and the decision is FORWARDED, below the other one
   the empty edge 0 is PRUNED; with the slot of label 3 empty in lhs the decision below x <= -2 keeps its single child
   and the empty slot (nothing is forwarded over an empty slot); the theorem's hypotheses hold for every x in R^1 *)
Example C03_kprune_nonvacuous :
  (forall x, length x = 1%nat -> osound (KPruneExample.kx_oracle 1) x) /\
  KPruneEval.kary 4 KPruneExample.kx_L /\ KPruneEval.kary 4 KPruneExample.kx_Lp /\
  KPruneEval.kok comp_schema KPruneExample.kx_t /\ (forall x, KPruneEval.kmarks x [] KPruneExample.kx_t) /\
  KPrune.ktree_eqb_shape (fst (KPrune.kcompose_prune (KPruneExample.kx_oracle 1) 0 4 KPruneExample.kx_t KPruneExample.kx_L))
                         KPruneExample.kx_r = true /\
  KPrune.ktree_eqb_shape (fst (KPrune.kcompose_prune (KPruneExample.kx_oracle 1) 0 4 KPruneExample.kx_t KPruneExample.kx_Lp))
                         KPruneExample.kx_rp = true /\
  (forall x, length x = 1%nat ->
     KPrune.kev (fst (KPrune.kcompose_prune (KPruneExample.kx_oracle 1) 0 4 KPruneExample.kx_t KPruneExample.kx_L)) x
       = eval (compose (KPrune.kerase KPruneExample.kx_t) KPruneExample.kx_L) x /\
     KPrune.kev (fst (KPrune.kcompose_prune (KPruneExample.kx_oracle 1) 0 4 KPruneExample.kx_t KPruneExample.kx_Lp)) x
       = eval (compose (KPrune.kerase KPruneExample.kx_t) KPruneExample.kx_Lp) x).
Proof. exact KPruneExample.kx_c03. Qed.
Print Assumptions C03_kprune_preserves.
Print Assumptions C03_kprune_terminal.
Print Assumptions C03_kcompose_prune.
Print Assumptions C03_kops_prune.
Print Assumptions C03_kev_is_eval.
Print Assumptions C03_kprune_comp_keeps_rows.
Print Assumptions C03_kprune_binary_is_cprune.
Print Assumptions C03_kgraft_binary_is_graftp.
Print Assumptions C03_kemb_erase.
Print Assumptions C03_kprune_nonvacuous.
(* x-kprune end --------------------------------------------------------------------------------------------------- *)

(* x-kelim begin --------------------------------------------------------------------------------------------------
   infeasible_elimination for EVERY branching factor K (Pwl/KElim.v: kelim_sub / kelim on KPrune.ktree, following
   pwl/impl_infeasible_elim.rs:237-320 in the order of its oracle calls: DFS pre-order with the children in ascending
   label order, the root never classified, a cached Infeasible child skipped with its subtree, a cached Feasible child
   neither reclassified nor followed by a forward attempt, phase_inh on the rows of the LAST edge = EdgeRegion.label_rows
   -- one half-space per row --, phase_one / phase_two on the whole path polytope, forward_if_redundant after a freshly
   classified last sibling iff exactly one child is feasible and K - 1 children are Infeasible -- so all K slots are
   occupied --, the moved child traversed with the old path rows, no merge at the root, the deferred removal that never
   removes a last remaining child).
     KElimEval.kshape K t       : a decision of t has K child slots and a predicate with r rows, 2^r <= K
     KElimEval.kmarks_kids x q t: no node below t's root carries an Infeasible mark although x lies in its path polytope *)
From AT Require KElim KElimBin KElimEval KElimExample.
(* value and definedness *)
Theorem C03_kelim_preserves : forall o tol K t x, osound o x -> KElimEval.kshape K t -> KElimEval.kmarks_kids x [] t ->
  KPrune.kev (fst (KElim.kelim o tol K t)) x = KPrune.kev t x.
Proof. exact KElimEval.kelim_kev. Qed.
(* the terminal function x is led to *)
Theorem C03_kelim_terminal : forall o tol K t x, osound o x -> KElimEval.kshape K t -> KElimEval.kmarks_kids x [] t ->
  KPrune.kterm (fst (KElim.kelim o tol K t)) x = KPrune.kterm t x.
Proof. exact KElimEval.kelim_kterm. Qed.
(* the general form, at any node with its path polytope (what the induction carries) *)
Theorem C03_kelim_sub_terminal : forall o tol K x, osound o x ->
  forall t, KElimEval.kshape K t -> forall isroot q st k, KElimEval.kmarks_kids x q t -> in_rows q x ->
  KPrune.kterm (fst (KElim.kelim_sub o tol K isroot q st t k)) x = KPrune.kterm t x.
Proof. exact KElimEval.kelim_sub_kterm. Qed.
(* in terms of the inductive tree the runner compares (tag kelim-preserves) *)
Theorem C03_kelim_eval : forall o tol K t x, osound o x -> KElimEval.kshape K t -> KElimEval.kmarks_kids x [] t ->
  eval (KPrune.kerase (fst (KElim.kelim o tol K t))) x = eval (KPrune.kerase t) x.
Proof. exact KElimEval.kelim_eval. Qed.
(* a stored node stays a stored node; its state is the one it was given or a feasible one *)
Theorem C03_kelim_sub_shape : forall o tol K t isroot q st k, KElim.k_exists t = true ->
  KElim.k_exists (fst (KElim.kelim_sub o tol K isroot q st t k)) = true /\
  (KElim.k_state (fst (KElim.kelim_sub o tol K isroot q st t k)) = st \/
   is_feas (KElim.k_state (fst (KElim.kelim_sub o tol K isroot q st t k))) = true).
Proof. exact KElimEval.kelim_sub_shape. Qed.
(* K = 2: the K-ary model on the embedding of a binary tree IS the binary model Elim.v, result and both call counters *)
Theorem C03_kelim_binary_is_elim : forall o tol t, cbin t ->
  KElim.kelim o tol 2 (KPrune.kemb t) = (KPrune.kemb (fst (elim o tol t)), snd (elim o tol t)).
Proof. exact KElimBin.kelim_binary. Qed.
Theorem C03_kelim_sub_binary_is_elim_sub : forall o tol t isroot q st k, cbin t ->
  KElim.kelim_sub o tol 2 isroot q st (KPrune.kemb t) k =
  (KPrune.kemb (fst (elim_sub o tol isroot q st t k)), snd (elim_sub o tol isroot q st t k)).
Proof. exact KElimBin.kelim_sub_binary. Qed.
Theorem C03_kshape_kemb : forall t, cbin t -> KElimEval.kshape 2 (KPrune.kemb t).
Proof. exact KElimEval.kshape_kemb. Qed.
(* non-vacuity, K = 4 over R^1 (root x <= -2, below both edges the two-row predicate x <= 1, -x <= 1; exact certified
   oracle): below edge 0 the child of label 0 is PRUNED and the decision stays, below edge 1 three children are
   infeasible and the decision is FORWARDED (its child keeps its arena index); the hypotheses hold for every x in R^1 *)
Example C03_kelim_nonvacuous :
  (forall x, length x = 1%nat -> osound (KPruneExample.kx_oracle 1) x) /\ KElimEval.kshape 4 KElimExample.kex_t /\
  (forall x, KElimEval.kmarks_kids x [] KElimExample.kex_t) /\
  KElim.ktree_eqb (fst (KElim.kelim (KPruneExample.kx_oracle 1) 0 4 KElimExample.kex_t)) KElimExample.kex_r = true /\
  (forall x, length x = 1%nat ->
     KPrune.kev (fst (KElim.kelim (KPruneExample.kx_oracle 1) 0 4 KElimExample.kex_t)) x = KPrune.kev KElimExample.kex_t x /\
     KPrune.kterm (fst (KElim.kelim (KPruneExample.kx_oracle 1) 0 4 KElimExample.kex_t)) x = KPrune.kterm KElimExample.kex_t x).
Proof. exact KElimExample.kex_c03. Qed.
Print Assumptions C03_kelim_preserves.
Print Assumptions C03_kelim_terminal.
Print Assumptions C03_kelim_sub_terminal.
Print Assumptions C03_kelim_eval.
Print Assumptions C03_kelim_sub_shape.
Print Assumptions C03_kelim_binary_is_elim.
Print Assumptions C03_kelim_sub_binary_is_elim_sub.
Print Assumptions C03_kshape_kemb.
Print Assumptions C03_kelim_nonvacuous.
(* x-kelim end ---------------------------------------------------------------------------------------------------- *)

(* x-kelim (caches) begin -----------------------------------------------------------------------------------------
   the K-ary elimination keeps the feasibility caches sound (Pwl/KElimCache.v, the any-K form of C05_elim_marks /
   C05_elim_witnesses; stated here because Props/C03.v is the file of the K-ary elimination): the Infeasible marks below
   the root of the RESULT exclude x, and every witness list of the result is non-empty and lies in the closed path
   polytope of its node in the RESULT tree within the containment tolerance (a forwarded node has a shorter path). *)
From AT Require KElimCache.
Theorem C03_kelim_keeps_marks : forall o tol K t x, osound o x -> KElimEval.kshape K t -> KElimEval.kmarks_kids x [] t ->
  KElimEval.kmarks_kids x [] (fst (KElim.kelim o tol K t)).
Proof. exact KElimCache.kelim_marks. Qed.
Theorem C03_kelim_sub_keeps_marks : forall o tol K x, osound o x ->
  forall t, KElimEval.kshape K t -> forall isroot q st k, KElimEval.kmarks_kids x q t -> (st = Infeas -> ~ in_rows q x) ->
  KPruneEval.kmarks x q (fst (KElim.kelim_sub o tol K isroot q st t k)).
Proof. exact KElimCache.kelim_sub_marks. Qed.
Theorem C03_kelim_keeps_witnesses : forall o tol K t, mir_sound o tol -> KElimCache.kwit_ok tol [] t ->
  KElimCache.kwit_ok tol [] (fst (KElim.kelim o tol K t)).
Proof. exact KElimCache.kelim_wit. Qed.
Theorem C03_kelim_sub_keeps_witnesses : forall o tol K, mir_sound o tol ->
  forall t isroot q st k, KElimCache.kwit_kids tol q t -> st_wit tol q st ->
  KElimCache.kwit_ok tol q (fst (KElim.kelim_sub o tol K isroot q st t k)).
Proof. exact KElimCache.kelim_sub_wit. Qed.
Print Assumptions C03_kelim_keeps_marks.
Print Assumptions C03_kelim_sub_keeps_marks.
Print Assumptions C03_kelim_keeps_witnesses.
Print Assumptions C03_kelim_sub_keeps_witnesses.
(* x-kelim (caches) end ------------------------------------------------------------------------------------------- *)

(* x-arenahist begin ----------------------------------------------------------------------------------------------
   Histories executed by the ARENA-LEVEL machines (Pwl/ArenaHistory.v: apply_func as the loop of update_node over
   terminal_indices, AElim.aelim, ACPrune.acompose_prune with the fuels chosen from the arena size) against the
   structural histories of Pwl/History.v (C03_history_*, C04_history, C05_history speak about those).
     AInv a t  : the arena holds t at root 0, mirrored links, two child slots, childless terminals, no index twice, no
                 FeasibleWitness [] state, no terminal cell outside the tree (decidable: ArenaHistory.ainvb); implies the
                 hypotheses of C03_arena_elim_refines and of C03_arena_compose_prune_refines
     AInvW a t : AInv without the last clause (all that apply_func and the elimination need)
     hist_ok   : every step is apply_func or infeasible_elimination, every oracle satisfies mir_ne
   PARTIAL with respect to the planned capstone: at most ONE pruned composition per history (at any position).  Full
   statement: the same for every list of AApply / ACompose / AElim steps.  Missing: the published postcondition of
   acompose_prune does not exclude terminal cells outside the returned tree, which a SECOND composition needs (its
   loop runs over all terminal cells of the slab); the un-pruned machine is related to ptree only
   (ArenaHistory.arena_step_compose_partial).  The congruence of compose_prune for shape equivalence, and histories
   with any number of pruned compositions modulo the executable stray-terminal check, follow in the second block below
   (C03_compose_prune_respects_shapez, C03_arena_history_refines). *)
From AT Require ArenaHistory ArenaHistoryMore ArenaHistoryRel ArenaHistoryEx ElimShape ElimWne CPruneWne.
(* the invariant gives the hypotheses of the machines' theorems, and is decidable *)
Theorem C03_arena_inv_compose_pre : forall a t, ArenaHistory.AInv a t ->
  cabs (AElimBase.cdepth t) a 0%nat = Some t /\ ACPruneAll.cparents a None t /\ NoDup (ACPruneRefine.cidx t) /\
  ACPruneAll.cwf t /\ (forall j, In j (ArenaCompose.terminal_keys a) <-> In j (ACPruneAll.cleaves t)) /\
  (ACPruneAll.cdepth t <= length a)%nat.
Proof. exact ArenaHistory.AInv_compose_pre. Qed.
Theorem C03_arena_inv_check : forall a, ArenaHistory.ainvb a = true ->
  exists t, cabs (S (length a)) a 0 = Some t /\ ArenaHistory.AInv a t.
Proof. exact ArenaHistory.ainvb_sound. Qed.
(* one step, index-exact operations: the arena returned holds the very tree of the structural step *)
Theorem C03_arena_history_step : forall alloc tol o x a t t1, AElimBase.mir_ne o -> ArenaHistory.exact_op x = true ->
  ArenaHistory.AInv a t -> step tol o (ArenaHistory.op_of x) t = HOk t1 ->
  exists a', ArenaHistory.arena_step alloc tol o x a = Some a' /\ ArenaHistory.AInv a' t1.
Proof. exact ArenaHistory.arena_step_refines_exact. Qed.
(* one step, the pruned composition: terminates with the fuels of arena_step, weak invariant re-established, result
   equal to the structural one up to the indices of the fresh nodes, old decisions framed *)
Theorem C03_arena_history_step_compose_prune : forall alloc tol o L a t t1,
  ArenaCompose.fresh_alloc alloc -> ACPruneAll.lp_index_free o -> L <> U ->
  ArenaHistory.AInv a t -> step tol o (OCompose true L) t = HOk t1 ->
  exists a' t',
    ArenaHistory.arena_step alloc tol o (ArenaHistory.ACompose true L) a = Some a' /\ ArenaHistoryMore.AInvW a' t' /\
    ACPruneRefine.cshape t' t1 /\ ACPruneAll.cframe t t' /\
    (forall k, In k (AElimBase.idxs t') -> In k (AElimBase.idxs t) \/ aget a k = None).
Proof. exact ArenaHistoryMore.arena_step_compose_prune_weak. Qed.
(* one step after the composition: the relation "equal up to node indices" is carried along *)
Theorem C03_arena_history_step_rel : forall alloc tol o x a t' t t1, AElimBase.mir_ne o -> ArenaHistory.exact_op x = true ->
  ArenaHistoryMore.AInvW a t' -> ACPruneRefine.cshape t' t -> step tol o (ArenaHistory.op_of x) t = HOk t1 ->
  exists a' t1', ArenaHistory.arena_step alloc tol o x a = Some a' /\ ArenaHistoryMore.AInvW a' t1' /\ ACPruneRefine.cshape t1' t1.
Proof. exact ArenaHistoryRel.arena_step_refines_rel. Qed.
(* the structural models do not read node indices *)
Theorem C03_elim_respects_shape : forall o tol t u, ACPruneRefine.cshape t u ->
  ACPruneRefine.cshape (fst (elim o tol t)) (fst (elim o tol u)) /\ snd (elim o tol t) = snd (elim o tol u).
Proof. exact ElimShape.elim_cshape. Qed.
Theorem C03_elim_keeps_wne : forall o tol t, AElimBase.mir_ne o -> AElimBase.wne t -> AElimBase.wne (fst (elim o tol t)).
Proof. exact ElimWne.elim_wne. Qed.
Theorem C03_compose_prune_keeps_wne : forall o tol t L, AElimBase.wne t -> AElimBase.wne (fst (compose_prune o tol t L)).
Proof. exact CPruneWne.compose_prune_wne. Qed.
(* un-pruned composition, one step (partial: related to the inductive tree only) *)
Theorem C03_arena_history_step_compose_partial : forall alloc tol o L a t t1,
  ArenaCompose.fresh_alloc alloc -> L <> U -> ArenaHistory.AInv a t -> step tol o (OCompose false L) t = HOk t1 ->
  exists a', ArenaHistory.arena_step alloc tol o (ArenaHistory.ACompose false L) a = Some a' /\ ArenaCompose.extends a a' /\
             ArenaComposeAbs.leaves_empty 2 a' /\ exists F, abs_at F a' 0%nat = Some (erase t1).
Proof. exact ArenaHistory.arena_step_compose_partial. Qed.
(* histories of index-exact operations *)
Theorem C03_arena_history_exact : forall alloc tol ops a0 t0 t, ArenaHistory.hist_ok ops -> ArenaHistory.AInv a0 t0 ->
  run tol t0 (ArenaHistory.ops_of ops) = HOk t ->
  exists a, ArenaHistory.arena_run alloc tol ops a0 = Some a /\ ArenaHistory.AInv a t.
Proof. exact ArenaHistory.arena_run_refines_exact. Qed.
(* histories  ops1 ; compose::<true>(L) ; ops2 *)
Theorem C03_arena_history_refines_partial : forall alloc tol ops1 o L ops2 a0 t0 tf,
  ArenaCompose.fresh_alloc alloc -> ACPruneAll.lp_index_free o -> L <> U ->
  ArenaHistory.hist_ok ops1 -> ArenaHistory.hist_ok ops2 -> ArenaHistory.AInv a0 t0 ->
  run tol t0 (ArenaHistory.ops_of ops1 ++ (o, OCompose true L) :: ArenaHistory.ops_of ops2) = HOk tf ->
  exists a' tf',
    ArenaHistory.arena_run alloc tol (ops1 ++ (o, ArenaHistory.ACompose true L) :: ops2) a0 = Some a' /\
    ArenaHistoryMore.AInvW a' tf' /\ cabs (AElimBase.cdepth tf') a' 0%nat = Some tf' /\
    ACPruneRefine.cshape tf' tf /\ (forall x, cev tf' x = cev tf x).
Proof. exact ArenaHistoryRel.arena_history_refines. Qed.
Theorem C03_arena_history_value_partial : forall alloc tol ops1 o L ops2 a0 t0 tf,
  ArenaCompose.fresh_alloc alloc -> ACPruneAll.lp_index_free o -> L <> U ->
  ArenaHistory.hist_ok ops1 -> ArenaHistory.hist_ok ops2 -> ArenaHistory.AInv a0 t0 ->
  run tol t0 (ArenaHistory.ops_of ops1 ++ (o, OCompose true L) :: ArenaHistory.ops_of ops2) = HOk tf ->
  exists a' F tf', ArenaHistory.arena_run alloc tol (ops1 ++ (o, ArenaHistory.ACompose true L) :: ops2) a0 = Some a' /\
                   cabs F a' 0%nat = Some tf' /\ forall x, cev tf' x = cev tf x.
Proof. exact ArenaHistoryRel.arena_history_value. Qed.
(* non-vacuity: the arena of C03_arena_elim_nonvacuous meets AInv; apply_func ; elimination (certified oracle ex_o) ;
   compose::<true> (y <= 1 ? .. : ..) ; elimination ; apply_func -- both runs computed and compared *)
Example C03_arena_history_nonvacuous :
  ArenaHistory.hist_ok ArenaHistoryEx.ahx_ops2 /\
  match run 0 ex_t (ArenaHistory.ops_of ArenaHistoryEx.ahx_ops ++
                    (ArenaHistoryEx.ahx_o2, OCompose true ArenaHistoryEx.ahx_L) :: ArenaHistory.ops_of ArenaHistoryEx.ahx_ops2),
        ArenaHistory.arena_run ArenaCompose.next_key 0
          (ArenaHistoryEx.ahx_ops ++ (ArenaHistoryEx.ahx_o2, ArenaHistory.ACompose true ArenaHistoryEx.ahx_L) :: ArenaHistoryEx.ahx_ops2)
          AElimExample.exa_arena with
  | HOk tf, Some a' => option_map (fun t' => ctree_eqb_shape t' tf) (cabs 8 a' 0%nat) = Some true /\
                       AElimRefine.arena_okb a' 0 = true /\ (2 < AElimBase.csize tf)%nat
  | _, _ => False
  end /\
  exists a' tf',
    ArenaHistory.arena_run ArenaCompose.next_key 0
      (ArenaHistoryEx.ahx_ops ++ (ArenaHistoryEx.ahx_o2, ArenaHistory.ACompose true ArenaHistoryEx.ahx_L) :: ArenaHistoryEx.ahx_ops2)
      AElimExample.exa_arena = Some a' /\
    ArenaHistoryMore.AInvW a' tf' /\
    forall x, Some (cev tf' x) =
      match run 0 ex_t (ArenaHistory.ops_of ArenaHistoryEx.ahx_ops ++
                        (ArenaHistoryEx.ahx_o2, OCompose true ArenaHistoryEx.ahx_L) :: ArenaHistory.ops_of ArenaHistoryEx.ahx_ops2) with
      | HOk tf => Some (cev tf x) | HPanic => None end.
Proof. exact ArenaHistoryEx.ahx_run_full. Qed.
Print Assumptions C03_arena_inv_compose_pre.
Print Assumptions C03_arena_inv_check.
Print Assumptions C03_arena_history_step.
Print Assumptions C03_arena_history_step_compose_prune.
Print Assumptions C03_arena_history_step_rel.
Print Assumptions C03_elim_respects_shape.
Print Assumptions C03_elim_keeps_wne.
Print Assumptions C03_compose_prune_keeps_wne.
Print Assumptions C03_arena_history_step_compose_partial.
Print Assumptions C03_arena_history_exact.
Print Assumptions C03_arena_history_refines_partial.
Print Assumptions C03_arena_history_value_partial.
Print Assumptions C03_arena_history_nonvacuous.
(* x-arenahist end ------------------------------------------------------------------------------------------------ *)

(* x-arenahist (general histories) begin ----------------------------------------------------------------------------
   EVERY history of apply_func / infeasible_elimination / compose::<true> steps, any number of pruned compositions
   (Pwl/ArenaHistoryGen.v), modulo one EXECUTABLE check after each composition: ArenaHistoryGen.strayb a' = every
   terminal cell of the returned slab belongs to the tree at root 0 (not part of the published postcondition of
   acompose_prune; the next composition iterates over all terminal cells).  arena_run_chk = arena_run + these checks:
   RFail (a machine returned None) is impossible while the structural run completes; unless a check fires (RStray)
   the arena returned by arena_run satisfies AInv with a tree equal to the structural result up to node indices.
   The structural models read a node index only through "= 0" (cprune: the root terminal): they respect cshz
   (equal up to indices, same nodes carry index 0), and index 0 stays at the root. *)
From AT Require ShapeZ ElimShapeZ CPruneShapeZ ArenaHistoryGen ArenaHistoryGenEx.
Theorem C03_elim_respects_shapez : forall o tol t u, ShapeZ.cshz t u ->
  ShapeZ.cshz (fst (elim o tol t)) (fst (elim o tol u)) /\ snd (elim o tol t) = snd (elim o tol u).
Proof. exact ElimShapeZ.elim_cshz. Qed.
Theorem C03_compose_prune_respects_shapez : forall o tol L t u, ShapeZ.cshz t u ->
  ShapeZ.cshz (fst (compose_prune o tol t L)) (fst (compose_prune o tol u L)) /\
  snd (compose_prune o tol t L) = snd (compose_prune o tol u L).
Proof. exact CPruneShapeZ.compose_prune_cshz. Qed.
Theorem C03_compose_prune_keeps_root0 : forall o tol L t, ShapeZ.onlyroot0 t -> ShapeZ.onlyroot0 (fst (compose_prune o tol t L)).
Proof. exact CPruneShapeZ.compose_prune_onlyroot0. Qed.
Theorem C03_shapez_is_shape : forall x y, ShapeZ.cshz x y -> ACPruneRefine.cshape x y.
Proof. exact ShapeZ.cshz_cshape. Qed.
(* the check turns the weak invariant into the full one *)
Theorem C03_arena_stray_check : forall a t, ArenaHistoryMore.AInvW a t -> ArenaHistoryGen.strayb a = true -> ArenaHistory.AInv a t.
Proof. exact ArenaHistoryGen.AInvW_strayb. Qed.
(* one step of any admissible kind, from related trees *)
Theorem C03_arena_history_step_gen : forall alloc tol o x a t' t t1,
  ArenaCompose.fresh_alloc alloc -> AElimBase.mir_ne o -> ACPruneAll.lp_index_free o -> ArenaHistoryGen.gop_ok x ->
  ArenaHistory.AInv a t' -> ShapeZ.cshz t' t -> step tol o (ArenaHistory.op_of x) t = HOk t1 ->
  exists a' t1', ArenaHistory.arena_step alloc tol o x a = Some a' /\ ArenaHistoryMore.AInvW a' t1' /\ ShapeZ.cshz t1' t1 /\
                 (ArenaHistory.exact_op x = true -> ArenaHistory.AInv a' t1').
Proof. exact ArenaHistoryGen.arena_step_refines_gen. Qed.
(* histories *)
Theorem C03_arena_history_refines : forall alloc tol ops a0 t0 tf,
  ArenaCompose.fresh_alloc alloc -> ArenaHistoryGen.hist_okG ops -> ArenaHistory.AInv a0 t0 ->
  run tol t0 (ArenaHistory.ops_of ops) = HOk tf ->
  match ArenaHistoryGen.arena_run_chk alloc tol ops a0 with
  | ArenaHistoryGen.ROk a' =>
      ArenaHistory.arena_run alloc tol ops a0 = Some a' /\
      exists tf', ArenaHistory.AInv a' tf' /\ cabs (AElimBase.cdepth tf') a' 0%nat = Some tf' /\
                  ACPruneRefine.cshape tf' tf /\ forall x, cev tf' x = cev tf x
  | ArenaHistoryGen.RStray => True
  | ArenaHistoryGen.RFail => False
  end.
Proof. exact ArenaHistoryGen.arena_history_refines_checked. Qed.
Theorem C03_arena_history_checked_is_run : forall alloc tol ops a a',
  ArenaHistoryGen.arena_run_chk alloc tol ops a = ArenaHistoryGen.ROk a' -> ArenaHistory.arena_run alloc tol ops a = Some a'.
Proof. exact ArenaHistoryGen.arena_run_chk_run. Qed.
(* non-vacuity: two pruned compositions; both checks pass, the runs agree up to node indices, the final arena meets
   the invariant (executable check) *)
Example C03_arena_history_gen_nonvacuous :
  ArenaHistory.AInv AElimExample.exa_arena ex_t /\ ArenaHistoryGen.hist_okG ArenaHistoryGenEx.ahg_ops /\
  ArenaCompose.fresh_alloc ArenaCompose.next_key /\
  match run 0 ex_t (ArenaHistory.ops_of ArenaHistoryGenEx.ahg_ops),
        ArenaHistoryGen.arena_run_chk ArenaCompose.next_key 0 ArenaHistoryGenEx.ahg_ops AElimExample.exa_arena with
  | HOk tf, ArenaHistoryGen.ROk a' =>
      option_map (fun t' => ctree_eqb_shape t' tf) (cabs 12 a' 0%nat) = Some true /\
      ArenaHistory.ainvb a' = true /\ (4 < AElimBase.csize tf)%nat
  | _, _ => False
  end.
Proof. exact ArenaHistoryGenEx.ahg_run. Qed.
Print Assumptions C03_elim_respects_shapez.
Print Assumptions C03_compose_prune_respects_shapez.
Print Assumptions C03_compose_prune_keeps_root0.
Print Assumptions C03_shapez_is_shape.
Print Assumptions C03_arena_stray_check.
Print Assumptions C03_arena_history_step_gen.
Print Assumptions C03_arena_history_refines.
Print Assumptions C03_arena_history_checked_is_run.
Print Assumptions C03_arena_history_gen_nonvacuous.
(* x-arenahist (general histories) end ------------------------------------------------------------------------------ *)

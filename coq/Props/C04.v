(* Props/C04.v -- C04: every operation history keeps a tree well-formed and usable.  Property theorems only.

   Trees are the arena-shaped binary trees of Pwl/Elim.v (ctree: per node the arena index, the isleaf flag AS STORED,
   the function, the cached state, two child slots), so the ill-formedness the property is about -- a decision that
   lost all children and is treated by find_terminal as a terminal holding a predicate -- is representable.
   Scope: K = 2 (everything that prunes is defined by the code for labels {0,1} only; the K-generic operations
   apply_func / compose::<false> have their shape lemmas for every K in Pwl/PTree.v, C02).
   Oracles: the LP solver and the mirror heuristic are arguments; NO hypothesis is placed on their answers.
   Numbers are exact rationals: overflow / underflow / division by a zero coefficient (from_mats' debug assertion on
   non-normal floats) are outside the model; * and / are covered at the level of shapes (any coefficient-wise fo). *)
From AT Require Import Num Vec Aff PTree Ops Cells Abs Cache Reduce Elim CPrune Schema WfC ElimWf CPruneWf OpsWf History HistoryEx D11Wf.
From AT Require Import RemoveAxesCache RemoveAxesWf.

(* ---- the predicate, in the property's words, and that it is decidable on a dump ---- *)
(* cwf n m t: every node function is a well-shaped map on R^n; a node flagged as terminal holds a function with
   m rows and has no children; a node flagged as decision holds a one-row predicate (branching factor 2) and has at
   least one child.  cwft: additionally the root exists. *)
Theorem C04_wf_decidable : forall n m t, cwftb n m t = true <-> cwft n m t.
Proof. exact cwftb_spec. Qed.
(* in terms of the inductive trees of the other properties: leaf flags consistent with the child slots, and the
   denoted ptree has all functions on R^n (wf), all terminals with m rows (outs), one-row decisions (bin), two
   slots and at least one child per decision (pshape) *)
Theorem C04_wf_means : forall n m t, cwf n m t <-> cleafok t /\ (wf n (erase t) /\ outs m (erase t) /\ bin (erase t) /\ pshape (erase t)).
Proof. exact cwf_erase. Qed.

(* ---- constructors: new, from_aff, from_slice, from_poly with / without else-branch, the nine predefined trees,
        with any arena indices and cached states ---- *)
Theorem C04_constructors : forall n m t, constructed n m t -> cwft n m t.
Proof. exact constructed_cwft. Qed.

(* ---- one preservation theorem per transformation, for EVERY oracle ---- *)
Theorem C04_elim : forall o tol n m t, cwft n m t -> cwft n m (fst (elim o tol t)).
Proof. exact elim_cwft. Qed.
Theorem C04_compose_prune : forall o tol n m m' t g, cwft n m t -> pwf m m' g -> pexists g = true ->
  cwft n m' (fst (compose_prune o tol t g)).
Proof. exact compose_prune_cwft. Qed.
Theorem C04_compose : forall n m m' t g, cwft n m t -> pwf m m' g -> pexists g = true -> cwft n m' (ccompose t g).
Proof. exact ccompose_cwft. Qed.
(* tree (op) tree, pruning on the fly, op any coefficient-wise operator: + - and (shapes only) * / *)
Theorem C04_tree_op : forall fo o tol n m t g, cwft n m t -> pwf n m g -> pexists g = true ->
  cwft n m (fst (cprune o tol (op_schema fo) g t [] k0)).
Proof. exact op_prune_cwft. Qed.
Theorem C04_apply_func : forall n m a t, wf_aff a -> a_in a = m -> cwft n m t -> cwft n (outdim a) (capply_func a t).
Proof. exact capply_func_cwft. Qed.
Theorem C04_neg : forall n m t, cwft n m t -> cwft n m (cneg t).
Proof. exact cneg_cwft. Qed.
Theorem C04_tree_op_aff : forall fo n m g t, wf_aff g -> a_in g = n -> outdim g = m -> cwft n m t -> cwft n m (cop_r fo g t).
Proof. exact cop_r_cwft. Qed.
Theorem C04_aff_op_tree : forall fo n m g t, wf_aff g -> a_in g = n -> outdim g = m -> cwft n m t -> cwft n m (cop_l fo g t).
Proof. exact cop_l_cwft. Qed.
Theorem C04_reduce : forall n m t, cwft n m t -> cwft n m (creduce t).
Proof. exact creduce_cwft. Qed.
(* the lifting without pruning (what compose::<false> does) for the operator schemas as well *)
Theorem C04_lift_unpruned : forall fo n m t g, cwft n m t -> pwf n m g -> pexists g = true -> cwft n m (clift (op_schema fo) g t).
Proof. exact clift_op_cwft. Qed.
(* the arena-shaped operations used above denote the ptree operations of C02 / C07 / C08 *)
Theorem C04_ops_denote :
  (forall a t, erase (capply_func a t) = apply_func a (erase t)) /\
  (forall h t, erase (cmap_terms h t) = map_terms h (erase t)) /\
  (forall s L t, pshape L -> erase (clift s L t) = lift s (erase t) L) /\
  (forall n m t, cwf n m t -> erase (creduce t) = reduce (erase t)).
Proof. exact ops_denote. Qed.
(* the pruning core, for any schema whose update functions produce the right shapes, at any node and counter *)
Theorem C04_generic_prune : forall o tol s g kk mL n m m',
  (forall tf, wf_aff tf -> a_in tf = n -> outdim tf = m -> schema_ok s tf kk mL n m') ->
  pwf kk mL g -> pexists g = true ->
  forall t q k, cwf n m t ->
    cwf n m' (fst (cprune o tol s g t q k)) /\ c_exists (fst (cprune o tol s g t q k)) = c_exists t.
Proof. exact cprune_cwf. Qed.

(* ---- one step of a history: a dimension-compatible argument => no Panic, well-formed result ---- *)
Theorem C04_step : forall tol o x n m t, cwft n m t -> compat x n m = true ->
  exists t', step tol o x t = HOk t' /\ cwft (fst (next_dims x (n, m))) (snd (next_dims x (n, m))) t'.
Proof. exact step_ok. Qed.

(* ---- the property: from any constructor, any finite history over
        {apply_func, compose<prune on/off>(schema or tree), infeasible_elimination, reduce, + - * / (tree operand),
         neg, tree (op) affine, affine (op) tree} with dimension-compatible arguments, every step with its own
        arbitrary oracle: the run completes (no Panic) and the tree is well-formed ---- *)
Theorem C04_history : forall tol ops n m init,
  constructed n m init -> compat_hist (n, m) ops = true ->
  exists t, run tol init ops = HOk t /\ cwft (fst (final_dims (n, m) ops)) (snd (final_dims (n, m) ops)) t.
Proof. exact history_from_constructor. Qed.
(* ... consequently any further dimension-compatible operation completes without panicking *)
Theorem C04_usable : forall tol ops n m init o x,
  constructed n m init -> compat_hist (n, m) ops = true ->
  compat x (fst (final_dims (n, m) ops)) (snd (final_dims (n, m) ops)) = true ->
  exists t t', run tol init ops = HOk t /\ step tol o x t = HOk t'.
Proof. exact history_then_usable. Qed.
(* results of histories are admissible operands of later steps *)
Theorem C04_result_is_operand : forall n m t, cwft n m t -> pexists (erase t) = true /\ pwf n m (erase t).
Proof. exact cwft_operand. Qed.

(* the model's Panic outcomes are the dimension mismatches (what the mirror comparison of outcomes reads) *)
Theorem C04_apply_incompatible_panics : forall tol o n m t a, cwft n m t -> a_in a <> m -> step tol o (OApply a) t = HPanic.
Proof. exact step_apply_panics. Qed.
Theorem C04_compose_incompatible_panics : forall tol o n m t pr g kk m',
  cwft n m t -> pwf kk m' g -> pexists g = true -> kk <> m -> step tol o (OCompose pr g) t = HPanic.
Proof. exact step_compose_panics. Qed.

(* ---- D11, the code as found (before /repo 73c1a4e and c6b3980: no "never remove the last remaining child"):
        the preservation theorems are refuted for both pruning loops.  from_poly of the empty polytope
        {x <= 0, -x <= -1} without else-branch, main branch with two rows: elimination as found turns the root
        into a terminal that holds the predicate x <= 0 (one row, common output dimension two); the repaired
        elimination keeps the tree well-formed.  Likewise the prune branch of the composition. ---- *)
Theorem C04_D11_elim_as_found_refuted :
  erase d11_t = from_poly d11_P d11_f None /\ cwft 1 2 d11_t /\
  fst (elim_v0 d11_o 0 d11_t) = CN 0 true (sc_rowf 1 [1] 0) Indet CU CU /\
  ~ cwft 1 2 (fst (elim_v0 d11_o 0 d11_t)) /\
  cwft 1 2 (fst (elim d11_o 0 d11_t)).
Proof. exact elim_as_found_refuted. Qed.
Theorem C04_D11_compose_as_found_refuted :
  pwf 2 2 d11_g /\
  fst (graftp_v0 d11_o 0 comp_schema d11_id2 d11_g false Indet 1 [] k0) = CN 1 true (sc_rowf 1 [1] 0) Indet CU CU /\
  cwfb 1 2 (fst (graftp_v0 d11_o 0 comp_schema d11_id2 d11_g false Indet 1 [] k0)) = false /\
  cwfb 1 2 (fst (graftp d11_o 0 comp_schema d11_id2 d11_g false Indet 1 [] k0)) = true.
Proof. exact compose_as_found_refuted. Qed.

(* ---- non-vacuity: partial_ReLU(1,0) with arena indices 0,1,2; a history in which an oracle that answers
        Infeasible on every even call makes the pruned composition drop edges, keep the last edge, and merge kept
        children into their parents; elimination removes a child of the root (forwarding refused there) and forwards
        below it; an addition (the operators test every new edge; this oracle keeps them); apply_func with the zero map; reduce merges the two equal terminals ---- *)
Example C04_nonvacuous :
  constructed 1 1 c04_init /\ compat_hist (1, 1)%nat c04_hist = true /\
  (exists t, run 0 c04_init c04_hist = HOk t /\ cwftb 1 1 t = true) /\
  (* pruned composition: both grafted decisions were merged away (3 nodes instead of 7) *)
  c04_shapes (firstn 1 c04_hist) = Some (SD ST ST) /\
  c04_shapes (firstn 2 c04_hist) = Some (SD (SD ST ST) (SD ST ST)) /\
  (* elimination: child 0 of the root removed, the root kept; the decision below it replaced by its feasible child *)
  c04_shapes (firstn 3 c04_hist) = Some (SD SU ST) /\
  c04_shapes (firstn 4 c04_hist) = Some (SD SU (SD ST ST)) /\
  (* reduce merged the decision with two equal terminals *)
  c04_shapes c04_hist = Some (SD SU ST).
Proof. exact c04_example. Qed.

(* remove_axes (projection onto the kept axes, states reset) keeps a tree well-formed on the smaller input space *)
Theorem C04_remove_axes : forall mask n m t, length mask = n -> cwft n m t -> cwft (kept mask) m (cremove_axes mask t).
Proof. exact cremove_axes_cwft. Qed.

Print Assumptions C04_wf_decidable.
Print Assumptions C04_wf_means.
Print Assumptions C04_constructors.
Print Assumptions C04_elim.
Print Assumptions C04_compose_prune.
Print Assumptions C04_compose.
Print Assumptions C04_tree_op.
Print Assumptions C04_apply_func.
Print Assumptions C04_neg.
Print Assumptions C04_tree_op_aff.
Print Assumptions C04_aff_op_tree.
Print Assumptions C04_reduce.
Print Assumptions C04_lift_unpruned.
Print Assumptions C04_ops_denote.
Print Assumptions C04_generic_prune.
Print Assumptions C04_step.
Print Assumptions C04_history.
Print Assumptions C04_usable.
Print Assumptions C04_result_is_operand.
Print Assumptions C04_apply_incompatible_panics.
Print Assumptions C04_compose_incompatible_panics.
Print Assumptions C04_D11_elim_as_found_refuted.
Print Assumptions C04_D11_compose_as_found_refuted.
Print Assumptions C04_nonvacuous.
Print Assumptions C04_remove_axes.

(* Props/C14.v -- C14: polytope constructors and transformations are set-exact.  Property theorems only.
   Model: Base/PolyCtor.v (operations as coded in /repo/src/linalg/affine.rs; None = the Rust code panics);
   proofs: Base/PolyCtorProofs.v, Base/PolySimplex.v, Base/LinDep.v; certified set comparison used by the tie: Cert/PolyInc.v.
   All statements hold for every dimension (0 included unless stated), every polytope / argument and every
   point x : list Qc of the ambient length.  in_poly P x  :=  A x <= b row by row. *)
From AT Require Import Num Vec Aff Poly AffOps Farkas FM PolyCtor PolyCtorProofs PolySimplex LinDep PolyInc AffOps2.

(* ---- intersection, intersection_n ---- *)
Theorem C14_intersection : forall P Q x, wf_aff P -> wf_aff Q -> a_in P = a_in Q ->
  exists R, p_intersection P Q = Some R /\ wf_aff R /\ (in_poly R x <-> in_poly P x /\ in_poly Q x).
Proof. exact in_intersection. Qed.
Theorem C14_intersection_guard : forall P Q, a_in P <> a_in Q -> p_intersection P Q = None.
Proof. exact intersection_panics. Qed.
Theorem C14_intersection_n : forall dim p0 ps x, Forall wf_aff (p0 :: ps) -> Forall (fun p => a_in p = a_in p0) ps ->
  exists R, p_intersection_n dim (p0 :: ps) = Some R /\ wf_aff R /\ a_in R = a_in p0 /\
            (in_poly R x <-> Forall (fun p => in_poly p x) (p0 :: ps)).
Proof. exact in_intersection_n. Qed.
(* the empty list gives the whole space *)
Theorem C14_intersection_n_nil : forall dim x, exists R, p_intersection_n dim [] = Some R /\ wf_aff R /\ in_poly R x.
Proof. exact in_intersection_n_nil. Qed.
Theorem C14_intersection_n_guard : forall dim p0 ps, ~ Forall (fun p => a_in p = a_in p0) ps -> p_intersection_n dim (p0 :: ps) = None.
Proof. exact intersection_n_panics. Qed.

(* ---- translate:  x in P + d  <->  x - d in P ---- *)
Theorem C14_translate : forall P d x, wf_aff P -> length d = a_in P -> length x = a_in P ->
  exists Q, p_translate P d = Some Q /\ wf_aff Q /\ (in_poly Q x <-> in_poly P (vsub x d)).
Proof. exact in_translate. Qed.
Theorem C14_translate_guard : forall P d, length d <> a_in P -> p_translate P d = None.
Proof. exact translate_panics. Qed.

(* ---- apply_pre:  x in P.apply_pre(f)  <->  f(x) in P ---- *)
Theorem C14_apply_pre : forall P f x, wf_aff P -> wf_aff f -> a_in P = outdim f ->
  exists Q, p_apply_pre P f = Some Q /\ wf_aff Q /\ a_in Q = a_in f /\ (in_poly Q x <-> in_poly P (apply f x)).
Proof. exact in_apply_pre. Qed.
Theorem C14_apply_pre_guard : forall P f, a_in P <> outdim f -> p_apply_pre P f = None.
Proof. exact apply_pre_panics. Qed.

(* ---- apply_post(inverse_mat, bias):  y in result  <->  inverse_mat (y - bias) in P;  with inverse_mat M = I
        the result holds exactly the images M x + bias of the points x of P ---- *)
Theorem C14_apply_post_preimage : forall P inv c y, wf_aff P -> cols (a_in P) inv -> length inv = a_in P ->
  length c = a_in P -> length y = a_in P ->
  exists Q, p_apply_post P (a_in P) inv c = Some Q /\ wf_aff Q /\ a_in Q = a_in P /\
            (in_poly Q y <-> in_poly P (matvec inv (vsub y c))).
Proof. exact in_apply_post. Qed.
Theorem C14_apply_post : forall P M inv c y, wf_aff P -> cols (a_in P) inv -> length inv = a_in P ->
  cols (a_in P) M -> length M = a_in P -> matmul (a_in P) inv M = eye (a_in P) ->
  length c = a_in P -> length y = a_in P ->
  exists Q, p_apply_post P (a_in P) inv c = Some Q /\ wf_aff Q /\
            (in_poly Q y <-> exists x, length x = a_in P /\ in_poly P x /\ y = vadd (matvec M x) c).
Proof. exact apply_post_image1. Qed.
(* for square matrices inv M = I implies M inv = I (more than n vectors of Q^n are linearly dependent) *)
Theorem C14_left_inverse_is_right_inverse : forall n A B, cols n A -> length A = n -> cols n B -> length B = n ->
  matmul n B A = eye n -> forall y, length y = n -> matvec A (matvec B y) = y.
Proof. exact left_inverse_is_right_inverse. Qed.
Theorem C14_apply_post_guard : forall P k inv c,
  a_in P <> length inv \/ length inv <> length c \/ k <> length c -> p_apply_post P k inv c = None.
Proof. exact apply_post_panics. Qed.

(* ---- rotate(R) = apply_post(R^T, 0): for R^T R = I exactly the images R x of the points x of P.
        Without any hypothesis on R: C14_rotate_preimage. ---- *)
Theorem C14_rotate : forall P R y, wf_aff P -> length R = a_in P -> cols (a_in P) R ->
  matmul (a_in P) (transpose (a_in P) R) R = eye (a_in P) -> length y = a_in P ->
  exists Q, p_rotate P (a_in P) R = Some Q /\ wf_aff Q /\
            (in_poly Q y <-> exists x, length x = a_in P /\ in_poly P x /\ y = matvec R x).
Proof. exact rotate_image1. Qed.
Theorem C14_rotate_preimage : forall P R y, wf_aff P -> length R = a_in P -> length y = a_in P ->
  exists Q, p_rotate P (a_in P) R = Some Q /\ wf_aff Q /\ a_in Q = a_in P /\
            (in_poly Q y <-> in_poly P (matvec (transpose (a_in P) R) y)).
Proof. exact in_rotate. Qed.
Theorem C14_rotate_image_incl : forall P R x, wf_aff P -> length R = a_in P -> cols (a_in P) R ->
  matmul (a_in P) (transpose (a_in P) R) R = eye (a_in P) -> length x = a_in P -> in_poly P x ->
  exists Q, p_rotate P (a_in P) R = Some Q /\ in_poly Q (matvec R x).
Proof. exact rotate_image_incl. Qed.
Theorem C14_rotate_guard : forall P k R, length R <> a_in P \/ k <> a_in P -> p_rotate P k R = None.
Proof. exact rotate_panics. Qed.

(* ---- constructors ---- *)
Theorem C14_unbounded : forall n x, in_poly (p_unbounded n) x.
Proof. exact in_unbounded. Qed.
Theorem C14_empty : forall n x, ~ in_poly (p_empty n) x.
Proof. exact in_empty. Qed.
Theorem C14_hypercube : forall n r x, length x = n ->
  (in_poly (p_hypercube n r) x <-> Forall (fun xi => qabs xi <= r) x).
Proof. exact in_hypercube. Qed.
(* bounds are f64 values: finite, +inf, -inf, NaN.  -inf as lower / +inf as upper bound = unbounded side;
   +inf as lower / -inf as upper bound admits no value (as repaired, see C14_axis_bounds_as_found_refuted) *)
Theorem C14_axis_bounds : forall n axis l u x, (axis < n)%nat -> ebleb l u = true ->
  exists P, p_axis_bounds n axis l u = Some P /\ wf_aff P /\ a_in P = n /\
            (in_poly P x <-> lo_sat l (nth axis x 0) /\ hi_sat u (nth axis x 0)).
Proof. exact in_axis_bounds. Qed.
Theorem C14_axis_bounds_guard : forall n axis l u, (n <= axis)%nat \/ ebleb l u = false -> p_axis_bounds n axis l u = None.
Proof. exact axis_bounds_panics. Qed.
Theorem C14_hyperrectangle : forall ivs x, Forall (fun iv => ebleb (fst iv) (snd iv) = true) ivs -> length x = length ivs ->
  exists P, p_hyperrectangle ivs = Some P /\ wf_aff P /\ a_in P = length ivs /\
            (in_poly P x <-> Forall2 iv_sat ivs x).
Proof. exact in_hyperrectangle. Qed.
Theorem C14_hyperrectangle_guard : forall ivs, Exists (fun iv => ebleb (fst iv) (snd iv) = false) ivs -> p_hyperrectangle ivs = None.
Proof. exact hyperrectangle_panics. Qed.
Theorem C14_cross_polytope : forall n x, length x = n -> (in_poly (p_cross_polytope n) x <-> sum_abs x <= 1).
Proof. exact in_cross_polytope. Qed.
(* inward normals: n_i . (x - p_i) >= 0, as test_poly_normal_constructor pins it *)
Theorem C14_from_normal : forall n N Pm x, cols n N -> cols n Pm -> length N = length Pm -> length x = n ->
  exists Q, p_from_normal n N n Pm = Some Q /\ wf_aff Q /\ a_in Q = n /\
            (in_poly Q x <-> Forall2 (fun nr pr => 0 <= dot nr (vsub x pr)) N Pm).
Proof. exact in_from_normal. Qed.
Theorem C14_from_normal_guard : forall nn N np Pm,
  bdim (length N) (length Pm) = None \/ bdim nn np = None \/
  (exists m, bdim (length N) (length Pm) = Some m /\ m <> length N) -> p_from_normal nn N np Pm = None.
Proof. exact from_normal_panics. Qed.

(* ---- simplex(dim), s = sqrt(dim + 1) as an argument ---- *)
(* the polytope is exactly the convex hull of e_0..e_{dim-1} and ((1 - s)/dim) (1..1) *)
Theorem C14_simplex_hull : forall n s x, (1 <= n)%nat -> s * s = qn n + 1 -> 0 < s -> length x = n ->
  (in_poly (p_simplex n s) x <->
   exists lam, length lam = S n /\ Forall (fun a => 0 <= a) lam /\ vsum lam = 1 /\
               x = vecmat n lam (simplex_vertices n s)).
Proof. exact simplex_hull. Qed.
(* vertex / facet incidence: row i is tight at vertex k unless i = k, where it is strictly slack *)
Theorem C14_simplex_incidence : forall n s, (1 <= n)%nat -> s * s = qn n + 1 -> 0 < s ->
  forall k i, (k <= n)%nat -> (i <= n)%nat ->
    (i <> k -> dot (simplex_rowvec n s i) (simplex_vertex n s k) = 1) /\
    (i = k -> dot (simplex_rowvec n s i) (simplex_vertex n s k) < 1).
Proof. exact simplex_incidence. Qed.
Theorem C14_simplex_rows : forall n s x, length x = n ->
  (in_poly (p_simplex n s) x <-> forall i, (i <= n)%nat -> dot (simplex_rowvec n s i) x <= 1).
Proof. exact in_simplex_rows. Qed.
(* regular with edge length sqrt 2 *)
Theorem C14_simplex_edges : forall n s, (1 <= n)%nat -> s * s = qn n + 1 ->
  forall j k, (j <= n)%nat -> (k <= n)%nat -> j <> k -> sqdist (simplex_vertex n s j) (simplex_vertex n s k) = 1 + 1.
Proof. exact simplex_edges. Qed.
Theorem C14_simplex_origin : forall n s i, (i <= n)%nat -> dot (simplex_rowvec n s i) (vzero n) < 1.
Proof. exact simplex_origin. Qed.

(* ---- distance_raw / distance / contains ---- *)
Theorem C14_distance_raw : forall P x, length x = a_in P -> length (a_mat P) = length (a_bias P) ->
  p_distance_raw P x = Some (raw_dist P x) /\ (in_poly P x <-> Forall (fun d => 0 <= d) (raw_dist P x)).
Proof. exact distance_raw_spec. Qed.
(* for every choice of positive norm values: entry i is >= 0 iff the point satisfies row i, and its sign is the
   sign of b_i - a_i.x (zero row: +inf when 0 <= b_i, -inf otherwise) *)
Theorem C14_distance : forall P norms x, wf_aff P -> length x = a_in P -> length norms = length (a_mat P) ->
  Forall2 (fun r nr => vall_zero r = false -> 0 < nr) (a_mat P) norms ->
  exists ds, p_distance P norms x = Some ds /\
    Forall2 (fun d rb => (ed_nonneg d <-> dot (fst rb) x <= snd rb) /\
                         ed_sign d = Some (if vall_zero (fst rb) then (if qltb (snd rb - dot (fst rb) x) 0 then (-1)%Z else 1%Z)
                                           else qsign (snd rb - dot (fst rb) x)))
            ds (combine (a_mat P) (a_bias P)).
Proof. exact in_distance. Qed.
Theorem C14_distance_membership : forall P norms x, wf_aff P -> length x = a_in P -> length norms = length (a_mat P) ->
  Forall2 (fun r nr => vall_zero r = false -> 0 < nr) (a_mat P) norms ->
  exists ds, p_distance P norms x = Some ds /\ (in_poly P x <-> Forall ed_nonneg ds).
Proof. exact distance_nonneg_iff. Qed.
Theorem C14_distance_magnitude : forall row nrm raw, vall_zero row = false -> 0 < nrm ->
  exists q, dist_entry row nrm raw = DFin q /\ q * nrm = raw /\ (nrm * nrm = dot row row -> q * q * dot row row = raw * raw).
Proof. exact dist_entry_magnitude. Qed.
(* contains(): raw tolerance 1e-8 on every row; exact membership implies contains() *)
Theorem C14_contains : forall P x, length x = a_in P -> length (a_mat P) = length (a_bias P) ->
  exists b, p_contains P x = Some b /\
    (b = true <-> Forall2 (fun l bi => l <= bi + tol8) (matvec (a_mat P) x) (a_bias P)) /\
    (in_poly P x -> b = true).
Proof. exact contains_spec. Qed.

(* ---- the certified comparison the tie uses on implementation outputs ---- *)
Theorem C14_poly_equiv_sound : forall n P Q, poly_equiv n P Q = PEqual ->
  forall x, length x = n -> (in_poly P x <-> in_poly Q x).
Proof. exact poly_equiv_sound. Qed.
Theorem C14_poly_equiv_cex : forall n P Q x side, poly_equiv n P Q = PDiffer x side ->
  length x = n /\ (if side then in_poly P x /\ ~ in_poly Q x else in_poly Q x /\ ~ in_poly P x).
Proof. exact poly_equiv_cex. Qed.

(* ---- findings: the code as found does not satisfy the property ---- *)
(* D12 (repaired in /repo 568ec8b): distance() gave NaN for a zero row with zero bias -- the half-space 0 <= 0
   holds every point and the documentation promises INFINITY *)
Theorem C14_distance_as_found_refuted :
  exists P norms x ds, wf_aff P /\ length x = a_in P /\ in_poly P x /\
    p_distance_old P norms x = Some ds /\ ~ Forall ed_nonneg ds /\ In DNaN ds.
Proof. exact distance_old_refuted. Qed.
(* distance() in a 0-dimensional space (repaired in /repo f59adb3): the norm of a row without columns was
   sqrt(-0.0) = -0.0 (sum of an empty f64 iterator), so the satisfied row 0 <= 1 got -inf instead of INFINITY *)
Theorem C14_distance_dim0_as_found_refuted :
  exists P norms x ds, wf_aff P /\ length x = a_in P /\ in_poly P x /\
    p_distance_v1 P norms x = Some ds /\ ~ Forall ed_nonneg ds /\ In DNInf ds.
Proof. exact distance_v1_refuted. Qed.
(* axis_bounds / hyperrectangle (repaired in /repo 87f0b13) treated +inf as lower bound (and -inf as upper bound) as "no bound":
   axis_bounds(1, 0, +inf, +inf) held every point *)
Theorem C14_axis_bounds_as_found_refuted :
  exists n axis l u P x, (axis < n)%nat /\ ebleb l u = true /\ p_axis_bounds_old n axis l u = Some P /\ length x = n /\
    in_poly P x /\ ~ (lo_sat l (nth axis x 0) /\ hi_sat u (nth axis x 0)).
Proof. exact axis_bounds_old_refuted. Qed.

(* ---- non-vacuity: the guards are satisfiable and the operations compute on concrete instances ---- *)
Definition ex_P : aff := mk 2 [[1; 0]; [0; 1]; [- (1); - (1)]] [1; 1; 0].           (* x <= 1, y <= 1, x + y >= 0 *)
Definition ex_R : mat := [[0; - (1)]; [1; 0]].                                        (* rotation by 90 degrees *)
Definition ex_f : aff := mk 1 [[1]; [1 + 1]] [0; - (1)].                               (* t |-> (t, 2t - 1) *)
Example C14_nonvacuous :
  wf_aff ex_P /\ wf_aff ex_f /\ a_in ex_P = outdim ex_f /\
  matmul 2 (transpose 2 ex_R) ex_R = eye 2 /\
  p_translate ex_P [1; 1] = Some (mk 2 [[1; 0]; [0; 1]; [- (1); - (1)]] [1 + 1; 1 + 1; - (1 + 1)]) /\
  p_apply_pre ex_P ex_f = Some (mk 1 [[1]; [1 + 1]; [- (1 + 1 + 1)]] [1; 1 + 1; - (1)]) /\
  p_rotate ex_P 2 ex_R = Some (mk 2 [[0; 1]; [- (1); 0]; [1; - (1)]] [1; 1; 0]) /\
  p_axis_bounds 2 1 BNInf (BFin 1) = Some (mk 2 [[0; 0]; [0; 1]] [1; 1]) /\
  p_hyperrectangle [(BFin 0, BFin 1); (BPInf, BPInf)] = Some (mk 2 [[- (1); 0]; [1; 0]; [0; 0]; [0; 0]] [0; 1; - (1); 1]) /\
  p_cross_polytope 2 = mk 2 [[1; 1]; [- (1); 1]; [1; - (1)]; [- (1); - (1)]] [1; 1; 1; 1] /\
  (1 + 1) * (1 + 1) = qn 3 + 1 /\
  p_simplex 3 (1 + 1) = mk 3 [[- (1 + 1 + 1 + 1 + 1); 1; 1]; [1; - (1 + 1 + 1 + 1 + 1); 1]; [1; 1; - (1 + 1 + 1 + 1 + 1)]; [1; 1; 1]] [1; 1; 1; 1] /\
  p_distance (mk 1 [[0]; [0]; [1 + 1]] [0; - (1); 1]) [0; 0; 1 + 1] [1] = Some [DPInf; DNInf; DFin (- (1) / (1 + 1))] /\
  p_contains ex_P [1; 1] = Some true /\ p_contains ex_P [1 + 1; 0] = Some false /\
  poly_equiv 2 ex_P (mk 2 [[0; 1]; [1; 0]; [- (1 + 1); - (1 + 1)]; [1; 1]] [1; 1; 0; 1 + 1 + 1]) = PEqual.
Proof.
  repeat split; try (apply wf_affb_spec; vm_compute; reflexivity); vm_compute; reflexivity.
Qed.

Print Assumptions C14_intersection.
Print Assumptions C14_intersection_guard.
Print Assumptions C14_intersection_n.
Print Assumptions C14_intersection_n_nil.
Print Assumptions C14_intersection_n_guard.
Print Assumptions C14_translate.
Print Assumptions C14_translate_guard.
Print Assumptions C14_apply_pre.
Print Assumptions C14_apply_pre_guard.
Print Assumptions C14_apply_post_preimage.
Print Assumptions C14_apply_post.
Print Assumptions C14_apply_post_guard.
Print Assumptions C14_left_inverse_is_right_inverse.
Print Assumptions C14_rotate.
Print Assumptions C14_rotate_preimage.
Print Assumptions C14_rotate_image_incl.
Print Assumptions C14_rotate_guard.
Print Assumptions C14_unbounded.
Print Assumptions C14_empty.
Print Assumptions C14_hypercube.
Print Assumptions C14_axis_bounds.
Print Assumptions C14_axis_bounds_guard.
Print Assumptions C14_hyperrectangle.
Print Assumptions C14_hyperrectangle_guard.
Print Assumptions C14_cross_polytope.
Print Assumptions C14_from_normal.
Print Assumptions C14_from_normal_guard.
Print Assumptions C14_simplex_hull.
Print Assumptions C14_simplex_incidence.
Print Assumptions C14_simplex_rows.
Print Assumptions C14_simplex_edges.
Print Assumptions C14_simplex_origin.
Print Assumptions C14_distance_raw.
Print Assumptions C14_distance.
Print Assumptions C14_distance_membership.
Print Assumptions C14_distance_magnitude.
Print Assumptions C14_contains.
Print Assumptions C14_poly_equiv_sound.
Print Assumptions C14_poly_equiv_cex.
Print Assumptions C14_distance_as_found_refuted.
Print Assumptions C14_distance_dim0_as_found_refuted.
Print Assumptions C14_axis_bounds_as_found_refuted.
Print Assumptions C14_nonvacuous.

(* ---- distances_raw: several points at once (the columns of the argument), Base/AffOps2.v ---- *)
Theorem C14_distances_raw : forall P pts, length (a_mat P) = length (a_bias P) ->
  Forall (fun x => length x = a_in P) pts ->
  exists D, p_distances_raw P pts = Some D /\ (length D = length pts)%nat /\
            forall j, (j < length pts)%nat ->
                      p_distance_raw P (nth j pts []) = Some (nth j D []) /\
                      (in_poly P (nth j pts []) <-> Forall (fun d => 0 <= d) (nth j D [])).
Proof. exact distances_raw_columns. Qed.
Theorem C14_distances_raw_guard : forall P pts, Exists (fun x => length x <> a_in P) pts -> p_distances_raw P pts = None.
Proof. exact distances_raw_panics. Qed.
Print Assumptions C14_distances_raw.
Print Assumptions C14_distances_raw_guard.

(* Props/C17.v -- C17: the predefined trees equal their mathematical definitions.  Property theorems only.
   All statements hold for every dimension n, every row/class index below n, every parameter value and every input x
   of length n; breakpoints and ties are ordinary inputs.  `on_row h i x` replaces component i of x by h(x_i). *)
From AT Require Import Num Vec Aff PTree Schema SchemaProofs SchemaSpec ArgmaxLoop.

(* the activation functions change exactly the named component ... *)
Theorem C17_others_untouched : forall h i x k, k <> i -> nth k (on_row h i x) 0 = nth k x 0.
Proof. exact on_row_other. Qed.
Theorem C17_named_component : forall h i x, (i < length x)%nat -> nth i (on_row h i x) 0 = h (nth i x 0).
Proof. exact on_row_same. Qed.
Theorem C17_same_length : forall h i x, length (on_row h i x) = length x.
Proof. exact on_row_length. Qed.

(* ... according to the textbook definition:  relu_def = on_row (max 0),  leaky: v > 0 ? v : alpha v,
   hard tanh: max lo (min hi v),  hard shrink: |v| > lambda ? v : 0,  threshold: v > theta ? v : value *)
Theorem C17_relu : forall n i x, length x = n -> (i < n)%nat ->
  eval (partial_relu n i) x = Some (on_row (fun v => qmax 0 v) i x).
Proof. exact eval_partial_relu. Qed.
Theorem C17_leaky_relu : forall n i alpha x, length x = n -> (i < n)%nat ->
  eval (partial_leaky_relu n i alpha) x = Some (on_row (fun v => if qltb 0 v then v else alpha * v) i x).
Proof. exact eval_partial_leaky_relu. Qed.
Theorem C17_hard_tanh : forall n i lo hi x, length x = n -> (i < n)%nat -> lo <= hi ->
  eval (partial_hard_tanh n i lo hi) x = Some (on_row (fun v => qmax lo (qmin hi v)) i x).
Proof. exact eval_partial_hard_tanh. Qed.
(* the repaired tree (fix of D9) *)
Theorem C17_hard_shrink : forall n i lam x, length x = n -> (i < n)%nat ->
  eval (partial_hard_shrink n i lam) x = Some (on_row (fun v => if qltb lam (qabs v) then v else 0) i x).
Proof. exact eval_partial_hard_shrink. Qed.
(* D9, the finding: the tree as originally coded (closed tests x >= lambda, x <= -lambda) is refuted at x_i = +-lambda
   and correct everywhere else *)
Theorem C17_hard_shrink_refuted : exists n i lam x, length x = n /\ (i < n)%nat /\
  eval (partial_hard_shrink_closed n i lam) x <> Some (hard_shrink_def lam i x).
Proof. exact hard_shrink_closed_refuted. Qed.
Theorem C17_hard_shrink_closed_elsewhere : forall n i lam x, length x = n -> (i < n)%nat ->
  nth i x 0 <> lam -> nth i x 0 <> - lam ->
  eval (partial_hard_shrink_closed n i lam) x = Some (hard_shrink_def lam i x).
Proof. exact eval_partial_hard_shrink_closed. Qed.
(* hard sigmoid with slope s (the code uses the f64 nearest to 1/6): saturates at +-3 *)
Theorem C17_hard_sigmoid : forall n i s x, length x = n -> (i < n)%nat ->
  eval (partial_hard_sigmoid n i s) x =
  Some (on_row (fun v => if qleb three v then 1 else if qleb v (- three) then 0 else s * v + half) i x).
Proof. exact eval_partial_hard_sigmoid. Qed.
Theorem C17_hard_sigmoid_textbook : forall n i x, length x = n -> (i < n)%nat ->
  eval (partial_hard_sigmoid n i sixth) x = Some (on_row (fun v => qmax 0 (qmin 1 (sixth * v + half))) i x).
Proof. exact eval_partial_hard_sigmoid_textbook. Qed.
Theorem C17_threshold : forall n i theta value x, length x = n -> (i < n)%nat ->
  eval (partial_threshold n i theta value) x = Some (on_row (fun v => if qltb theta v then v else value) i x).
Proof. exact eval_partial_threshold. Qed.

(* argmax returns the first index of a maximal component *)
Theorem C17_argmax : forall n x, (2 <= n)%nat -> length x = n ->
  exists r, eval (argmax n) x = Some [qnat r] /\
    (r < length x)%nat /\ (forall k, (k < length x)%nat -> nth k x 0 <= nth r x 0) /\
    (forall k, (k < r)%nat -> nth k x 0 < nth r x 0).
Proof. exact eval_argmax. Qed.
Theorem C17_argmax_def : forall n x, (2 <= n)%nat -> length x = n ->
  eval (argmax n) x = Some [qnat (argmax_def x)].
Proof. exact eval_argmax_def. Qed.
(* the stack loop of schema::argmax as coded (ArgmaxLoop.v) terminates without a failing add_child_node and builds
   exactly that tree, for every dim >= 2 *)
Theorem C17_argmax_loop : forall n, (2 <= n)%nat -> exists fuel B, argmax_loop n fuel = Some B /\ to_ptree B = argmax n.
Proof. exact argmax_loop_correct. Qed.
Theorem C17_first_max_unique : forall x r r', is_first_max x r -> is_first_max x r' -> r = r'.
Proof. exact is_first_max_unique. Qed.

(* class_characterization returns 1 iff the given component is maximal, else 0 *)
Theorem C17_class : forall n c x, length x = n -> (c < n)%nat ->
  eval (class_characterization n c) x = Some [class_def c x].
Proof. exact eval_class_characterization. Qed.
Theorem C17_class_one : forall c x, (forall k, (k < length x)%nat -> nth k x 0 <= nth c x 0) -> class_def c x = 1.
Proof. exact class_def_one. Qed.
Theorem C17_class_zero : forall c x, (exists k, (k < length x)%nat /\ nth c x 0 < nth k x 0) -> class_def c x = 0.
Proof. exact class_def_zero. Qed.

(* inf_norm returns 1 iff all components lie within the given bounds, else 0 *)
Theorem C17_inf_norm : forall n lo hi x, length x = n ->
  eval (inf_norm n lo hi) x = Some [inf_norm_def lo hi x].
Proof. exact eval_inf_norm. Qed.
Theorem C17_inf_norm_one : forall lo hi x,
  (forall k, (k < length x)%nat -> in_bounds lo hi (nth k x 0) = true) -> inf_norm_def lo hi x = 1.
Proof. exact inf_norm_def_one. Qed.
Theorem C17_inf_norm_zero : forall lo hi x,
  (exists k, (k < length x)%nat /\ in_bounds lo hi (nth k x 0) = false) -> inf_norm_def lo hi x = 0.
Proof. exact inf_norm_def_zero. Qed.
Theorem C17_in_bounds : forall lo hi a, in_bounds lo hi a = true <->
  (forall l, lo = Some l -> l <= a) /\ (forall h, hi = Some h -> a <= h).
Proof. exact in_bounds_spec. Qed.

(* from_poly maps the points of the polytope with the first function and the others with the second (or is undefined) *)
Theorem C17_from_poly_in : forall P f g x, in_poly P x -> eval (from_poly P f g) x = Some (apply f x).
Proof. exact eval_from_poly_in. Qed.
Theorem C17_from_poly_out : forall P f g x, ~ in_poly P x ->
  eval (from_poly P f g) x = option_map (fun g' => apply g' x) g.
Proof. exact eval_from_poly_out. Qed.

(* from_poly answers Ok exactly on dimension-compatible arguments with at least one constraint (explicit assertion) *)
Theorem C17_from_poly_total : forall P f g, a_in P = a_in f -> a_mat P <> [] ->
  (forall g', g = Some g' -> a_in g' = a_in P) -> from_poly_res P f g = SOk (from_poly P f g).
Proof. exact from_poly_res_total. Qed.
Theorem C17_from_poly_def : forall P f g x, eval (from_poly P f g) x = from_poly_def P f g x.
Proof. exact eval_from_poly. Qed.

(* remove_axes evaluates the tree with the dropped coordinates at 0; from_slice, composition and remove_axes together
   give the restriction of the tree to the axis-aligned slice through the reference point -- for EVERY reference
   point, the one without a free axis included (y = [], the result is the constant t(r)) *)
Theorem C17_remove_axes : forall n mask t t' y, remove_axes n mask t = SOk t' -> eval t' y = eval t (expand mask y).
Proof. exact eval_remove_axes. Qed.
Theorem C17_remove_axes_total : forall n mask t, length mask = n -> remove_axes n mask t = SOk (ra_tree mask t).
Proof. exact remove_axes_total. Qed.
Theorem C17_slice : forall r t y, wf (length r) t -> length y = count_true (map sc_isfree r) ->
  eval (slice_tree r t) y = eval t (embed r y).
Proof. exact eval_slice_tree. Qed.
Theorem C17_slice_pipeline : forall r t t' y, wf (length r) t -> length y = count_true (map sc_isfree r) ->
  remove_axes (length r) (map sc_isfree r) (compose (from_slice r) t) = SOk t' -> eval t' y = eval t (embed r y).
Proof. exact eval_slice_pipeline. Qed.
Theorem C17_embed_fixed : forall r y k v, nth k r None = Some v -> nth k (embed r y) 0 = v.
Proof. exact nth_embed_fixed. Qed.
(* the finding: as found, remove_axes panicked when the mask keeps no axis (a slice that fixes every coordinate) *)
Theorem C17_remove_axes_found_refuted : exists n mask t, length mask = n /\ wf n t /\ remove_axes_found n mask t = SPanic.
Proof. exact remove_axes_found_refuted. Qed.
Theorem C17_remove_axes_found_elsewhere : forall n mask t, existsb (fun b => b) mask = true ->
  remove_axes_found n mask t = remove_axes n mask t.
Proof. exact remove_axes_found_elsewhere. Qed.

(* the textbook definitions in tree form (SchemaSpec.v), against which the implementation's trees are compared for all
   inputs on every run: each denotes the executable definition *)
Theorem C17_textbook_tree : forall n i h x, length x = n -> (i < n)%nat -> eval (htree n i h) x = Some (on_row (hsem h) i x).
Proof. exact eval_htree. Qed.
Theorem C17_textbook_relu : forall v, hsem relu_h v = qmax 0 v.
Proof. exact relu_h_sem. Qed.
Theorem C17_textbook_leaky_relu : forall alpha v, hsem (leaky_relu_h alpha) v = if qltb 0 v then v else alpha * v.
Proof. exact leaky_relu_h_sem. Qed.
Theorem C17_textbook_hard_tanh : forall lo hi v, lo <= hi -> hsem (hard_tanh_h lo hi) v = qmax lo (qmin hi v).
Proof. exact hard_tanh_h_sem. Qed.
Theorem C17_textbook_hard_shrink : forall lam v, hsem (hard_shrink_h lam) v = if qltb lam (qabs v) then v else 0.
Proof. exact hard_shrink_h_sem. Qed.
Theorem C17_textbook_hard_sigmoid : forall s v,
  hsem (hard_sigmoid_h s) v = if qleb three v then 1 else if qleb v (- three) then 0 else s * v + half.
Proof. exact hard_sigmoid_h_sem. Qed.
Theorem C17_textbook_threshold : forall theta value v, hsem (threshold_h theta value) v = if qltb theta v then v else value.
Proof. exact threshold_h_sem. Qed.
Theorem C17_textbook_argmax : forall n x, (1 <= n)%nat -> length x = n -> eval (argmax_spec n) x = Some [qnat (argmax_def x)].
Proof. exact spec_argmax. Qed.
Theorem C17_textbook_class : forall n c x, length x = n -> (c < n)%nat -> eval (class_spec n c) x = Some [class_def c x].
Proof. exact spec_class. Qed.
Theorem C17_textbook_inf_norm : forall n lo hi x, length x = n -> eval (inf_norm_spec n lo hi) x = Some [inf_norm_def lo hi x].
Proof. exact spec_inf_norm. Qed.
Theorem C17_textbook_from_poly : forall P f g x, eval (from_poly_spec P f g) x = from_poly_def P f g x.
Proof. exact spec_from_poly. Qed.
Theorem C17_textbook_slice : forall r t y, eval (restrict_tree r t) y = eval t (embed r y).
Proof. exact eval_restrict_tree. Qed.

(* the slope constant: the f64 value of 1./6. is the double nearest to 1/6 (within half a unit in the last place), and
   a slope error changes the hard sigmoid by at most three times that error, at every input *)
Theorem C17_sixth_f64_nearest :
  sc_sixth_f64 = qc_of_float 6004799503160661 (-55) /\
  (4503599627370496 <= 6004799503160661 < 9007199254740992)%Z /\
  qabs (sc_sixth_f64 - sixth) <= qc_of_float 1 (-56).
Proof. exact sixth_f64_nearest. Qed.
Theorem C17_hard_sigmoid_slope_error : forall s s' v, qabs (hsig s v - hsig s' v) <= three * qabs (s - s').
Proof. exact hsig_slope_error. Qed.

(* non-vacuity: breakpoints and ties *)
Example C17_nonvacuous :
  eval (partial_hard_shrink 2 1 1) [1 + 1; 1] = Some [1 + 1; 0] /\
  eval (partial_hard_shrink 2 1 1) [1 + 1; - (1)] = Some [1 + 1; 0] /\
  eval (partial_hard_shrink 2 1 1) [1 + 1; 1 + 1] = Some [1 + 1; 1 + 1] /\
  eval (partial_hard_tanh 1 0 1 1) [0] = Some [1] /\
  eval (argmax 3) [1; 1 + 1; 1 + 1] = Some [qnat 1] /\
  eval (class_characterization 3 2) [1; 1 + 1; 1 + 1] = Some [1] /\
  eval (inf_norm 2 (Some 0) (Some 1)) [0; 1] = Some [1] /\
  eval (inf_norm 2 (Some 0) None) [0; - (1)] = Some [0] /\
  eval (from_poly (sc_unit 2 0) (sc_constant 2 1) None) [1; 0] = None /\
  eval (slice_tree [None; Some 1] (partial_relu 2 0)) [- (1)] = Some [0; 1] /\
  eval (slice_tree [Some (- (1)); Some 1] (partial_relu 2 0)) [] = Some [0; 1] /\
  eval (htree 2 1 (hard_shrink_h 1)) [1 + 1; 1] = Some [1 + 1; 0] /\
  eval (argmax_spec 3) [1; 1 + 1; 1 + 1] = Some [qnat 1] /\
  option_map to_ptree (argmax_loop 4 7) = Some (argmax 4) /\ argmax_loop 4 6 = None.
Proof. repeat split; vm_compute; reflexivity. Qed.

Print Assumptions C17_others_untouched.
Print Assumptions C17_named_component.
Print Assumptions C17_same_length.
Print Assumptions C17_relu.
Print Assumptions C17_leaky_relu.
Print Assumptions C17_hard_tanh.
Print Assumptions C17_hard_shrink.
Print Assumptions C17_hard_shrink_refuted.
Print Assumptions C17_hard_shrink_closed_elsewhere.
Print Assumptions C17_hard_sigmoid.
Print Assumptions C17_hard_sigmoid_textbook.
Print Assumptions C17_threshold.
Print Assumptions C17_argmax.
Print Assumptions C17_argmax_def.
Print Assumptions C17_first_max_unique.
Print Assumptions C17_class.
Print Assumptions C17_class_one.
Print Assumptions C17_class_zero.
Print Assumptions C17_inf_norm.
Print Assumptions C17_inf_norm_one.
Print Assumptions C17_inf_norm_zero.
Print Assumptions C17_in_bounds.
Print Assumptions C17_from_poly_in.
Print Assumptions C17_from_poly_out.
Print Assumptions C17_remove_axes.
Print Assumptions C17_slice.
Print Assumptions C17_embed_fixed.
Print Assumptions C17_from_poly_total.
Print Assumptions C17_from_poly_def.
Print Assumptions C17_remove_axes_total.
Print Assumptions C17_remove_axes_found_refuted.
Print Assumptions C17_remove_axes_found_elsewhere.
Print Assumptions C17_textbook_tree.
Print Assumptions C17_textbook_relu.
Print Assumptions C17_textbook_leaky_relu.
Print Assumptions C17_textbook_hard_tanh.
Print Assumptions C17_textbook_hard_shrink.
Print Assumptions C17_textbook_hard_sigmoid.
Print Assumptions C17_textbook_threshold.
Print Assumptions C17_textbook_argmax.
Print Assumptions C17_textbook_class.
Print Assumptions C17_textbook_inf_norm.
Print Assumptions C17_textbook_from_poly.
Print Assumptions C17_textbook_slice.
Print Assumptions C17_sixth_f64_nearest.
Print Assumptions C17_hard_sigmoid_slope_error.
Print Assumptions C17_slice_pipeline.
Print Assumptions C17_argmax_loop.

(* Props/C07.v -- C07: tree arithmetic is the point-wise lifting of affine arithmetic.  Property theorems only. *)
From AT Require Import Num Vec Aff PTree Ops.

(* for every coefficient-wise operator fo (+,-,*,/): the result is defined exactly when both operands are,
   and its terminal is the operator applied to the two terminals reached *)
Theorem C07_lift_term : forall fo a b x,
  term (top fo a b) x =
  match term a x, term b x with Some f, Some g => Some (aop fo f g) | _, _ => None end.
Proof. exact term_top. Qed.
Theorem C07_lift_eval : forall fo a b x,
  eval (top fo a b) x =
  match term a x, term b x with Some f, Some g => Some (apply (aop fo f g) x) | _, _ => None end.
Proof. exact eval_top. Qed.

(* + and - are the point-wise sum and difference, negation the point-wise negation *)
Theorem C07_add : forall n m a b x, wf n a -> wf n b -> outs m a -> outs m b -> length x = n ->
  eval (top Qcplus a b) x = olift2 vadd (eval a x) (eval b x).
Proof. exact eval_tadd. Qed.
Theorem C07_sub : forall n m a b x, wf n a -> wf n b -> outs m a -> outs m b -> length x = n ->
  eval (top Qcminus a b) x = olift2 vsub (eval a x) (eval b x).
Proof. exact eval_tsub. Qed.
Theorem C07_neg : forall n a x, wf n a -> eval (tneg a) x = option_map vopp (eval a x).
Proof. exact eval_tneg. Qed.

(* mixed forms, respecting operand order *)
Theorem C07_tree_op_aff : forall fo a g x,
  eval (top_r fo a g) x = option_map (fun f => apply (aop fo f g) x) (term a x).
Proof. exact eval_top_r. Qed.
Theorem C07_aff_op_tree : forall fo g a x,
  eval (top_l fo g a) x = option_map (fun f => apply (aop fo g f) x) (term a x).
Proof. exact eval_top_l. Qed.
Theorem C07_tree_minus_aff : forall n a g x, wf n a -> wf_aff g -> a_in g = n -> outs (outdim g) a -> length x = n ->
  eval (top_r Qcminus a g) x = option_map (fun v => vsub v (apply g x)) (eval a x).
Proof. exact eval_tsub_r. Qed.
Theorem C07_aff_minus_tree : forall n a g x, wf n a -> wf_aff g -> a_in g = n -> outs (outdim g) a -> length x = n ->
  eval (top_l Qcminus g a) x = option_map (fun v => vsub (apply g x) v) (eval a x).
Proof. exact eval_tsub_l. Qed.
Theorem C07_tree_plus_aff : forall n a g x, wf n a -> wf_aff g -> a_in g = n -> outs (outdim g) a -> length x = n ->
  eval (top_r Qcplus a g) x = option_map (fun v => vadd v (apply g x)) (eval a x).
Proof. exact eval_tadd_r. Qed.

(* results stay well-formed *)
Theorem C07_wf : forall fo n m a b, wf n a -> outs m a -> wf n b -> outs m b ->
  wf n (top fo a b) /\ outs m (top fo a b).
Proof. exact wf_top. Qed.

(* non-vacuity: |x| + (partial step function) *)
Definition ex_a : ptree :=
  D {| a_in := 1; a_mat := [[1]]; a_bias := [0] |}
    [T {| a_in := 1; a_mat := [[1]]; a_bias := [0] |}; T {| a_in := 1; a_mat := [[- (1)]]; a_bias := [0] |}].
Definition ex_b : ptree :=
  D {| a_in := 1; a_mat := [[1]]; a_bias := [1] |} [U; T {| a_in := 1; a_mat := [[0]]; a_bias := [1 + 1] |}].
Example C07_nonvacuous : wf 1 ex_a /\ wf 1 ex_b /\ outs 1 ex_a /\ outs 1 ex_b /\
  eval (top Qcplus ex_a ex_b) [- (1)] = Some [1 + 1 + 1] /\ eval (top Qcplus ex_a ex_b) [1 + 1] = None /\
  eval (top Qcminus ex_a ex_b) [1] = Some [- (1)].
Proof.
  repeat split; try (apply wfb_spec; vm_compute; reflexivity); try (apply outsb_spec; vm_compute; reflexivity);
  vm_compute; reflexivity.
Qed.

Print Assumptions C07_lift_term.
Print Assumptions C07_lift_eval.
Print Assumptions C07_add.
Print Assumptions C07_sub.
Print Assumptions C07_neg.
Print Assumptions C07_tree_op_aff.
Print Assumptions C07_aff_op_tree.
Print Assumptions C07_tree_minus_aff.
Print Assumptions C07_aff_minus_tree.
Print Assumptions C07_tree_plus_aff.
Print Assumptions C07_wf.

(* ---- the operators as the code runs them: with on-the-fly pruning (impl_ops.rs goes through the pruning generic
   composition).  For every LP oracle whose Infeasible answers exclude x and every cached state of the left operand
   whose Infeasible marks exclude x (C05_history: true of every tree a history produces), the pruned result leads x to
   the operator applied to the two terminals reached ---- *)
From AT Require Import Cells Abs Cache Elim ElimEval CPrune CPruneEval TermLevel OpsPruned.
Theorem C07_pruned_operator_terminal : forall o tol fo t L x, osound o x -> bin2 L -> cbin t -> marks_ok x [] t ->
  cterm (fst (cprune o tol (op_schema fo) L t [] k0)) x =
  match cterm t x, term L x with Some f, Some g => Some (aop fo f g) | _, _ => None end.
Proof. exact ops_pruned_term. Qed.
Theorem C07_pruned_operator_value : forall o tol fo t L x, osound o x -> bin2 L -> cbin t -> marks_ok x [] t ->
  cev (fst (cprune o tol (op_schema fo) L t [] k0)) x =
  match cterm t x, term L x with Some f, Some g => Some (apply (aop fo f g) x) | _, _ => None end.
Proof. exact ops_pruned_value. Qed.
Print Assumptions C07_pruned_operator_terminal.
Print Assumptions C07_pruned_operator_value.

(* ---- the region of one edge for ANY branching factor (the path conditions the pruning operators test; /repo computes
   them per row since the repair of D20): an input that takes the edge lies in the closed region of the edge, so an
   edge whose region is empty is taken by no input; an input strictly inside the region of an edge takes that edge ---- *)
From AT Require Import EdgeRegion.
Theorem C07_edge_region_sound : forall p x, length (a_bias p) = length (a_mat p) ->
  in_rows (label_rows p (decide p x)) x.
Proof. exact takes_edge_in_region. Qed.
Theorem C07_edge_region_interior : forall p l x, length (a_bias p) = length (a_mat p) -> (l < 2 ^ length (a_mat p))%nat ->
  strictly_in (label_rows p l) x -> decide p x = l.
Proof. exact strictly_inside_takes_edge. Qed.
Theorem C07_edge_region_binary : forall p r b, a_mat p = [r] -> a_bias p = [b] ->
  label_rows p 0 = [row0 p] /\ label_rows p 1 = [row1 p].
Proof. exact label_rows_binary. Qed.
Print Assumptions C07_edge_region_sound.
Print Assumptions C07_edge_region_interior.
Print Assumptions C07_edge_region_binary.

(* Props/C06.v -- C06: infeasible-path elimination is effective and idempotent.  Property theorems only.
   Proved for every containment tolerance tol >= 0 (the code: 1e-8) and an oracle that is exact on the closed path
   polytopes of the tree: Infeasible <-> empty, Unbounded / Optimal w only for non-empty polytopes with w inside,
   never Error.  A node's region is "non-empty" exactly when the evidence is an LP answer, and within the
   containment tolerance when the evidence is a cached / inherited witness (ne_tol) -- i.e. never empty by more than
   the tolerance.  minilp's own 1e-8 is what the per-instance certified region checks of the runner cover.
   Input (okc_kids): every decision has both branches; cached states below the root are Indeterminate or sound
   feasible ones, uniformly per sibling pair (fresh trees, results of earlier runs, compositions of those).

   The sentence "for a distilled network the number of terminals lies between the number of full-dimensional and
   the number of non-empty closed activation regions" is proved at the end of this file (Pwl/ElimCount.v,
   ElimCountRoot.v): the terminals that survive are a sub-sequence of the input's terminals, given by a mask; a
   kept terminal has a region (taken in the INPUT tree = its activation region) that is non-empty within tol, a
   terminal with a non-empty region is kept (C06_count_mask), hence #full-dimensional <= #terminals <= #non-empty
   closed for any admissible classification (C06_count_between), with equality to #non-empty at tol = 0
   (C06_count_exact_tol0); the same for every pipeline input (C06_count_*_pipeline), and for a whole distilled
   network against the un-pruned reference pipeline (C06_network_mask / _lower_bound / _exact_tol0, Pwl/ElimCountNet.v).  The runner still decides the
   sentence per instance on the implementation's output by certified enumeration (tag region-count). *)
From AT Require Import Num Vec Aff PTree Cells Abs Cache Elim ElimEval ElimCache ElimEff ElimExample.

(* eff tol q r: node r below the root has a determined feasible state, a non-empty closed path polytope q, and -- if it
   is a decision -- both branches, recursively.  eff_root: the same for every node below the root (the root itself
   may be left with a single branch). *)
Theorem C06_effective : forall o tol t, 0 <= tol -> (forall r, is_path [] t r -> oexact_at o r) -> mir_sound o tol ->
  c_exists t = true -> okc_kids tol [] t -> st_wit tol [] (c_state t) ->
  eff_root tol [] (fst (elim o tol t)).
Proof. exact elim_eff. Qed.
(* what eff says, unfolded one level: non-empty region, no single-branch decision *)
Theorem C06_eff_content : forall tol q i leaf p s c0 c1, 0 <= tol -> eff tol q (CN i leaf p s c0 c1) ->
  ne_tol tol q /\ is_feas s = true /\ (leaf = false -> c_exists c0 = true /\ c_exists c1 = true).
Proof. exact eff_content. Qed.
(* running the elimination again -- with any oracle, any tolerance -- changes nothing and solves no LP *)
Theorem C06_idempotent : forall o tol o' tol' t, eff_root tol [] (fst (elim o tol t)) ->
  elim o' tol' (fst (elim o tol t)) = (fst (elim o tol t), k0).
Proof. exact elim_idem. Qed.
(* more generally: any tree whose nodes below the root carry determined feasible states is a fixed point *)
Theorem C06_fixed_point : forall o tol t isroot q st k, settled_kids t ->
  elim_sub o tol isroot q st t k = (set_st st t, k).
Proof. exact elim_sub_fixed. Qed.

Example C06_nonvacuous :
  eff_root 0 [] (fst (elim ex_o 0 ex_t)) /\
  elim ex_o 0 ex_t = (ex_r, {| k_lp := 4; k_mir := 0 |}) /\
  elim ex_o 0 ex_r = (ex_r, k0).
Proof. exact ex_c06. Qed.

Print Assumptions C06_effective.
Print Assumptions C06_eff_content.
Print Assumptions C06_idempotent.
Print Assumptions C06_fixed_point.
Print Assumptions C06_nonvacuous.

(* ---- pipelines: compose / eliminate / compose / eliminate ... (the quantifier "with fresh or previously cached
   feasibility states").  Along every history made of apply_func, un-pruned composition with total trees and
   eliminations whose oracle is exact on the path polytopes of the tree at hand, the tree stays a legal input
   (pinv: cached states Indeterminate or sound feasible ones; every decision below the root has both branches; the
   root may have lost one), so every elimination of the pipeline is effective and a fixed point ---- *)
From AT Require Import Reduce CPrune Ops Schema WfC OpsWf ElimWf CPruneWf History CacheHistory CacheHistoryRun EffHistory EffHistoryEx.
Theorem C06_pipeline_effective : forall tol ops init t o, 0 <= tol ->
  (forall ox, In ox ops -> eff_op (snd ox)) -> exact_hist tol init ops ->
  pinv tol init -> run tol init ops = HOk t ->
  (forall r, is_path [] t r -> oexact_at o r) -> mir_sound o tol ->
  eff_root tol [] (fst (elim o tol t)) /\
  (forall o' tol', elim o' tol' (fst (elim o tol t)) = (fst (elim o tol t), k0)).
Proof. exact pipeline_effective. Qed.
Theorem C06_pipeline_invariant : forall tol, 0 <= tol -> forall ops init t,
  (forall ox, In ox ops -> eff_op (snd ox)) -> exact_hist tol init ops ->
  pinv tol init -> run tol init ops = HOk t -> pinv tol t.
Proof. exact pipeline_inv. Qed.
(* a root that lost a branch in an earlier round *)
Theorem C06_effective_root_single_branch : forall o tol t, 0 <= tol -> oexact o -> mir_sound o tol ->
  c_exists t = true -> okc_root tol [] t -> st_wit tol [] (c_state t) ->
  eff_root tol [] (fst (elim o tol t)).
Proof. exact elim_eff_root. Qed.
Theorem C06_fresh_total_is_legal : forall tol t, c_exists t = true -> fresh t -> ctotal t -> pinv tol t.
Proof. exact fresh_total_pinv. Qed.
Example C06_pipeline_nonvacuous :
  exists t, run 0 ex_t px_ops = HOk t /\
    (forall ox, In ox px_ops -> eff_op (snd ox)) /\ exact_hist 0 ex_t px_ops /\ pinv 0 ex_t /\
    (forall r, is_path [] t r -> oexact_at ex_o r) /\
    eff_root 0 [] (fst (elim ex_o 0 t)) /\ elim ex_o 0 (fst (elim ex_o 0 t)) = (fst (elim ex_o 0 t), k0).
Proof. exact px_example. Qed.
Print Assumptions C06_pipeline_effective.
Print Assumptions C06_pipeline_invariant.
Print Assumptions C06_effective_root_single_branch.
Print Assumptions C06_fresh_total_is_legal.
Print Assumptions C06_pipeline_nonvacuous.

(* ---- the counting sentence ("for a distilled network the number of terminals lies between the number of
   full-dimensional activation regions and the number of non-empty closed ones"), for the structural model of
   infeasible_elimination.  The activation regions of t are the entries of leaf_regions [] t (closed path polytopes
   of the terminals, depth-first, child 0 first).  The terminals of the result are those of the input selected by a
   mask m (never reordered, duplicated or altered); a terminal is kept only if its region -- in the INPUT tree -- is
   non-empty within the containment tolerance, and is kept whenever that region is non-empty.  Same hypotheses as
   C06_effective (oracle exact on the path polytopes); pinv: every legal input of a pipeline, incl. a root that lost
   a branch.  tol = 0: the number of terminals IS the number of non-empty closed regions. ---- *)
From AT Require Import ElimCount ElimCountRoot.
Theorem C06_count_mask : forall o tol t, 0 <= tol -> (forall r, is_path [] t r -> oexact_at o r) -> mir_sound o tol ->
  c_exists t = true -> okc_kids tol [] t -> st_wit tol [] (c_state t) ->
  exists m : list bool,
    length m = length (leaf_regions [] t) /\
    leaf_funcs (fst (elim o tol t)) = select m (leaf_funcs t) /\
    Forall2 (fun (b : bool) (R : rows) => (b = true -> ne_tol tol R) /\ (ne R -> b = true)) m (leaf_regions [] t).
Proof. exact elim_count. Qed.
Theorem C06_count_between : forall o tol t (full closed : list bool), 0 <= tol ->
  (forall r, is_path [] t r -> oexact_at o r) -> mir_sound o tol ->
  c_exists t = true -> okc_kids tol [] t -> st_wit tol [] (c_state t) ->
  Forall2 (fun (b : bool) (R : rows) => b = true -> ne R) full (leaf_regions [] t) ->
  Forall2 (fun (b : bool) (R : rows) => ne_tol tol R -> b = true) closed (leaf_regions [] t) ->
  (count full <= nleaves (fst (elim o tol t)) <= count closed)%nat.
Proof. exact elim_count_between. Qed.
Theorem C06_count_exact_tol0 : forall o t (closed : list bool),
  (forall r, is_path [] t r -> oexact_at o r) -> mir_sound o 0 ->
  c_exists t = true -> okc_kids 0 [] t -> st_wit 0 [] (c_state t) ->
  Forall2 (fun (b : bool) (R : rows) => b = true <-> ne R) closed (leaf_regions [] t) ->
  nleaves (fst (elim o 0 t)) = count closed.
Proof. exact elim_count_exact. Qed.
(* a region with a strictly interior point is non-empty: "full-dimensional" is an admissible lower classification *)
Theorem C06_interior_is_nonempty : forall R, interior R -> ne R.
Proof. exact interior_ne. Qed.
(* the same along pipelines (root possibly with a single branch); pinv is kept by every run (C06_pipeline_invariant) *)
Theorem C06_count_mask_pipeline : forall o tol t, 0 <= tol -> (forall r, is_path [] t r -> oexact_at o r) -> mir_sound o tol ->
  pinv tol t ->
  exists m : list bool,
    length m = length (leaf_regions [] t) /\
    leaf_funcs (fst (elim o tol t)) = select m (leaf_funcs t) /\
    Forall2 (fun (b : bool) (R : rows) => (b = true -> ne_tol tol R) /\ (ne R -> b = true)) m (leaf_regions [] t).
Proof. exact elim_count_pinv. Qed.
Theorem C06_count_between_pipeline : forall o tol t (full closed : list bool), 0 <= tol ->
  (forall r, is_path [] t r -> oexact_at o r) -> mir_sound o tol -> pinv tol t ->
  Forall2 (fun (b : bool) (R : rows) => b = true -> ne R) full (leaf_regions [] t) ->
  Forall2 (fun (b : bool) (R : rows) => ne_tol tol R -> b = true) closed (leaf_regions [] t) ->
  (count full <= nleaves (fst (elim o tol t)) <= count closed)%nat.
Proof. exact elim_count_between_pinv. Qed.
Theorem C06_count_hyps_fresh : forall tol t, c_exists t = true -> fresh t -> ctotal t ->
  c_exists t = true /\ okc_kids tol [] t /\ st_wit tol [] (c_state t).
Proof. exact count_hyps_fresh. Qed.
Theorem C06_count_hyps_rerun : forall o tol t, 0 <= tol -> (forall r, is_path [] t r -> oexact_at o r) -> mir_sound o tol ->
  pinv tol t -> pinv tol (fst (elim o tol t)).
Proof. exact count_hyps_rerun. Qed.
(* x <= 0 then x <= 1 on both sides: 4 activation regions, one empty, 3 terminals left *)
Example C06_count_nonvacuous :
  ((forall r, is_path [] cx_t r -> oexact_at ex_o r) /\ mir_sound ex_o 0 /\
   c_exists cx_t = true /\ okc_kids 0 [] cx_t /\ st_wit 0 [] (c_state cx_t)) /\
  length (leaf_regions [] cx_t) = 4%nat /\
  nleaves (fst (elim ex_o 0 cx_t)) = 3%nat /\ count cx_mask = 3%nat /\
  leaf_funcs (fst (elim ex_o 0 cx_t)) = select cx_mask (leaf_funcs cx_t) /\
  Forall2 (fun (b : bool) (R : rows) => b = true <-> ne R) cx_mask (leaf_regions [] cx_t) /\
  Forall2 (fun (b : bool) (R : rows) => b = true -> interior R) cx_mask (leaf_regions [] cx_t).
Proof. exact cx_count. Qed.
Print Assumptions C06_count_mask.
Print Assumptions C06_count_between.
Print Assumptions C06_count_exact_tol0.
Print Assumptions C06_interior_is_nonempty.
Print Assumptions C06_count_mask_pipeline.
Print Assumptions C06_count_between_pipeline.
Print Assumptions C06_count_hyps_fresh.
Print Assumptions C06_count_hyps_rerun.
Print Assumptions C06_count_nonvacuous.

(* ---- the counting sentence for a WHOLE distilled network (Pwl/ElimCountNet.v).  A distilled network is a pipeline ops
   (apply_func / un-pruned composition with a total tree / infeasible_elimination, each elimination with its own
   oracle, exact on the path polytopes of the tree at hand: exact_hist) run from a legal start t0 (pinv; e.g. a fresh
   total tree, C06_fresh_total_is_legal).  Its activation regions are the terminal regions of the UN-PRUNED reference
   tree U = the same pipeline with every elimination dropped (strip ops).  R = result of ops.
     C06_network_mask:        the terminals of R are those of U selected by a mask m (never reordered, duplicated or
                              altered: pruning along the way only ever removes activation regions), and every
                              non-empty activation region is selected -- for every tol >= 0;
     C06_network_lower_bound: hence #full-dimensional activation regions <= #terminals of R (any classification `full`
                              that only marks non-empty regions; C06_interior_is_nonempty);
     C06_network_exact_tol0:  if the pipeline ENDS with an elimination and tol = 0, a selected region is non-empty:
                              #terminals of R = #non-empty closed activation regions of the network;
     C06_network_upper_tol:   tol > 0: a kept terminal is only known to be non-empty within tol with respect to the rows
                              that are still on its path in R (the rows of forwarded decisions are gone; ne_tol is a
                              property of the row system, not of the point set): every terminal region OF R is ne_tol;
     C06_network_completes:   the pruned pipeline completes (no Panic) whenever the reference pipeline does. ---- *)
From AT Require Import ElimCountNet ElimCountNetEx.
Theorem C06_network_mask : forall tol ops t0 R Un, 0 <= tol ->
  (forall ox, In ox ops -> eff_op (snd ox)) -> exact_hist tol t0 ops -> pinv tol t0 ->
  run tol t0 ops = HOk R -> run tol t0 (strip ops) = HOk Un ->
  exists m : list bool,
    length m = length (leaf_regions [] Un) /\
    leaf_funcs R = select m (leaf_funcs Un) /\
    Forall2 (fun (b : bool) (Rg : rows) => ne Rg -> b = true) m (leaf_regions [] Un).
Proof. exact net_mask. Qed.
Theorem C06_network_lower_bound : forall tol ops t0 R Un (full : list bool), 0 <= tol ->
  (forall ox, In ox ops -> eff_op (snd ox)) -> exact_hist tol t0 ops -> pinv tol t0 ->
  run tol t0 ops = HOk R -> run tol t0 (strip ops) = HOk Un ->
  Forall2 (fun (b : bool) (Rg : rows) => b = true -> ne Rg) full (leaf_regions [] Un) ->
  (count full <= nleaves R)%nat.
Proof. exact net_lower_bound. Qed.
Theorem C06_network_lower_bound_interior : forall tol ops t0 R Un (full : list bool), 0 <= tol ->
  (forall ox, In ox ops -> eff_op (snd ox)) -> exact_hist tol t0 ops -> pinv tol t0 ->
  run tol t0 ops = HOk R -> run tol t0 (strip ops) = HOk Un ->
  Forall2 (fun (b : bool) (Rg : rows) => b = true -> interior Rg) full (leaf_regions [] Un) ->
  (count full <= nleaves R)%nat.
Proof. exact net_lower_bound_interior. Qed.
(* the pipeline ops followed by a last elimination with oracle o *)
Theorem C06_network_exact_tol0 : forall ops t0 R Un o (closed : list bool),
  (forall ox, In ox ops -> eff_op (snd ox)) -> exact_hist 0 t0 (ops ++ [(o, OElim)]) -> pinv 0 t0 ->
  run 0 t0 (ops ++ [(o, OElim)]) = HOk R -> run 0 t0 (strip (ops ++ [(o, OElim)])) = HOk Un ->
  Forall2 (fun (b : bool) (Rg : rows) => b = true <-> ne Rg) closed (leaf_regions [] Un) ->
  nleaves R = count closed.
Proof. exact net_exact_tol0_last. Qed.
(* the same in the form of C06_pipeline_effective: T = result of the pipeline so far, o exact on T *)
Theorem C06_network_exact_tol0_then : forall ops t0 T Un o (closed : list bool),
  (forall ox, In ox ops -> eff_op (snd ox)) -> exact_hist 0 t0 ops -> pinv 0 t0 ->
  run 0 t0 ops = HOk T -> run 0 t0 (strip ops) = HOk Un ->
  (forall r, is_path [] T r -> oexact_at o r) -> mir_sound o 0 ->
  Forall2 (fun (b : bool) (Rg : rows) => b = true <-> ne Rg) closed (leaf_regions [] Un) ->
  nleaves (fst (elim o 0 T)) = count closed.
Proof. exact net_exact_tol0. Qed.
Theorem C06_network_upper_tol : forall tol ops t0 T o, 0 <= tol ->
  (forall ox, In ox ops -> eff_op (snd ox)) -> exact_hist tol t0 ops -> pinv tol t0 ->
  run tol t0 ops = HOk T ->
  (forall r, is_path [] T r -> oexact_at o r) -> mir_sound o tol ->
  Forall (ne_tol tol) (leaf_regions [] (fst (elim o tol T))).
Proof. exact net_upper_tol. Qed.
Theorem C06_network_completes : forall tol ops t0 Un, 0 <= tol ->
  (forall ox, In ox ops -> eff_op (snd ox)) -> exact_hist tol t0 ops -> pinv tol t0 ->
  run tol t0 (strip ops) = HOk Un -> exists R, run tol t0 ops = HOk R.
Proof. exact net_completes. Qed.
(* eliminate / apply_func / compose / eliminate on one variable: 4 activation regions ({0}, x>=0, x<=0, empty), the
   distilled tree has 3 terminals = the non-empty closed ones, 2 of them full-dimensional *)
Example C06_network_nonvacuous :
  exists R Un : ctree,
    ((forall ox, In ox nx_ops -> eff_op (snd ox)) /\ exact_hist 0 nx_t nx_ops /\ pinv 0 nx_t /\
     run 0 nx_t nx_ops = HOk R /\ run 0 nx_t (strip nx_ops) = HOk Un) /\
    length (leaf_regions [] Un) = 4%nat /\ nleaves R = 3%nat /\ count nx_closed = 3%nat /\ count nx_full = 2%nat /\
    leaf_funcs R = select nx_closed (leaf_funcs Un) /\
    Forall2 (fun (b : bool) (Rg : rows) => b = true <-> ne Rg) nx_closed (leaf_regions [] Un) /\
    Forall2 (fun (b : bool) (Rg : rows) => b = true -> interior Rg) nx_full (leaf_regions [] Un).
Proof. exact nx_net. Qed.
Print Assumptions C06_network_mask.
Print Assumptions C06_network_lower_bound.
Print Assumptions C06_network_lower_bound_interior.
Print Assumptions C06_network_exact_tol0.
Print Assumptions C06_network_exact_tol0_then.
Print Assumptions C06_network_upper_tol.
Print Assumptions C06_network_completes.
Print Assumptions C06_network_nonvacuous.

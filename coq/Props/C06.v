(* Props/C06.v -- C06: infeasible-path elimination is effective and idempotent.  Property theorems only.
   Proved for every containment tolerance tol >= 0 (the code: 1e-8) and an oracle that is exact on the closed path
   polytopes of the tree: Infeasible <-> empty, Unbounded / Optimal w only for non-empty polytopes with w inside,
   never Error.  A node's region is "non-empty" exactly when the evidence is an LP answer, and within the
   containment tolerance when the evidence is a cached / inherited witness (ne_tol) -- i.e. never empty by more than
   the tolerance.  minilp's own 1e-8 is what the per-instance certified region checks of the runner cover.
   Input (okc_kids): every decision has both branches; cached states below the root are Indeterminate or sound
   feasible ones, uniformly per sibling pair (fresh trees, results of earlier runs, compositions of those).

   The sentence "for a distilled network the number of terminals lies between the number of full-dimensional and
   the number of non-empty closed activation regions" is NOT proved in general (C06_counting: per instance only,
   by certified enumeration in the runner); what is proved is its ingredient: every remaining terminal has a
   non-empty closed region (C06_effective, through eff). *)
From AT Require Import Num Vec Aff PTree Cells Abs Cache Elim ElimEval ElimCache ElimEff ElimExample.

(* eff tol q r: node r below the root has a determined feasible state, a non-empty closed path polytope q, and -- if it
   is a decision -- both branches, recursively.  eff_root: the same for every node below the root (the root itself
   may be left with a single branch). *)
Theorem C06_effective : forall o tol t, 0 <= tol -> (forall r, is_path [] t r -> oexact_at o r) -> mir_sound o tol ->
  c_exists t = true -> okc_kids tol [] t -> st_wit tol [] (c_state t) ->
  eff_root tol [] (fst (elim o tol t)).
Proof. exact elim_eff. Qed.
(* what eff says, unfolded one level: non-empty region, no single-branch decision *)
Theorem C06_eff_content : forall tol q i leaf p s c0 c1, 0 <= tol -> eff tol q (CN i leaf p s c0 c1) ->
  ne_tol tol q /\ is_feas s = true /\ (leaf = false -> c_exists c0 = true /\ c_exists c1 = true).
Proof. exact eff_content. Qed.
(* running the elimination again -- with any oracle, any tolerance -- changes nothing and solves no LP *)
Theorem C06_idempotent : forall o tol o' tol' t, eff_root tol [] (fst (elim o tol t)) ->
  elim o' tol' (fst (elim o tol t)) = (fst (elim o tol t), k0).
Proof. exact elim_idem. Qed.
(* more generally: any tree whose nodes below the root carry determined feasible states is a fixed point *)
Theorem C06_fixed_point : forall o tol t isroot q st k, settled_kids t ->
  elim_sub o tol isroot q st t k = (set_st st t, k).
Proof. exact elim_sub_fixed. Qed.

Example C06_nonvacuous :
  eff_root 0 [] (fst (elim ex_o 0 ex_t)) /\
  elim ex_o 0 ex_t = (ex_r, {| k_lp := 4; k_mir := 0 |}) /\
  elim ex_o 0 ex_r = (ex_r, k0).
Proof. exact ex_c06. Qed.

Print Assumptions C06_effective.
Print Assumptions C06_eff_content.
Print Assumptions C06_idempotent.
Print Assumptions C06_fixed_point.
Print Assumptions C06_nonvacuous.

(* ---- pipelines: compose / eliminate / compose / eliminate ... (the quantifier "with fresh or previously cached
   feasibility states").  Along every history made of apply_func, un-pruned composition with total trees and
   eliminations whose oracle is exact on the path polytopes of the tree at hand, the tree stays a legal input
   (pinv: cached states Indeterminate or sound feasible ones; every decision below the root has both branches; the
   root may have lost one), so every elimination of the pipeline is effective and a fixed point ---- *)
From AT Require Import Reduce CPrune Ops Schema WfC OpsWf ElimWf CPruneWf History CacheHistory CacheHistoryRun EffHistory EffHistoryEx.
Theorem C06_pipeline_effective : forall tol ops init t o, 0 <= tol ->
  (forall ox, In ox ops -> eff_op (snd ox)) -> exact_hist tol init ops ->
  pinv tol init -> run tol init ops = HOk t ->
  (forall r, is_path [] t r -> oexact_at o r) -> mir_sound o tol ->
  eff_root tol [] (fst (elim o tol t)) /\
  (forall o' tol', elim o' tol' (fst (elim o tol t)) = (fst (elim o tol t), k0)).
Proof. exact pipeline_effective. Qed.
Theorem C06_pipeline_invariant : forall tol, 0 <= tol -> forall ops init t,
  (forall ox, In ox ops -> eff_op (snd ox)) -> exact_hist tol init ops ->
  pinv tol init -> run tol init ops = HOk t -> pinv tol t.
Proof. exact pipeline_inv. Qed.
(* a root that lost a branch in an earlier round *)
Theorem C06_effective_root_single_branch : forall o tol t, 0 <= tol -> oexact o -> mir_sound o tol ->
  c_exists t = true -> okc_root tol [] t -> st_wit tol [] (c_state t) ->
  eff_root tol [] (fst (elim o tol t)).
Proof. exact elim_eff_root. Qed.
Theorem C06_fresh_total_is_legal : forall tol t, c_exists t = true -> fresh t -> ctotal t -> pinv tol t.
Proof. exact fresh_total_pinv. Qed.
Example C06_pipeline_nonvacuous :
  exists t, run 0 ex_t px_ops = HOk t /\
    (forall ox, In ox px_ops -> eff_op (snd ox)) /\ exact_hist 0 ex_t px_ops /\ pinv 0 ex_t /\
    (forall r, is_path [] t r -> oexact_at ex_o r) /\
    eff_root 0 [] (fst (elim ex_o 0 t)) /\ elim ex_o 0 (fst (elim ex_o 0 t)) = (fst (elim ex_o 0 t), k0).
Proof. exact px_example. Qed.
Print Assumptions C06_pipeline_effective.
Print Assumptions C06_pipeline_invariant.
Print Assumptions C06_effective_root_single_branch.
Print Assumptions C06_fresh_total_is_legal.
Print Assumptions C06_pipeline_nonvacuous.

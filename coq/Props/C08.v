(* Props/C08.v -- C08: reduce preserves the function and only merges identical siblings.  Property theorems only. *)
From AT Require Import Num Vec Aff PTree Reduce Cells Abs Cache Elim WfC OpsWf ReduceSweep.

Theorem C08_preserves : forall t x, bin t -> eval (reduce t) x = eval t x.
Proof. exact eval_reduce. Qed.
Theorem C08_never_grows : forall t, (size (reduce t) <= size t)%nat.
Proof. exact size_reduce. Qed.
Theorem C08_idempotent : forall t, reduce (reduce t) = reduce t.
Proof. exact reduce_idem. Qed.
(* below the root no decision keeps two terminal children with the same function *)
Theorem C08_no_equal_siblings : forall p ch,
  Forall no_eq_sib (map reduce_in ch) /\ reduce (D p ch) = D p (map reduce_in ch).
Proof. exact no_eq_sib_reduce. Qed.
(* decisions whose children differ in matrix or bias are kept *)
Theorem C08_keeps_different : forall p f g, f <> g -> reduce_in (D p [T f; T g]) = D p [T f; T g].
Proof. exact reduce_keeps_different. Qed.

(* non-vacuity: a cascade of two merges below the root *)
Definition c08_id : aff := {| a_in := 1; a_mat := [[1]]; a_bias := [0] |}.
Definition c08_p (b : Qc) : aff := {| a_in := 1; a_mat := [[1]]; a_bias := [b] |}.
Definition c08_ex : ptree :=
  D (c08_p 0) [D (c08_p 1) [D (c08_p (1 + 1)) [T c08_id; T c08_id]; T c08_id]; T (c08_p 1)].
Example C08_nonvacuous : bin c08_ex /\ reduce c08_ex = D (c08_p 0) [T c08_id; T (c08_p 1)] /\ size c08_ex = 7%nat.
Proof. repeat split; try (apply binb_spec; vm_compute; reflexivity); vm_compute; reflexivity. Qed.

(* ---- the algorithm as coded: indices collected breadth-first, reversed, the local merge rule applied at every listed
   index that still exists and is not the root.  On arena-shaped trees with unique node indices this sweep computes
   the bottom-up reduction creduce, whose erasure is reduce: so the theorems above are about what the code does,
   and every node that survives keeps its index and cached state (the merged decision is replaced by its child 0) *)
Theorem C08_sweep_is_bottom_up : forall r leaf f st c0 c1 h,
  uniq (CN r leaf f st c0 c1) -> (cheight (CN r leaf f st c0 c1) <= h)%nat ->
  sweep r (rev (bfs_order h (CN r leaf f st c0 c1))) (CN r leaf f st c0 c1) = creduce (CN r leaf f st c0 c1).
Proof. exact reduce_sweep. Qed.
Theorem C08_bottom_up_is_reduce : forall n m t, cwf n m t -> erase (creduce t) = reduce (erase t).
Proof. exact erase_creduce. Qed.

Print Assumptions C08_preserves.
Print Assumptions C08_never_grows.
Print Assumptions C08_idempotent.
Print Assumptions C08_no_equal_siblings.
Print Assumptions C08_keeps_different.
Print Assumptions C08_sweep_is_bottom_up.
Print Assumptions C08_bottom_up_is_reduce.

(* Props/C12.v -- C12: arena consistency under any operation sequence.  Property theorems only.
   Model: Arena/Tree.v (Tree<N,K> of src/tree/graph.rs, operations as coded after the D1 repair; the slab allocator
   is an oracle whose only assumed behaviour is that the key it returns is unoccupied).
   Inv K st: exists a root index r and a rank function that strictly grows along parent -> child links such that
   the root cell is stored and parentless, it is the only parentless cell, every cell has K slots, is flagged
   leaf exactly when all slots are empty, child and parent links mirror each other, no child sits in two slots. *)
From Coq Require Import List Arith.
From AT Require Import Cells Tree TreeLemmas TreeInv TreeRad TreeOps TreeCheck.
Import ListNotations.

(* what the invariant says, in the property's words (parent/child mirror, leaf flag, unique parentless root,
   every stored cell reachable from the root) *)
Theorem C12_invariant_content : forall K st, Inv K st ->
  exists r, t_root st = Some r /\
    (exists c, aget (t_arena st) r = Some c /\ c_parent c = None) /\
    (forall i c, aget (t_arena st) i = Some c -> c_parent c = None -> i = r) /\
    (forall i c, aget (t_arena st) i = Some c -> length (c_children c) = K /\ c_leaf c = all_none (c_children c)) /\
    (forall i c l j, aget (t_arena st) i = Some c -> nth_error (c_children c) l = Some (Some j) ->
       exists cj, aget (t_arena st) j = Some cj /\ c_parent cj = Some i) /\
    (forall j cj i, aget (t_arena st) j = Some cj -> c_parent cj = Some i ->
       exists c l, aget (t_arena st) i = Some c /\ nth_error (c_children c) l = Some (Some j)) /\
    (forall i c l l' j, aget (t_arena st) i = Some c -> nth_error (c_children c) l = Some (Some j) ->
       nth_error (c_children c) l' = Some (Some j) -> l = l') /\
    (forall i c, aget (t_arena st) i = Some c -> reach (t_arena st) r i).
Proof. exact inv_content. Qed.

(* len() equals the number of nodes reachable from the root: the reachable indices are exactly the stored ones *)
Theorem C12_len_is_reachable_count : forall K st, Inv K st ->
  exists r, t_root st = Some r /\
    (forall i, reach (t_arena st) r i <-> acontains (t_arena st) i = true) /\
    exists nodes, NoDup nodes /\ (forall i, In i nodes <-> reach (t_arena st) r i) /\ length nodes = alen (t_arena st).
Proof. exact inv_len_reachable. Qed.

(* add_root on the empty tree establishes the invariant, whatever key the allocator hands out *)
Theorem C12_add_root : forall K v key, Inv K (out_state (add_root K empty_tree v key)).
Proof. exact add_root_inv. Qed.

(* every operation, successful or failing, with valid or invalid arguments, keeps the invariant *)
Theorem C12_step_inv : forall K st o, Inv K st -> fresh_ok st o -> Inv K (out_state (step K st o)).
Proof. exact step_inv. Qed.

(* an operation that returns an error (or unwinds) leaves the tree as it was *)
Theorem C12_step_failure_leaves_state : forall K st o, Inv K st -> fail_same st (step K st o).
Proof. exact step_fail_same. Qed.

(* surviving nodes keep index and value; only the allocator's key can appear; the root index stays *)
Theorem C12_step_frame : forall K st o, Inv K st -> fresh_ok st o -> frame st o (out_state (step K st o)).
Proof. exact step_frame. Qed.

(* what the operations do *)
Theorem C12_add_child_spec : forall K st p l v key pc,
  aget (t_arena st) key = None -> aget (t_arena st) p = Some pc -> nth_error (c_children pc) l = Some None ->
  exists st', add_child_node K st p l v key = TOk st' (RIdx key) /\
    aget (t_arena st') key = Some (new_cell K v (Some p)) /\
    aget (t_arena st') p = Some (with_children pc (set_nth (c_children pc) l (Some key)) false) /\
    (forall i, i <> key -> i <> p -> aget (t_arena st') i = aget (t_arena st) i).
Proof. exact add_child_spec. Qed.

(* remove_all_descendants terminates (within the fuel), removes exactly the proper descendants of x, clears x,
   and returns the number of removed cells *)
Theorem C12_remove_all_descendants_spec : forall K st r d x cx,
  t_root st = Some r -> AInv K (t_arena st) r d -> aget (t_arena st) x = Some cx ->
  exists a' n, remove_all_descendants st x = TOk (mkT a' (t_root st)) (RCount n) /\
               rad_result (t_arena st) x cx a' /\ n + alen a' = alen (t_arena st).
Proof. exact rad_ok. Qed.

(* histories: all K, all sequences over {add_child_node, try_remove_child, remove_child, remove_all_descendants,
   merge_child_with_parent, update_node}, all arguments, every allocator that returns unoccupied keys *)
Theorem C12_history : forall K ops st, Inv K st -> legal K st ops ->
  along K (step_good K) st ops /\ Inv K (run K st ops).
Proof. exact history_inv. Qed.

Theorem C12_history_alloc : forall K alloc, (forall a, aget a (alloc a) = None) ->
  forall ops st, Inv K st -> Inv K (run_alloc K alloc st ops).
Proof. exact history_alloc. Qed.

(* the executable check the runner evaluates on every dumped arena implies the invariant *)
Theorem C12_invb_sound : forall K st, invb K st = true -> Inv K st.
Proof. exact invb_sound. Qed.

(* D1 (repaired in /repo): add_child_node as found inserted into the slab before looking at the slot; on
   Err(ChildExists) it returned a changed tree holding an unreachable orphan *)
Theorem C12_D1_code_as_found_refuted :
  exists K st p l v key,
    Inv K st /\ aget (t_arena st) key = None /\
    (exists s e, add_child_node_v0 K st p l v key = TErr s e /\ s <> st /\ ~ Inv K s /\
                 acontains (t_arena s) key = true /\ alen (t_arena s) = S (alen (t_arena st))).
Proof. exact add_child_v0_refuted. Qed.

(* non-vacuity: a K = 2 history with failing calls of every kind, deletions, index re-use and a merge *)
Example C12_nonvacuous :
  legal 2 ex_start ex_ops /\
  map (fun i => option_map (fun c => (c_val c, c_parent c, c_children c, c_leaf c)) (aget (t_arena (run 2 ex_start ex_ops)) i)) [0; 1; 2; 3; 4; 5]
  = [Some (10, None, [Some 4; None], false); None; None; None; Some (77, Some 0, [None; None], true); None] /\
  alen (t_arena (run 2 ex_start ex_ops)) = 2 /\
  Inv 2 (run 2 ex_start ex_ops).
Proof. exact ex_history. Qed.

Print Assumptions C12_invariant_content.
Print Assumptions C12_len_is_reachable_count.
Print Assumptions C12_add_root.
Print Assumptions C12_step_inv.
Print Assumptions C12_step_failure_leaves_state.
Print Assumptions C12_step_frame.
Print Assumptions C12_add_child_spec.
Print Assumptions C12_remove_all_descendants_spec.
Print Assumptions C12_history.
Print Assumptions C12_history_alloc.
Print Assumptions C12_invb_sound.
Print Assumptions C12_D1_code_as_found_refuted.
Print Assumptions C12_nonvacuous.

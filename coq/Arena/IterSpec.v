(* Arena/IterSpec.v -- specification level for the traversals (C13).

   * [itree]: an inductive tree of arena indices, children as a list of optional slots (slot number = label);
     [represents a i t]: the cells reachable from index i in arena a unfold to t.
   * direct recursive definitions: [size], [height], [pre] (pre-order items with depth and number of siblings
     still to come), [pree] (pre-order edges), [levels] (level order, level by level).
   * the forest machine: pending subtrees, split into the children of the last returned item ([s_kids]) and the
     rest; [Next] enters the first pending subtree, [Skip] forgets [s_kids] (hence idempotent).  The same machine
     serves the depth-first (children go in front) and the breadth-first (children go to the back) order. *)
From Coq Require Import List Arith Lia Bool.
Import ListNotations.
From AT Require Import Cells Iter.

Inductive itree : Type := IN (i : nat) (ch : list (option itree)).
Definition idx (t : itree) : nat := match t with IN i _ => i end.
Definition slots (t : itree) : list (option itree) := match t with IN _ ch => ch end.
Definition kids (t : itree) : list itree := somes (slots t).

Definition oP (P : itree -> Prop) (o : option itree) : Prop := match o with Some t => P t | None => True end.
Fixpoint itree_ind' (P : itree -> Prop) (H : forall i ch, Forall (oP P) ch -> P (IN i ch)) (t : itree) : P t :=
  match t with
  | IN i ch =>
    H i ch ((fix go (l : list (option itree)) : Forall (oP P) l :=
               match l with
               | [] => Forall_nil _
               | o :: l' => Forall_cons o (match o return oP P o with Some t' => itree_ind' P H t' | None => I end) (go l')
               end) ch)
  end.

(* ---------------------------------------------------------------- represents *)
Definition rep_slots_gen (rep : nat -> itree -> Prop) : list (option nat) -> list (option itree) -> Prop :=
  fix go (os : list (option nat)) (ts : list (option itree)) {struct ts} : Prop :=
    match ts, os with
    | [], [] => True
    | ot :: ts', o :: os' =>
      match o, ot with
      | None, None => True
      | Some k, Some t' => rep k t'
      | _, _ => False
      end /\ go os' ts'
    | _, _ => False
    end.
Fixpoint represents {V} (a : arena V) (i : nat) (t : itree) {struct t} : Prop :=
  match t with
  | IN j ch => j = i /\ exists c, aget a i = Some c /\ rep_slots_gen (represents a) (c_children c) ch
  end.
Definition rep_slots {V} (a : arena V) : list (option nat) -> list (option itree) -> Prop :=
  rep_slots_gen (represents a).
Lemma represents_unfold {V} (a : arena V) i j ch :
  represents a i (IN j ch) <-> j = i /\ exists c, aget a i = Some c /\ rep_slots a (c_children c) ch.
Proof. reflexivity. Qed.
Lemma rep_slots_cons {V} (a : arena V) o os ot ts :
  rep_slots a (o :: os) (ot :: ts) <->
  match o, ot with None, None => True | Some k, Some t' => represents a k t' | _, _ => False end /\ rep_slots a os ts.
Proof. reflexivity. Qed.

(* executable unfolding (for the runner and for examples); fuel bounds the depth *)
Definition unfold_slots (rec : nat -> option itree) : list (option nat) -> option (list (option itree)) :=
  fix go (os : list (option nat)) : option (list (option itree)) :=
    match os with
    | [] => Some []
    | None :: os' => option_map (cons None) (go os')
    | Some k :: os' =>
      match rec k, go os' with
      | Some t, Some ts => Some (Some t :: ts)
      | _, _ => None
      end
    end.
Fixpoint unfold {V} (a : arena V) (fuel : nat) (i : nat) : option itree :=
  match fuel with
  | O => None
  | S f =>
    match aget a i with
    | None => None
    | Some c => option_map (IN i) (unfold_slots (unfold a f) (c_children c))
    end
  end.

(* ---------------------------------------------------------------- direct recursive definitions *)
Definition count_some {A} (l : list (option A)) : nat := length (somes l).

Fixpoint size (t : itree) : nat :=
  match t with IN _ ch => S (list_sum (map (fun o => match o with Some c => size c | None => 0 end) ch)) end.

(* maximum of a list of naturals (0 for the empty list); the same function as the standard library's [list_max]
   ([lmax_list_max]) under names that do not shadow OCaml's [max] in the extracted runner *)
Definition maxn (a b : nat) : nat := if a <=? b then b else a.
Definition lmax (l : list nat) : nat := fold_right maxn 0 l.
Lemma maxn_max a b : maxn a b = Nat.max a b.
Proof. unfold maxn. destruct (Nat.leb_spec a b); lia. Qed.
Lemma lmax_list_max l : lmax l = list_max l.
Proof. induction l as [|x l IH]; [reflexivity|]. simpl. rewrite IH. apply maxn_max. Qed.

(* number of edges on the longest downward path *)
Fixpoint height (t : itree) : nat :=
  match t with IN _ ch => lmax (map (fun o => match o with Some c => S (height c) | None => 0 end) ch) end.

(* pre-order items: the node, then its children's subtrees by ascending label; a child's counter is the number
   of its siblings with a larger label *)
Definition pre_slots_gen (f : nat -> itree -> list nd) : list (option itree) -> list nd :=
  fix go (l : list (option itree)) : list nd :=
    match l with
    | [] => []
    | o :: l' => match o with Some c => f (count_some l') c | None => [] end ++ go l'
    end.
Fixpoint pre (d r : nat) (t : itree) : list nd :=
  match t with IN i ch => mknd d i r :: pre_slots_gen (pre (S d)) ch end.
Definition pre_slots (d : nat) : list (option itree) -> list nd := pre_slots_gen (pre d).
Lemma pre_unfold d r i ch : pre d r (IN i ch) = mknd d i r :: pre_slots (S d) ch.
Proof. reflexivity. Qed.
Lemma pre_slots_cons d o l :
  pre_slots d (o :: l) = match o with Some c => pre d (count_some l) c | None => [] end ++ pre_slots d l.
Proof. reflexivity. Qed.

(* pre-order edges (src, label, dest) below t *)
Definition pree_slots_gen (f : itree -> list (nat * nat * nat)) (i : nat)
  : nat -> list (option itree) -> list (nat * nat * nat) :=
  fix go (lab : nat) (l : list (option itree)) : list (nat * nat * nat) :=
    match l with
    | [] => []
    | o :: l' => match o with Some c => (i, lab, idx c) :: f c | None => [] end ++ go (S lab) l'
    end.
Fixpoint pree (t : itree) : list (nat * nat * nat) :=
  match t with IN i ch => pree_slots_gen pree i 0 ch end.
Definition pree_slots : nat -> nat -> list (option itree) -> list (nat * nat * nat) := pree_slots_gen pree.
Lemma pree_unfold i ch : pree (IN i ch) = pree_slots i 0 ch.
Proof. reflexivity. Qed.
Lemma pree_slots_cons i lab o l :
  pree_slots i lab (o :: l) =
  match o with Some c => (i, lab, idx c) :: pree c | None => [] end ++ pree_slots i (S lab) l.
Proof. reflexivity. Qed.

(* ---------------------------------------------------------------- forest entries *)
Definition sent : Type := (nat * nat * itree)%type.            (* depth, siblings still to come, subtree *)
Definition sent_item (se : sent) : nd := let '(d, r, t) := se in mknd d (idx t) r.
Definition sent_size (se : sent) : nat := let '(_, _, t) := se in size t.
Fixpoint tagk (d : nat) (l : list (option itree)) : list sent :=
  match l with
  | [] => []
  | None :: l' => tagk d l'
  | Some c :: l' => (d, count_some l', c) :: tagk d l'
  end.
Definition expandS_pre (se : sent) : list sent := let '(d, _, t) := se in tagk (S d) (slots t).

Definition sedge : Type := (nat * nat * nat * itree)%type.    (* depth, src, label, subtree at dest *)
Definition sedge_item (se : sedge) : nat * nat * nat := let '(_, s, l, t) := se in (s, l, idx t).
Definition sedge_size (se : sedge) : nat := let '(_, _, _, t) := se in size t.
Fixpoint tage (d src lab : nat) (l : list (option itree)) : list sedge :=
  match l with
  | [] => []
  | None :: l' => tage d src (S lab) l'
  | Some c :: l' => (d, src, lab, c) :: tage d src (S lab) l'
  end.
Definition expandS_edge (se : sedge) : list sedge := let '(d, _, _, t) := se in tage (S d) (idx t) 0 (slots t).

(* level order, level by level: the current level, then the children (ascending label) of its members in order *)
Fixpoint levels {SE} (expandS : SE -> list SE) (n : nat) (p : list SE) : list SE :=
  match n with O => [] | S n' => p ++ levels expandS n' (flat_map expandS p) end.
Fixpoint level {SE} (expandS : SE -> list SE) (k : nat) (p : list SE) : list SE :=
  match k with O => p | S k' => level expandS k' (flat_map expandS p) end.
Definition level_order (t : itree) : list nd := map sent_item (levels expandS_pre (size t) [(0, 0, t)]).

(* ---------------------------------------------------------------- the forest machine *)
Record sst (SE : Type) : Type := mksst { s_kids : list SE; s_rest : list SE }.
Arguments mksst {SE}. Arguments s_kids {SE}. Arguments s_rest {SE}.
Definition s_pend {SE} (fifo : bool) (s : sst SE) : list SE :=
  if fifo then s_rest s ++ s_kids s else s_kids s ++ s_rest s.
Definition s_next {SE} (fifo : bool) (expandS : SE -> list SE) (s : sst SE) : option SE * sst SE :=
  match s_pend fifo s with
  | [] => (None, s)
  | e :: r => (Some e, mksst (expandS e) r)
  end.
Definition s_skip {SE} (s : sst SE) : sst SE := mksst [] (s_rest s).

Definition total {SE} (ssize : SE -> nat) (p : list SE) : nat := list_sum (map ssize p).
(* number of items still to come if no further Skip is issued (theorem remaining_is_future) *)
Definition remaining {SE} (fifo : bool) (ssize : SE -> nat) (s : sst SE) : nat := total ssize (s_pend fifo s).

Inductive sobs (SE : Type) : Type :=
| SNext (o : option SE) (rem : nat)
| SSkip (rem : nat).
Arguments SNext {SE}. Arguments SSkip {SE}.

Fixpoint s_run {SE} (fifo : bool) (expandS : SE -> list SE) (ssize : SE -> nat) (sc : list cmd) (s : sst SE)
  : list (sobs SE) :=
  match sc with
  | [] => []
  | Next :: sc' =>
    let '(o, s') := s_next fifo expandS s in
    SNext o (remaining fifo ssize s') :: s_run fifo expandS ssize sc' s'
  | Skip :: sc' =>
    let s' := s_skip s in SSkip (remaining fifo ssize s') :: s_run fifo expandS ssize sc' s'
  end.
Fixpoint s_exec {SE} (fifo : bool) (expandS : SE -> list SE) (sc : list cmd) (s : sst SE) : sst SE :=
  match sc with
  | [] => s
  | Next :: sc' => s_exec fifo expandS sc' (snd (s_next fifo expandS s))
  | Skip :: sc' => s_exec fifo expandS sc' (s_skip s)
  end.

(* the items that are still to come when only Next is issued: run the pending forest to exhaustion *)
Fixpoint drain {SE} (fifo : bool) (expandS : SE -> list SE) (fuel : nat) (p : list SE) : list SE :=
  match fuel, p with
  | S f, e :: r => e :: drain fifo expandS f (if fifo then r ++ expandS e else expandS e ++ r)
  | _, _ => []
  end.
Definition future {SE} (fifo : bool) (expandS : SE -> list SE) (ssize : SE -> nat) (p : list SE) : list SE :=
  drain fifo expandS (total ssize p) p.

(* the three specification machines *)
Definition spec_pre_init (t : itree) : sst sent := mksst [] [(0, 0, t)].
Definition spec_pre_run (sc : list cmd) (t : itree) : list (sobs sent) :=
  s_run false expandS_pre sent_size sc (spec_pre_init t).
Definition spec_bfs_run (sc : list cmd) (t : itree) : list (sobs sent) :=
  s_run true expandS_pre sent_size sc (spec_pre_init t).
Definition spec_edge_init (t : itree) : sst sedge := mksst (tage 1 (idx t) 0 (slots t)) [].
Definition spec_edge_run (sc : list cmd) (t : itree) : list (sobs sedge) :=
  s_run false expandS_edge sedge_size sc (spec_edge_init t).

(* ---------------------------------------------------------------- subtrees *)
Inductive subtree : itree -> itree -> Prop :=
| sub_refl : forall t, subtree t t
| sub_child : forall t i ch c, In (Some c) ch -> subtree t c -> subtree t (IN i ch).

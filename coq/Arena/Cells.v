(* Arena/Cells.v -- the slab arena as a list of optional cells indexed by key. *)
From Coq Require Import List Arith Lia Bool.
Import ListNotations.

Record cell (V : Type) := mkcell { c_val : V; c_parent : option nat; c_children : list (option nat); c_leaf : bool }.
Arguments mkcell {V}. Arguments c_val {V}. Arguments c_parent {V}. Arguments c_children {V}. Arguments c_leaf {V}.

Definition arena (V : Type) := list (option (cell V)).

Definition aget {V} (a : arena V) (i : nat) : option (cell V) :=
  match nth_error a i with Some (Some c) => Some c | _ => None end.
Definition acontains {V} (a : arena V) (i : nat) : bool :=
  match aget a i with Some _ => true | None => false end.
Fixpoint aset {V} (a : arena V) (i : nat) (c : option (cell V)) : arena V :=
  match i, a with
  | O, [] => [c]
  | O, _ :: a' => c :: a'
  | S i', [] => None :: aset [] i' c
  | S i', x :: a' => x :: aset a' i' c
  end.
Definition alen {V} (a : arena V) : nat := length (filter (fun o => match o with Some _ => true | None => false end) a).
Definition akeys {V} (a : arena V) : list nat :=
  map fst (filter (fun p => match snd p with Some _ => true | None => false end) (combine (seq 0 (length a)) a)).

Lemma aget_aset_same {V} (a : arena V) i c : aget (aset a i c) i = c.
Proof.
  unfold aget. revert a; induction i as [|i IH]; intros [|x a]; simpl; auto;
    try (destruct c; auto; fail).
  all: try apply (IH []).
Qed.
Lemma aget_nil {V} i : @aget V [] i = None.
Proof. unfold aget. destruct i; auto. Qed.
Lemma aget_aset_other {V} (a : arena V) i j c : i <> j -> aget (aset a i c) j = aget a j.
Proof.
  unfold aget. revert a j; induction i as [|i IH]; intros [|x a] [|j] H; simpl; auto; try congruence.
  all: try (destruct j; auto; fail).
  all: try (rewrite (IH [] j) by congruence; destruct j; auto; fail).
  all: try (apply IH; congruence).
Qed.

(* Arena/Tree.v -- executable model of the generic Tree<N,K> of /repo/src/tree/graph.rs (C12).
   The operations are modelled exactly as coded, effect by effect, over `arena nat` (node value = a nat payload).
   The slab allocator is an oracle: every inserting operation takes the key the allocator returns as an argument.
   Outcomes are three-valued; the state carried by TErr / TPanic is the state at the moment the operation
   returned the error / unwound (what a caller holding the tree observes afterwards). *)
From Coq Require Import List Arith Lia Bool.
From AT Require Import Cells.
Import ListNotations.

Record tstate := mkT { t_arena : arena nat; t_root : option nat }.

Inductive errkind := EInvalidIndex | EMissingChild | EMissingParent | ENodeExists | EChildExists | ERootNode | ENodeNotFound.
Inductive retval := RIdx (i : nat) | RVal (v : nat) | RCount (n : nat) | RNode (c : cell nat).
Inductive outcome := TOk (s : tstate) (r : retval) | TErr (s : tstate) (e : errkind) | TPanic (s : tstate).
Inductive lres (A : Type) := LOk (x : A) | LErr (e : errkind) | LPanic.
Arguments LOk {A}. Arguments LErr {A}. Arguments LPanic {A}.

Definition out_state (o : outcome) : tstate :=
  match o with TOk s _ => s | TErr s _ => s | TPanic s => s end.

(* ---------------------------------------------------------------- children arrays [Option<TreeIndex>; K] *)
Fixpoint set_nth {A} (l : list A) (n : nat) (x : A) : list A :=
  match l, n with
  | [], _ => []
  | _ :: t, O => x :: t
  | h :: t, S n' => h :: set_nth t n' x
  end.
Definition is_none (o : option nat) : bool := match o with None => true | Some _ => false end.
Definition all_none (l : list (option nat)) : bool := forallb is_none l.
Fixpoint somes (l : list (option nat)) : list nat :=
  match l with [] => [] | Some x :: t => x :: somes t | None :: t => somes t end.
Definition count_some (l : list (option nat)) : nat := length (somes l).
(* linear search of Tree::parent for the label under which `i` is stored *)
Fixpoint find_label (l : list (option nat)) (i : nat) : option nat :=
  match l with
  | [] => None
  | Some j :: t => if Nat.eqb j i then Some 0 else option_map S (find_label t i)
  | None :: t => option_map S (find_label t i)
  end.

Definition new_cell (K v : nat) (p : option nat) : cell nat := mkcell v p (repeat None K) true.
Definition with_children (c : cell nat) (ch : list (option nat)) (lf : bool) : cell nat :=
  mkcell (c_val c) (c_parent c) ch lf.
Definition with_parent (c : cell nat) (p : option nat) : cell nat :=
  mkcell (c_val c) p (c_children c) (c_leaf c).
Definition with_val (c : cell nat) (v : nat) : cell nat :=
  mkcell v (c_parent c) (c_children c) (c_leaf c).

(* Slab::remove *)
Definition aremove (a : arena nat) (i : nat) : arena nat := aset a i None.

(* ---------------------------------------------------------------- lookups: Tree::child, Tree::parent *)
Definition t_child (a : arena nat) (i l : nat) : lres nat :=
  match aget a i with
  | None => LErr EInvalidIndex
  | Some c =>
    match nth_error (c_children c) l with
    | None => LPanic                                  (* children[label], label >= K *)
    | Some None => LErr EMissingChild
    | Some (Some j) => match aget a j with None => LErr EInvalidIndex | Some _ => LOk j end
    end
  end.
Definition t_parent (a : arena nat) (i : nat) : lres (nat * nat) :=
  match aget a i with
  | None => LErr EInvalidIndex
  | Some c =>
    match c_parent c with
    | None => LErr EMissingParent
    | Some p =>
      match aget a p with
      | None => LErr EInvalidIndex
      | Some pc => match find_label (c_children pc) i with Some l => LOk (p, l) | None => LPanic end
      end
    end
  end.

(* ---------------------------------------------------------------- add_root *)
Definition add_root (K : nat) (st : tstate) (v key : nat) : outcome :=
  TOk (mkT (aset (t_arena st) key (Some (new_cell K v None))) (Some key)) (RIdx key).

(* ---------------------------------------------------------------- add_child_node
   v0 = the code as found (insert, clear the leaf flag, only then look at the slot): defect D1.
   add_child_node = the repaired code (look at the slot first). *)
Definition add_child_node_v0 (K : nat) (st : tstate) (parent label v key : nat) : outcome :=
  let a := t_arena st in
  match aget a parent with
  | None => TErr st EInvalidIndex
  | Some _ =>
    let a1 := aset a key (Some (new_cell K v (Some parent))) in
    match aget a1 parent with
    | None => TPanic (mkT a1 (t_root st))
    | Some pc =>
      let a2 := aset a1 parent (Some (with_children pc (c_children pc) false)) in
      match nth_error (c_children pc) label with
      | None => TPanic (mkT a2 (t_root st))
      | Some (Some _) => TErr (mkT a2 (t_root st)) EChildExists
      | Some None =>
        TOk (mkT (aset a2 parent (Some (with_children pc (set_nth (c_children pc) label (Some key)) false))) (t_root st))
            (RIdx key)
      end
    end
  end.

Definition add_child_node (K : nat) (st : tstate) (parent label v key : nat) : outcome :=
  let a := t_arena st in
  match aget a parent with
  | None => TErr st EInvalidIndex
  | Some pc0 =>
    match nth_error (c_children pc0) label with
    | None => TPanic st
    | Some (Some _) => TErr st EChildExists
    | Some None =>
      let a1 := aset a key (Some (new_cell K v (Some parent))) in
      match aget a1 parent with
      | None => TPanic (mkT a1 (t_root st))
      | Some pc =>
        TOk (mkT (aset a1 parent (Some (with_children pc (set_nth (c_children pc) label (Some key)) false))) (t_root st))
            (RIdx key)
      end
    end
  end.

(* ---------------------------------------------------------------- remove_all_descendants
   The Vec used as a stack is a list whose head is the top; pushing c_0..c_k in label order leaves c_k on top.
   One iteration removes one occupied cell, so alen a + 1 iterations of fuel are never exhausted. *)
Fixpoint rad_loop (fuel : nat) (stack : list nat) (a : arena nat) (n : nat) : bool * arena nat * nat :=
  match fuel with
  | O => (false, a, n)
  | S f =>
    match stack with
    | [] => (true, a, n)
    | j :: rest =>
      match aget a j with
      | None => (false, a, n)                          (* expect("data structure corrupted ...") *)
      | Some cj => rad_loop f (rev (somes (c_children cj)) ++ rest) (aremove a j) (S n)
      end
    end
  end.

Definition remove_all_descendants (st : tstate) (x : nat) : outcome :=
  let a := t_arena st in
  match aget a x with
  | None => TErr st EInvalidIndex
  | Some cx =>
    let kids := somes (c_children cx) in
    if forallb (acontains a) kids then                 (* children(): node_value(child).unwrap() *)
      match rad_loop (S (alen a)) (rev kids) a 0 with
      | (false, a1, _) => TPanic (mkT a1 (t_root st))
      | (true, a1, n) =>
        match aget a1 x with
        | None => TPanic (mkT a1 (t_root st))
        | Some c =>
          TOk (mkT (aset a1 x (Some (with_children c (map (fun _ => None) (c_children c)) true))) (t_root st)) (RCount n)
        end
      end
    else TPanic st
  end.

(* ---------------------------------------------------------------- try_remove_child / remove_child *)
Definition try_remove_child (st : tstate) (parent label : nat) : outcome :=
  match t_child (t_arena st) parent label with
  | LErr e => TErr st e
  | LPanic => TPanic st
  | LOk child =>
    match remove_all_descendants st child with
    | TErr s e => TErr s e
    | TPanic s => TPanic s
    | TOk s1 _ =>
      let a1 := t_arena s1 in
      match aget a1 parent with
      | None => TPanic s1
      | Some pc =>
        match nth_error (c_children pc) label with
        | None => TPanic s1
        | Some _ =>
          let ch := set_nth (c_children pc) label None in
          let a2 := aset a1 parent (Some (with_children pc ch (if all_none ch then true else c_leaf pc))) in
          match aget a2 child with
          | None => TPanic (mkT a2 (t_root s1))
          | Some cc => TOk (mkT (aremove a2 child) (t_root s1)) (RVal (c_val cc))
          end
        end
      end
    end
  end.

Definition remove_child (st : tstate) (parent label : nat) : outcome :=
  match try_remove_child st parent label with
  | TErr s _ => TPanic s                               (* .expect("invalid index") *)
  | o => o
  end.

(* ---------------------------------------------------------------- merge_child_with_parent *)
Definition merge_child_with_parent (st : tstate) (p label : nat) : outcome :=
  let a := t_arena st in
  match aget a p with
  | None => TPanic st                                  (* self.arena[node] in num_children *)
  | Some pc =>
    if Nat.eqb (count_some (c_children pc)) 1 then
      if (match t_root st with Some r => Nat.eqb r p | None => false end) then TErr st ERootNode
      else
        match t_child a p label with
        | LErr e => TErr st e
        | LPanic => TPanic st
        | LOk c =>
          match t_parent a p with
          | LErr e => TErr st e
          | LPanic => TPanic st
          | LOk (g, gl) =>
            match aget a g with
            | None => TPanic st
            | Some gc =>
              let a1 := aset a g (Some (with_children gc (set_nth (c_children gc) gl (Some c)) (c_leaf gc))) in
              match aget a1 c with
              | None => TPanic (mkT a1 (t_root st))
              | Some cc =>
                let a2 := aset a1 c (Some (with_parent cc (Some g))) in
                match aget a2 p with
                | None => TPanic (mkT a2 (t_root st))
                | Some pc2 => TOk (mkT (aremove a2 p) (t_root st)) (RNode pc2)
                end
              end
            end
          end
        end
    else TPanic st                                     (* assert!(num_children == 1) *)
  end.

(* ---------------------------------------------------------------- update_node *)
Definition update_node (st : tstate) (i v : nat) : outcome :=
  match aget (t_arena st) i with
  | None => TErr st EInvalidIndex
  | Some c => TOk (mkT (aset (t_arena st) i (Some (with_val c v))) (t_root st)) (RVal (c_val c))
  end.

(* ---------------------------------------------------------------- operations and histories *)
Inductive op :=
| OAddChild (parent label v key : nat)     (* key = the allocator oracle's answer *)
| OTryRemove (parent label : nat)
| ORemove (parent label : nat)
| ORemoveDesc (x : nat)
| OMerge (p label : nat)
| OUpdate (i v : nat).

Definition step (K : nat) (st : tstate) (o : op) : outcome :=
  match o with
  | OAddChild p l v key => add_child_node K st p l v key
  | OTryRemove p l => try_remove_child st p l
  | ORemove p l => remove_child st p l
  | ORemoveDesc x => remove_all_descendants st x
  | OMerge p l => merge_child_with_parent st p l
  | OUpdate i v => update_node st i v
  end.
(* the code as found *)
Definition step_v0 (K : nat) (st : tstate) (o : op) : outcome :=
  match o with
  | OAddChild p l v key => add_child_node_v0 K st p l v key
  | _ => step K st o
  end.

Fixpoint run (K : nat) (st : tstate) (ops : list op) : tstate :=
  match ops with
  | [] => st
  | o :: r => run K (out_state (step K st o)) r
  end.

(* the only thing assumed of the allocator: the key it returns is unoccupied in the arena it is asked to extend *)
Definition fresh_ok (st : tstate) (o : op) : Prop :=
  match o with
  | OAddChild _ _ _ key => aget (t_arena st) key = None
  | _ => True
  end.
Fixpoint legal (K : nat) (st : tstate) (ops : list op) : Prop :=
  match ops with
  | [] => True
  | o :: r => fresh_ok st o /\ legal K (out_state (step K st o)) r
  end.

Definition empty_tree : tstate := mkT [] None.

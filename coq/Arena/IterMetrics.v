(* Arena/IterMetrics.v -- num_nodes, num_terminals, depth, depth_stats, path_to_node and the index-order iterators
   of /repo/src/tree/graph.rs as coded (on the arena), and their direct recursive counterparts on [itree]. *)
From Coq Require Import List Arith Lia Bool ZArith QArith Qcanon.
Import ListNotations.
From AT Require Import Num Cells Iter IterSpec.

(* ---------------------------------------------------------------- as coded *)
(* `for data in iter` / `.count()` / `.map(..).max()`: call next until it returns None.  The fuel only serves
   termination: alen a + 1 calls suffice on a tree (theorem collect_pre); a cyclic arena makes the Rust loop
   diverge, the model then returns what it has. *)
Fixpoint m_collect {E} (fifo : bool) (expand : E -> option (list E)) (fuel : nat) (m : mach E) : res (list E) :=
  match fuel with
  | O => ROk []
  | S f =>
    match m_next fifo expand m with
    | RPanic => RPanic
    | ROk (None, _) => ROk []
    | ROk (Some e, m') =>
      match m_collect fifo expand f m' with RPanic => RPanic | ROk l => ROk (e :: l) end
    end
  end.
Definition dfs_iter {V} (a : arena V) (troot start : nat) : res (list nd) :=
  m_collect false (expand_pre a) (S (alen a)) (dfspre_new a troot start).
Definition res_map {A B} (f : A -> B) (r : res A) : res B := match r with ROk x => ROk (f x) | RPanic => RPanic end.

(* DfsPre::iter(self, node).count() *)
Definition num_nodes {V} (a : arena V) (troot node : nat) : res nat := res_map (@length nd) (dfs_iter a troot node).
(* self.dfs_iter().map(|data| data.depth).max().unwrap_or(0) *)
Definition depth_of {V} (a : arena V) (troot : nat) : res nat :=
  res_map (fun l => lmax (map n_depth l)) (dfs_iter a troot troot).
(* self.is_leaf(idx).unwrap_or(false) *)
Definition leafb {V} (a : arena V) (i : nat) : bool := match aget a i with Some c => c_leaf c | None => false end.
(* depths of the terminals in dfs order: what depth_stats feeds into Min / Max / Variance *)
Definition terminal_depths {V} (a : arena V) (troot : nat) : res (list nat) :=
  res_map (fun l => map n_depth (filter (fun e => leafb a (n_index e)) l)) (dfs_iter a troot troot).

(* index-order iterators: arena.iter() [.filter(isleaf)] *)
Definition node_indices {V} (a : arena V) : list nat := akeys a.
Definition terminal_indices {V} (a : arena V) : list nat := filter (leafb a) (akeys a).
Definition decision_indices {V} (a : arena V) : list nat := filter (fun i => negb (leafb a i)) (akeys a).
Definition num_terminals {V} (a : arena V) : nat := length (terminal_indices a).

(* the statistics of a sample of depths, exactly: min, mean, sample variance (None below two samples: the
   `average` crate returns NaN), max *)
Definition qnat (n : nat) : Qc := qz (Z.of_nat n).
Definition qsum (l : list Qc) : Qc := fold_right Qcplus 0%Qc l.
Definition sample_mean (l : list nat) : option Qc :=
  match l with [] => None | _ => Some (qsum (map qnat l) / qnat (length l))%Qc end.
Definition sample_var (l : list nat) : option Qc :=
  match sample_mean l with
  | None => None
  | Some mu =>
    if length l <? 2 then None
    else Some (qsum (map (fun x => (qnat x - mu) * (qnat x - mu)) l) / qnat (length l - 1))%Qc
  end.
Definition minn (a b : nat) : nat := if a <=? b then a else b.
Definition list_min (l : list nat) : option nat :=
  match l with [] => None | x :: l' => Some (fold_left minn l' x) end.
Definition list_max_opt (l : list nat) : option nat :=
  match l with [] => None | _ => Some (lmax l) end.

(* path_to_node: Err if the index is not in the arena; else follow the parent pointers, looking the label up in
   the parent's children by linear search (panic if the parent does not list the node; Err(InvalidIndex) if a
   parent pointer dangles); the path is reversed at the end.  Outcome: RPanic | ROk None (= Err) | ROk (Some path).
   Fuel: a parent chain in an arena with alen a cells that is longer than alen a is cyclic -- the Rust loop would
   not terminate; modelled as RPanic. *)
Fixpoint find_label (ch : list (option nat)) (lab target : nat) : option nat :=
  match ch with
  | [] => None
  | o :: ch' =>
    match o with
    | Some x => if x =? target then Some lab else find_label ch' (S lab) target
    | None => find_label ch' (S lab) target
    end
  end.
Fixpoint path_up {V} (a : arena V) (fuel cur : nat) (acc : list (nat * nat)) : res (option (list (nat * nat))) :=
  match fuel with
  | O => RPanic
  | S f =>
    match aget a cur with
    | None => ROk None
    | Some c =>
      match c_parent c with
      | None => ROk (Some acc)
      | Some p =>
        match aget a p with
        | None => ROk None
        | Some pc =>
          match find_label (c_children pc) 0 cur with
          | None => RPanic
          | Some l => path_up a f p ((p, l) :: acc)
          end
        end
      end
    end
  end.
Definition path_to_node {V} (a : arena V) (node : nat) : res (option (list (nat * nat))) :=
  if acontains a node then path_up a (S (alen a)) node [] else ROk None.

(* depth_stats: (min, mean, sample variance, max) of the depths of the terminals in dfs order.  The accumulators of
   the `average` crate (Min, Max, Variance: Welford's update in f64) are third-party code and are modelled by what
   they compute: the exact minimum / maximum, the exact mean and the exact sample variance (NaN = None below two
   samples; min/max of an empty sample cannot occur, a tree has a terminal). *)
Definition stats_of (l : list nat) : option nat * option Qc * option Qc * option nat :=
  (list_min l, sample_mean l, sample_var l, list_max_opt l).
Definition depth_stats {V} (a : arena V) (troot : nat) : res (option nat * option Qc * option Qc * option nat) :=
  res_map stats_of (terminal_depths a troot).

(* ---------------------------------------------------------------- direct definitions on the tree *)
Definition no_kids (ch : list (option itree)) : bool := forallb (fun o => match o with None => true | Some _ => false end) ch.
(* the nodes of t, in pre-order, that have no children (want = true) resp. have children (want = false), each
   mapped through f depth index *)
Fixpoint selmap {B} (want : bool) (f : nat -> nat -> B) (d : nat) (t : itree) : list B :=
  match t with
  | IN i ch =>
    (if Bool.eqb (no_kids ch) want then [f d i] else []) ++
    flat_map (fun o => match o with Some c => selmap want f (S d) c | None => [] end) ch
  end.
(* depths of the nodes without children, left to right *)
Definition leafdepths (d : nat) (t : itree) : list nat := selmap true (fun d _ => d) d t.
Definition nleaves (t : itree) : nat := length (leafdepths 0 t).
(* indices of the nodes without / with children, in pre-order *)
Definition leaf_indices (t : itree) : list nat := selmap true (fun _ i => i) 0 t.
Definition inner_indices (t : itree) : list nat := selmap false (fun _ i => i) 0 t.
(* indices in pre-order *)
Definition indices (t : itree) : list nat := map n_index (pre 0 0 t).
Fixpoint idxs (t : itree) : list nat :=
  match t with IN i ch => i :: flat_map (fun o => match o with Some c => idxs c | None => [] end) ch end.
(* executable form of the invariant [minv] of IterMetricsProofs.v (sound: minvb_sound); the runner evaluates it on
   every dumped arena, it returns the tree the arena unfolds to *)
Definition all_noneb (l : list (option nat)) : bool :=
  forallb (fun o => match o with None => true | Some _ => false end) l.
Fixpoint nodupb (l : list nat) : bool :=
  match l with [] => true | x :: l' => negb (existsb (Nat.eqb x) l') && nodupb l' end.
Definition cell_okb {V} (a : arena V) (i : nat) (c : cell V) : bool :=
  Bool.eqb (c_leaf c) (all_noneb (c_children c)) &&
  forallb (fun o => match o with
                    | None => true
                    | Some j => match aget a j with
                                | Some cj => match c_parent cj with Some p => p =? i | None => false end
                                | None => false
                                end
                    end) (c_children c) &&
  nodupb (somes (c_children c)).
Definition minvb {V} (a : arena V) (r : nat) : option itree :=
  match unfold a (S (length a)) r with
  | None => None
  | Some T =>
    if (alen a =? size T) && nodupb (idxs T) &&
       match aget a r with Some c => match c_parent c with None => true | Some _ => false end | None => false end &&
       forallb (fun i => match aget a i with Some c => cell_okb a i c | None => true end) (seq 0 (length a))
    then Some T else None
  end.

Definition depth_stats_direct (t : itree) : option nat * option Qc * option Qc * option nat := stats_of (leafdepths 0 t).
(* the path (node, label) .. from the root of t down to the node with index target *)
Definition path_slots_gen (f : itree -> option (list (nat * nat))) (i : nat)
  : nat -> list (option itree) -> option (list (nat * nat)) :=
  fix go (lab : nat) (l : list (option itree)) : option (list (nat * nat)) :=
    match l with
    | [] => None
    | o :: l' =>
      match (match o with Some c => f c | None => None end) with
      | Some p => Some ((i, lab) :: p)
      | None => go (S lab) l'
      end
    end.
Fixpoint path_find (target : nat) (t : itree) : option (list (nat * nat)) :=
  match t with
  | IN i ch => if i =? target then Some [] else path_slots_gen (path_find target) i 0 ch
  end.
Definition path_slots (target i : nat) : nat -> list (option itree) -> option (list (nat * nat)) :=
  path_slots_gen (path_find target) i.
Lemma path_find_unfold target i ch :
  path_find target (IN i ch) = if i =? target then Some [] else path_slots target i 0 ch.
Proof. reflexivity. Qed.
Lemma path_slots_cons target i lab o l :
  path_slots target i lab (o :: l) =
  match (match o with Some c => path_find target c | None => None end) with
  | Some p => Some ((i, lab) :: p)
  | None => path_slots target i (S lab) l
  end.
Proof. reflexivity. Qed.

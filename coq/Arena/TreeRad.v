(* Arena/TreeRad.v -- remove_all_descendants: the stack loop removes exactly the proper descendants of its
   argument (loop invariant relative to the initial arena), terminates within the fuel, and the invariant is kept. *)
From Coq Require Import List Arith Lia Bool.
From AT Require Import Cells Tree TreeLemmas TreeInv.
Import ListNotations.

(* i is a proper descendant of x (following parent links from i reaches x) *)
Inductive desc (a : arena nat) (x : nat) : nat -> Prop :=
| desc_child i ci : aget a i = Some ci -> c_parent ci = Some x -> desc a x i
| desc_step i ci p : aget a i = Some ci -> c_parent ci = Some p -> desc a x p -> desc a x i.

Lemma desc_has_parent a x i : desc a x i -> exists ci p, aget a i = Some ci /\ c_parent ci = Some p.
Proof. intros H; inversion H; eauto. Qed.

Lemma desc_rank K a r d x i : AInv K a r d -> desc a x i -> d x < d i.
Proof.
  intros HI H. induction H as [i ci H1 H2 | i ci p H1 H2 H3 IH].
  - eapply inv_rank; eauto.
  - pose proof (inv_rank _ _ _ _ HI _ _ _ H1 H2). lia.
Qed.

Lemma desc_down a j i : desc a j i ->
  exists c cc, aget a c = Some cc /\ c_parent cc = Some j /\ (i = c \/ desc a c i).
Proof.
  intros H. induction H as [i ci H1 H2 | i ci p H1 H2 H3 [c [cc [G1 [G2 G3]]]]].
  - exists i, ci. auto.
  - exists c, cc. split; auto. split; auto. right. destruct G3 as [->|G3].
    + eapply desc_child; eauto.
    + eapply desc_step; eauto.
Qed.

Lemma NoDup_app_intro {A} (l1 l2 : list A) :
  NoDup l1 -> NoDup l2 -> (forall x, In x l1 -> ~ In x l2) -> NoDup (l1 ++ l2).
Proof.
  induction l1 as [|h t IH]; simpl; intros H1 H2 H; auto.
  inversion H1; subst. constructor.
  - rewrite in_app_iff. intros [G|G]; [auto | eapply H; eauto].
  - apply IH; auto.
Qed.

Lemma NoDup_somes ch :
  (forall l l' j, nth_error ch l = Some (Some j) -> nth_error ch l' = Some (Some j) -> l = l') -> NoDup (somes ch).
Proof.
  induction ch as [|[x|] t IH]; simpl; intros H.
  - constructor.
  - constructor.
    + intros G. apply In_somes in G as [n G]. specialize (H 0 (S n) x eq_refl G). discriminate.
    + apply IH. intros l l' j G1 G2. specialize (H (S l) (S l') j G1 G2). lia.
  - apply IH. intros l l' j G1 G2. specialize (H (S l) (S l') j G1 G2). lia.
Qed.

(* ---------------------------------------------------------------- the loop invariant *)
Record LI (a : arena nat) (x : nat) (ak : arena nat) (s : list nat) : Prop := {
  li_sub : forall i, aget ak i = aget a i \/ aget ak i = None;
  li_removed : forall i ci, aget a i = Some ci -> aget ak i = None -> desc a x i;
  li_nodup : NoDup s;
  li_stack : forall j, In j s -> (exists cj, aget ak j = Some cj) /\ desc a x j;
  li_cover : forall i ci, desc a x i -> aget ak i = Some ci -> exists j, In j s /\ (i = j \/ desc a j i);
  li_top : forall j cj, In j s -> aget a j = Some cj ->
           c_parent cj = Some x \/ exists p, c_parent cj = Some p /\ aget ak p = None;
  li_order : forall i ci, aget a i = Some ci -> aget ak i = None ->
             c_parent ci = Some x \/ exists p, c_parent ci = Some p /\ aget ak p = None
}.

Lemma li_init K a r d x cx : AInv K a r d -> aget a x = Some cx -> LI a x a (rev (somes (c_children cx))).
Proof.
  intros HI Hx. pose proof HI as [Hroot Hlen Hleaf Hdown Hup Hslot Huroot Hrank].
  assert (Kid : forall c, In c (rev (somes (c_children cx))) -> exists cc, aget a c = Some cc /\ c_parent cc = Some x).
  { intros c Hc. apply in_rev, In_somes in Hc as [l Hl]. eauto. }
  constructor.
  - auto.
  - intros i ci H1 H2. congruence.
  - apply NoDup_rev. apply NoDup_somes. intros l l' j. eauto.
  - intros j Hj. destruct (Kid _ Hj) as [cc [G1 G2]]. split; eauto. eapply desc_child; eauto.
  - intros i ci Hd Hi. destruct (desc_down _ _ _ Hd) as [c [cc [G1 [G2 G3]]]].
    exists c. split; auto. apply in_rev. rewrite rev_involutive. apply In_somes.
    destruct (Hup _ _ _ G1 G2) as [cx' [l [E1 E2]]]. rewrite Hx in E1; some_inv. eauto.
  - intros j cj Hj Hc. destruct (Kid _ Hj) as [cc [G1 G2]]. left. congruence.
  - intros i ci H1 H2. congruence.
Qed.

Lemma li_step K a r d x ak j rest cj :
  AInv K a r d -> LI a x ak (j :: rest) -> aget ak j = Some cj ->
  LI a x (aremove ak j) (rev (somes (c_children cj)) ++ rest).
Proof.
  intros HI [Isub Irem Ind Istk Icov Itop Iord] Hj.
  pose proof HI as [Hroot Hlen Hleaf Hdown Hup Hslot Huroot Hrank].
  assert (Haj : aget a j = Some cj) by (destruct (Isub j) as [E|E]; congruence).
  assert (Dj : desc a x j) by (apply Istk; left; auto).
  assert (Rj : d x < d j) by (eapply desc_rank; eauto).
  assert (Hk : forall i, aget (aremove ak j) i = if Nat.eqb j i then None else aget ak i).
  { intros i. unfold aremove. apply aget_aset. }
  inversion Ind as [|? ? Nj Nrest]; subst.
  (* the children of j: stored, with parent j, still present, not on the stack *)
  assert (Kid : forall c, In c (rev (somes (c_children cj)) ++ rest) -> ~ In c rest ->
                exists cc, aget a c = Some cc /\ c_parent cc = Some j).
  { intros c Hc Hn. apply in_app_iff in Hc as [Hc|Hc]; [|tauto].
    apply in_rev, In_somes in Hc as [l Hl]. eauto. }
  assert (KidP : forall c cc, aget a c = Some cc -> c_parent cc = Some j -> aget ak c = Some cc /\ c <> j /\ ~ In c rest).
  { intros c cc G1 G2.
    assert (c <> j) by (intros ->; pose proof (Hrank _ _ _ G1 G2); lia).
    split; [|split; auto].
    - destruct (Isub c) as [E|E]; [congruence|].
      destruct (Iord _ _ G1 E) as [E'|[p [E1 E2]]]; [assert (j = x) by congruence; subst; lia | congruence].
    - intros Hin. destruct (Itop c cc (or_intror Hin) G1) as [E'|[p [E1 E2]]];
        [assert (j = x) by congruence; subst; lia | congruence]. }
  constructor.
  - intros i. rewrite Hk. destruct (Nat.eqb j i); auto.
  - intros i ci H1 H2. rewrite Hk in H2. destruct (Nat.eqb_spec j i) as [<-|N]; eauto.
  - apply NoDup_app_intro; auto.
    + apply NoDup_rev. apply NoDup_somes. intros l l' k. eauto.
    + intros c Hc. apply in_rev, In_somes in Hc as [l Hl].
      destruct (Hdown _ _ _ _ Haj Hl) as [cc [G1 G2]]. apply (KidP _ _ G1 G2).
  - intros c Hc. rewrite Hk. apply in_app_iff in Hc as [Hc|Hc].
    + apply in_rev, In_somes in Hc as [l Hl].
      destruct (Hdown _ _ _ _ Haj Hl) as [cc [G1 G2]]. destruct (KidP _ _ G1 G2) as [P1 [P2 P3]].
      destruct (Nat.eqb_spec j c); [congruence|]. split; eauto. eapply desc_step; eauto.
    + destruct (Nat.eqb_spec j c) as [<-|N]; [tauto|]. apply Istk. right; auto.
  - intros i ci Hd Hi. rewrite Hk in Hi. destruct (Nat.eqb_spec j i) as [<-|N]; [discriminate|].
    destruct (Icov _ _ Hd Hi) as [j' [[<-|Hin] Hor]].
    + destruct Hor as [->|Hor]; [congruence|].
      destruct (desc_down _ _ _ Hor) as [c [cc [G1 [G2 G3]]]].
      exists c. split; auto. apply in_app_iff. left. apply in_rev. rewrite rev_involutive. apply In_somes.
      destruct (Hup _ _ _ G1 G2) as [cj' [l [E1 E2]]]. rewrite Haj in E1; some_inv. eauto.
    + exists j'. split; auto. apply in_app_iff; auto.
  - intros c cc Hc Hac. apply in_app_iff in Hc as [Hc|Hc].
    + apply in_rev, In_somes in Hc as [l Hl].
      destruct (Hdown _ _ _ _ Haj Hl) as [cc' [G1 G2]]. rewrite Hac in G1; some_inv.
      right. exists j. split; auto. rewrite Hk, Nat.eqb_refl. auto.
    + destruct (Itop c cc (or_intror Hc) Hac) as [E|[p [E1 E2]]]; auto.
      right. exists p. split; auto. rewrite Hk. destruct (Nat.eqb j p); auto.
  - intros i ci H1 H2. rewrite Hk in H2.
    assert (Old : forall cj0, aget a i = Some cj0 ->
              (c_parent cj0 = Some x \/ exists p, c_parent cj0 = Some p /\ aget ak p = None) ->
              c_parent cj0 = Some x \/ exists p, c_parent cj0 = Some p /\ aget (aremove ak j) p = None).
    { intros cj0 _ [E|[p [E1 E2]]]; auto. right. exists p. split; auto. rewrite Hk. destruct (Nat.eqb j p); auto. }
    destruct (Nat.eqb_spec j i) as [<-|N].
    + apply (Old ci H1). apply (Itop j ci); auto. left; auto.
    + apply (Old ci H1). eapply Iord; eauto.
Qed.

Lemma rad_loop_ok K a r d x : AInv K a r d ->
  forall fuel s ak n, LI a x ak s -> alen ak < fuel ->
  exists af m, rad_loop fuel s ak n = (true, af, m) /\ LI a x af [] /\ m + alen af = n + alen ak.
Proof.
  intros HI. induction fuel as [|f IH]; intros s ak n HL Hf; [lia|].
  destruct s as [|j rest]; simpl.
  - exists ak, n. auto.
  - destruct (li_stack _ _ _ _ HL j (or_introl eq_refl)) as [[cj Hj] _]. rewrite Hj.
    pose proof (alen_aremove _ _ _ Hj) as Hlen.
    destruct (IH _ _ (S n) (li_step _ _ _ _ _ _ _ _ _ HI HL Hj)) as [af [m [E1 [E2 E3]]]]; [lia|].
    exists af, m. split; auto. split; auto. lia.
Qed.

(* ---------------------------------------------------------------- specification of the final arena *)
Definition rad_result (a : arena nat) (x : nat) (cx : cell nat) (a' : arena nat) : Prop :=
  aget a' x = Some (with_children cx (map (fun _ => None) (c_children cx)) true) /\
  (forall i, i <> x -> desc a x i -> aget a' i = None) /\
  (forall i, i <> x -> ~ desc a x i -> aget a' i = aget a i) /\
  (forall i, i <> x -> aget a' i = aget a i \/ aget a' i = None).

Lemma rad_ok K st r d x cx :
  t_root st = Some r -> AInv K (t_arena st) r d -> aget (t_arena st) x = Some cx ->
  exists a' n, remove_all_descendants st x = TOk (mkT a' (t_root st)) (RCount n) /\
               rad_result (t_arena st) x cx a' /\ n + alen a' = alen (t_arena st).
Proof.
  intros Hr HI Hx. unfold remove_all_descendants. rewrite Hx.
  pose proof HI as [Hroot Hlen Hleaf Hdown Hup Hslot Huroot Hrank].
  set (a := t_arena st) in *.
  assert (Hall : forallb (acontains a) (somes (c_children cx)) = true).
  { apply forallb_forall. intros c Hc. apply In_somes in Hc as [l Hl].
    destruct (Hdown _ _ _ _ Hx Hl) as [cc [G1 G2]]. apply acontains_true; eauto. }
  rewrite Hall.
  destruct (rad_loop_ok K a r d x HI (S (alen a)) _ a 0 (li_init _ _ _ _ _ _ HI Hx)) as [af [m [E1 [E2 E3]]]]; [lia|].
  rewrite E1.
  destruct E2 as [Isub Irem _ _ Icov _ _].
  assert (Nx : ~ desc a x x) by (intros Hd; pose proof (desc_rank _ _ _ _ _ _ HI Hd); lia).
  assert (Hfx : aget af x = Some cx).
  { destruct (Isub x) as [E|E]; [congruence|]. exfalso. eauto. }
  rewrite Hfx. eexists; eexists; split; [reflexivity|]. split.
  - split; [apply aget_aset_same|]. split; [|split].
    + intros i N Hd. rewrite aget_aset_other; auto.
      destruct (aget af i) as [ci|] eqn:E; auto.
      destruct (Icov _ _ Hd E) as [j [[] _]].
    + intros i N Hd. rewrite aget_aset_other; auto.
      destruct (Isub i) as [E|E]; auto. destruct (aget a i) as [ci|] eqn:E'; [|congruence].
      exfalso. eauto.
    + intros i N. rewrite aget_aset_other; auto.
  - assert (alen (aset af x (Some (with_children cx (map (fun _ => None) (c_children cx)) true))) = alen af).
    { clear - Hfx. unfold alen, aget in *. revert x Hfx. induction af as [|y t IH]; intros [|x] H; simpl in *; try discriminate.
      - destruct y; [auto|discriminate].
      - destruct y; simpl; [f_equal|]; apply IH; auto. }
    lia.
Qed.

Lemma rad_ainv K a r d x cx a' : AInv K a r d -> aget a x = Some cx -> rad_result a x cx a' -> AInv K a' r d.
Proof.
  intros HI Hx [Sx [S1 [S2 S3]]].
  pose proof HI as [Hroot Hlen Hleaf Hdown Hup Hslot Huroot Hrank].
  set (cx' := with_children cx (map (fun _ => None) (c_children cx)) true) in *.
  assert (Nx : ~ desc a x x) by (intros Hd; pose proof (desc_rank _ _ _ _ _ _ HI Hd); lia).
  assert (Pres : forall i c, i <> x -> aget a' i = Some c -> aget a i = Some c /\ ~ desc a x i).
  { intros i c N H. split.
    - destruct (S3 i N); congruence.
    - intros Hd. rewrite (S1 i N Hd) in H. discriminate. }
  assert (Gp : forall j cj, aget a j = Some cj -> ~ desc a x j ->
               exists cj', aget a' j = Some cj' /\ c_parent cj' = c_parent cj).
  { intros j cj H Hd. destruct (Nat.eq_dec j x) as [->|N].
    - rewrite Hx in H; some_inv. exists cx'. auto.
    - exists cj. rewrite S2; auto. }
  assert (Gc : forall i ci l j, aget a i = Some ci -> i <> x -> ~ desc a x i -> nth_error (c_children ci) l = Some (Some j) ->
               exists ci', aget a' i = Some ci' /\ nth_error (c_children ci') l = Some (Some j)).
  { intros i ci l j H N Hd Hn. exists ci. rewrite S2; auto. }
  constructor.
  - destruct Hroot as [c0 [H1 H2]]. destruct (Gp _ _ H1) as [c1 [H3 H4]].
    + intros Hd. apply desc_has_parent in Hd as [ci [p [E1 E2]]]. congruence.
    + exists c1; split; congruence.
  - intros i c H. destruct (Nat.eq_dec i x) as [->|N].
    + rewrite Sx in H; some_inv. simpl. rewrite map_length. eauto.
    + apply Pres in H as [H _]; eauto.
  - intros i c H. destruct (Nat.eq_dec i x) as [->|N].
    + rewrite Sx in H; some_inv. simpl. symmetry; apply all_none_map_none.
    + apply Pres in H as [H _]; eauto.
  - intros i c l j H Hn. destruct (Nat.eq_dec i x) as [->|N].
    + rewrite Sx in H; some_inv. simpl in Hn. exfalso; eapply nth_map_none; eauto.
    + apply Pres in H as [H Hd]; auto. destruct (Hdown _ _ _ _ H Hn) as [cj [Hj Hpj]].
      destruct (Gp _ _ Hj) as [cj' [G1 G2]]; [|exists cj'; split; congruence].
      intros Hdj. inversion Hdj as [? ci E1 E2 | ? ci p E1 E2 E3]; subst; rewrite Hj in E1; some_inv; congruence.
  - intros j cj i H Hpar. destruct (Nat.eq_dec j x) as [->|N].
    + rewrite Sx in H; some_inv. simpl in Hpar. destruct (Hup _ _ _ Hx Hpar) as [ci [l [Hi Hn]]].
      pose proof (Hrank _ _ _ Hx Hpar) as R.
      assert (N1 : i <> x) by (intros ->; lia).
      assert (N2 : ~ desc a x i) by (intros Hd; pose proof (desc_rank _ _ _ _ _ _ HI Hd); lia).
      destruct (Gc _ _ _ _ Hi N1 N2 Hn) as [ci' [G1 G2]]; eauto.
    + apply Pres in H as [H Hd]; auto. destruct (Hup _ _ _ H Hpar) as [ci [l [Hi Hn]]].
      assert (N1 : i <> x) by (intros ->; apply Hd; eapply desc_child; eauto).
      assert (N2 : ~ desc a x i) by (intros Hdi; apply Hd; eapply desc_step; eauto).
      destruct (Gc _ _ _ _ Hi N1 N2 Hn) as [ci' [G1 G2]]; eauto.
  - intros i c l l' j H. destruct (Nat.eq_dec i x) as [->|N].
    + rewrite Sx in H; some_inv. simpl. intros Hn. exfalso; eapply nth_map_none; eauto.
    + apply Pres in H as [H _]; eauto.
  - intros i c H. destruct (Nat.eq_dec i x) as [->|N].
    + rewrite Sx in H; some_inv. simpl. eauto.
    + apply Pres in H as [H _]; eauto.
  - intros j cj i H. destruct (Nat.eq_dec j x) as [->|N].
    + rewrite Sx in H; some_inv. simpl. eauto.
    + apply Pres in H as [H _]; eauto.
Qed.

(* Arena/IterProofs.v -- generic results about the coded machine (Iter.v) and the forest machine (IterSpec.v):
   simulation for every script (items and size-hint bracket), the forest machine without skips, what Skip omits. *)
From Coq Require Import List Arith Lia Bool.
Import ListNotations.
From AT Require Import Cells Iter IterSpec.

(* ---------------------------------------------------------------- lists *)
Lemma total_app {SE} (f : SE -> nat) p q : total f (p ++ q) = total f p + total f q.
Proof. unfold total. rewrite map_app, list_sum_app. reflexivity. Qed.
Lemma total_cons {SE} (f : SE -> nat) e p : total f (e :: p) = f e + total f p.
Proof. reflexivity. Qed.
Lemma total_ge_length {SE} (f : SE -> nat) p : (forall e, 1 <= f e) -> length p <= total f p.
Proof. intros H. induction p as [|e p IH]; simpl; auto. rewrite total_cons. specialize (H e). lia. Qed.
Lemma skipn_length_app {A} (l1 l2 : list A) : skipn (length l1) (l1 ++ l2) = l2.
Proof. induction l1; simpl; auto. Qed.
Lemma firstn_length_app {A} (l1 l2 : list A) : firstn (length (l1 ++ l2) - length l2) (l1 ++ l2) = l1.
Proof.
  rewrite app_length. replace (length l1 + length l2 - length l2) with (length l1) by lia.
  induction l1; simpl; [destruct l2; reflexivity | f_equal; auto].
Qed.

Lemma F2_cons_inv {A B} (R : A -> B -> Prop) a l b l' : Forall2 R (a :: l) (b :: l') -> R a b /\ Forall2 R l l'.
Proof. intros H. inversion H; subst. auto. Qed.

Lemma Forall2_length {A B} {R : A -> B -> Prop} {l l'} : Forall2 R l l' -> length l = length l'.
Proof. induction 1; simpl; auto. Qed.

(* ---------------------------------------------------------------- simulation *)
Definition obs_ok {E SE} (R : E -> SE -> Prop) (o : obs E) (so : sobs SE) : Prop :=
  match o, so with
  | ONext None lb ub, SNext None rem => lb <= rem <= ub
  | ONext (Some e) lb ub, SNext (Some se) rem => R e se /\ lb <= rem <= ub
  | OSkip lb ub, SSkip rem => lb <= rem <= ub
  | _, _ => False
  end.

Definition siminv {E SE} (R : E -> SE -> Prop) (fifo : bool) (ssize : SE -> nat) (m : mach E) (s : sst SE) : Prop :=
  Forall2 R (m_pend m) (s_pend fifo s) /\ m_last m = length (s_kids s) /\
  m_lb m <= remaining fifo ssize s /\ remaining fifo ssize s <= m_ub m.

Definition expand_ok {E SE} (R : E -> SE -> Prop) (expand : E -> option (list E)) (expandS : SE -> list SE) : Prop :=
  forall e se, R e se -> exists ks, expand e = Some ks /\ Forall2 R ks (expandS se).
Definition size_ok {SE} (ssize : SE -> nat) (expandS : SE -> list SE) : Prop :=
  forall se, ssize se = S (total ssize (expandS se)).

Lemma size_ok_pos {SE} (ssize : SE -> nat) expandS : size_ok ssize expandS -> forall e, 1 <= ssize e.
Proof. intros H e. rewrite (H e). lia. Qed.

Lemma sim_next {E SE} (R : E -> SE -> Prop) fifo expand expandS ssize m s :
  expand_ok R expand expandS -> size_ok ssize expandS -> siminv R fifo ssize m s ->
  exists o m', m_next fifo expand m = ROk (o, m') /\
    siminv R fifo ssize m' (snd (s_next fifo expandS s)) /\
    match o, fst (s_next fifo expandS s) with
    | None, None => True
    | Some e, Some se => R e se
    | _, _ => False
    end.
Proof.
  intros Hexp Hsz (HF & Hl & Hlb & Hub).
  unfold m_next, s_next. unfold remaining in *.
  destruct (m_pend m) as [|e rest] eqn:Hm; destruct (s_pend fifo s) as [|se rs] eqn:Hs;
    try (inversion HF; fail).
  - exists None, m. simpl. split; [reflexivity|]. split; [|exact I].
    unfold siminv, remaining. rewrite Hm, Hs. auto.
  - apply F2_cons_inv in HF as [HR HF].
    destruct (Hexp e se HR) as (ks & Hks & HFk). rewrite Hks.
    eexists (Some e), _. split; [reflexivity|]. simpl. split; [|exact HR].
    unfold siminv, remaining, s_pend; simpl.
    rewrite total_cons, (Hsz se) in *.
    split; [|split; [apply (Forall2_length HFk)|]].
    + destruct fifo; apply Forall2_app; auto.
    + destruct fifo; rewrite total_app; lia.
Qed.

Lemma sim_skip {E SE} (R : E -> SE -> Prop) fifo (expandS : SE -> list SE) ssize (m : mach E) s :
  size_ok ssize expandS -> siminv R fifo ssize m s ->
  exists m', m_skip v_cur fifo m = ROk m' /\ siminv R fifo ssize m' (s_skip s).
Proof.
  intros Hsz (HF & Hl & Hlb & Hub).
  pose proof (size_ok_pos _ _ Hsz) as Hpos.
  unfold remaining in *.
  assert (Hk : length (s_kids s) <= total ssize (s_kids s)) by (apply total_ge_length; auto).
  assert (Hr : length (s_rest s) <= total ssize (s_rest s)) by (apply total_ge_length; auto).
  assert (Ht : total ssize (s_pend fifo s) = total ssize (s_kids s) + total ssize (s_rest s)).
  { unfold s_pend. destruct fifo; rewrite total_app; lia. }
  unfold m_skip. destruct (Nat.ltb_spec (m_ub m) (m_last m)) as [Hlt|Hge]; [lia|].
  eexists. split; [reflexivity|].
  assert (Hdrop : Forall2 R (drop_kids fifo (m_last m) (m_pend m)) (s_rest s)).
  { unfold drop_kids, s_pend in *. destruct fifo.
    - apply Forall2_app_inv_r in HF as (l1 & l2 & H1 & H2 & Heq). rewrite Heq, Hl.
      rewrite <- (Forall2_length H2). rewrite firstn_length_app. exact H1.
    - apply Forall2_app_inv_r in HF as (l1 & l2 & H1 & H2 & Heq). rewrite Heq, Hl.
      rewrite <- (Forall2_length H1). rewrite skipn_length_app. exact H2. }
  unfold siminv, remaining; simpl.
  assert (Hp : s_pend fifo (s_skip s) = s_rest s).
  { unfold s_pend, s_skip; simpl. destruct fifo; [apply app_nil_r | reflexivity]. }
  rewrite Hp. split; [exact Hdrop|]. split; [reflexivity|].
  rewrite (Forall2_length Hdrop). lia.
Qed.

Theorem sim_run {E SE} (R : E -> SE -> Prop) fifo expand expandS ssize :
  expand_ok R expand expandS -> size_ok ssize expandS ->
  forall sc m s, siminv R fifo ssize m s ->
  Forall2 (obs_ok R) (m_run v_cur fifo expand sc m) (s_run fifo expandS ssize sc s).
Proof.
  intros Hexp Hsz. induction sc as [|c sc IH]; intros m s Hinv; simpl; [constructor|].
  destruct c.
  - destruct (sim_next R fifo expand expandS ssize m s Hexp Hsz Hinv) as (o & m' & Hn & Hinv' & Ho).
    rewrite Hn. destruct (s_next fifo expandS s) as [so s'] eqn:Hsn. simpl in *.
    constructor; [|apply IH; exact Hinv'].
    destruct Hinv' as (_ & _ & Hlb & Hub).
    destruct o, so; simpl; try contradiction; auto.
  - destruct (sim_skip R fifo expandS ssize m s Hsz Hinv) as (m' & Hk & Hinv').
    rewrite Hk. constructor; [|apply IH; exact Hinv'].
    destruct Hinv' as (_ & _ & Hlb & Hub). simpl. auto.
Qed.

(* the same for the state after the script: the coded machine does not panic and stays related *)
Theorem sim_exec {E SE} (R : E -> SE -> Prop) fifo expand expandS ssize :
  expand_ok R expand expandS -> size_ok ssize expandS ->
  forall sc m s, siminv R fifo ssize m s ->
  exists m', m_exec v_cur fifo expand sc m = Some m' /\ siminv R fifo ssize m' (s_exec fifo expandS sc s).
Proof.
  intros Hexp Hsz. induction sc as [|c sc IH]; intros m s Hinv; simpl; [eauto|].
  destruct c.
  - destruct (sim_next R fifo expand expandS ssize m s Hexp Hsz Hinv) as (o & m' & Hn & Hinv' & _).
    rewrite Hn. apply IH; exact Hinv'.
  - destruct (sim_skip R fifo expandS ssize m s Hsz Hinv) as (m' & Hk & Hinv').
    rewrite Hk. apply IH; exact Hinv'.
Qed.

(* ---------------------------------------------------------------- the forest machine without skips *)
Definition sobs_out {SE} (o : sobs SE) : option SE := match o with SNext x _ => x | SSkip _ => None end.

Lemma drain_nil {SE} fifo (expandS : SE -> list SE) f : drain fifo expandS f [] = [].
Proof. destruct f; reflexivity. Qed.

Lemma total_step {SE} (fifo : bool) (ssize : SE -> nat) expandS e r :
  size_ok ssize expandS ->
  total ssize (e :: r) = S (total ssize (if fifo then r ++ expandS e else expandS e ++ r)).
Proof. intros Hsz. rewrite total_cons, (Hsz e). destruct fifo; rewrite total_app; lia. Qed.

Lemma drain_length {SE} fifo (ssize : SE -> nat) expandS :
  size_ok ssize expandS -> forall f p, total ssize p <= f -> length (drain fifo expandS f p) = total ssize p.
Proof.
  intros Hsz. induction f as [|f IH]; intros p Hf.
  - destruct p as [|e r]; [reflexivity|]. rewrite (total_step fifo ssize expandS e r Hsz) in Hf. lia.
  - destruct p as [|e r]; [reflexivity|]. simpl drain. simpl length.
    rewrite (total_step fifo ssize expandS e r Hsz) in *. rewrite IH; lia.
Qed.

Lemma drain_fuel {SE} fifo (ssize : SE -> nat) expandS :
  size_ok ssize expandS -> forall f1 f2 p, total ssize p <= f1 -> total ssize p <= f2 ->
  drain fifo expandS f1 p = drain fifo expandS f2 p.
Proof.
  intros Hsz. induction f1 as [|f1 IH]; intros f2 p H1 H2.
  - destruct p as [|e r]; [rewrite !drain_nil; reflexivity|].
    rewrite (total_step fifo ssize expandS e r Hsz) in H1. lia.
  - destruct p as [|e r]; [rewrite !drain_nil; reflexivity|].
    rewrite (total_step fifo ssize expandS e r Hsz) in *.
    destruct f2 as [|f2]; [lia|]. simpl. f_equal. apply IH; lia.
Qed.

Lemma future_length {SE} fifo (ssize : SE -> nat) expandS p :
  size_ok ssize expandS -> length (future fifo expandS ssize p) = total ssize p.
Proof. intros Hsz. unfold future. apply drain_length; auto. Qed.

(* n calls of Next return the first n entries of [future], then None for ever *)
Theorem nexts_future {SE} fifo (ssize : SE -> nat) expandS :
  size_ok ssize expandS -> forall n s,
  map sobs_out (s_run fifo expandS ssize (repeat Next n) s) =
  map Some (firstn n (future fifo expandS ssize (s_pend fifo s))) ++ repeat None (n - remaining fifo ssize s).
Proof.
  intros Hsz. unfold future, remaining.
  assert (G : forall n s f, total ssize (s_pend fifo s) <= f ->
    map sobs_out (s_run fifo expandS ssize (repeat Next n) s) =
    map Some (firstn n (drain fifo expandS f (s_pend fifo s))) ++ repeat None (n - total ssize (s_pend fifo s))).
  { induction n as [|n IH]; intros s f Hf; [reflexivity|].
    simpl repeat. simpl s_run. unfold s_next.
    destruct (s_pend fifo s) as [|e r] eqn:Hp.
    - simpl. rewrite (IH s f) by (rewrite Hp; exact Hf). rewrite Hp, drain_nil. rewrite !firstn_nil. simpl. rewrite Nat.sub_0_r. reflexivity.
    - rewrite (total_step fifo ssize expandS e r Hsz) in *.
      destruct f as [|f]; [lia|]. simpl.
      rewrite (IH (mksst (expandS e) r) f); [reflexivity|]. unfold s_pend; simpl. lia. }
  intros n s. apply G. lia.
Qed.

(* ---------------------------------------------------------------- Skip *)
Lemma s_skip_idem {SE} (s : sst SE) : s_skip (s_skip s) = s_skip s.
Proof. reflexivity. Qed.
Lemma s_next_kids {SE} fifo (expandS : SE -> list SE) s e s' :
  s_next fifo expandS s = (Some e, s') -> s_kids s' = expandS e.
Proof. unfold s_next. destruct (s_pend fifo s); intros H; inversion H; reflexivity. Qed.
Lemma s_pend_skip {SE} fifo (s : sst SE) : s_pend fifo (s_skip s) = s_rest s.
Proof. unfold s_pend, s_skip; simpl. destruct fifo; [apply app_nil_r | reflexivity]. Qed.

(* depth-first: pending forests concatenate *)
Lemma drain_lifo_app {SE} (ssize : SE -> nat) expandS :
  size_ok ssize expandS -> forall p q,
  future false expandS ssize (p ++ q) = future false expandS ssize p ++ future false expandS ssize q.
Proof.
  intros Hsz. unfold future.
  assert (G : forall f p q, total ssize (p ++ q) <= f ->
    drain false expandS f (p ++ q) = drain false expandS f p ++ drain false expandS f q).
  { induction f as [|f IH]; intros p q Hf.
    - destruct p as [|e r]; simpl; [destruct q; reflexivity|].
      simpl app in Hf. rewrite (total_step false ssize expandS e _ Hsz) in Hf. lia.
    - destruct p as [|e r]; [rewrite !drain_nil; reflexivity|].
      assert (Hq : drain false expandS (S f) q = drain false expandS f q).
      { rewrite total_app, total_cons, (Hsz e) in Hf. apply (drain_fuel false ssize expandS Hsz); lia. }
      rewrite Hq. clear Hq. rewrite <- app_comm_cons in *.
      rewrite (total_step false ssize expandS e _ Hsz) in Hf. simpl. f_equal. rewrite app_assoc. rewrite IH by (rewrite <- app_assoc; lia).
      reflexivity. }
  intros p q. rewrite G by lia.
  f_equal; apply (drain_fuel false ssize expandS Hsz); rewrite ?total_app; lia.
Qed.

(* in depth-first order Skip removes exactly the block contributed by the children of the last item,
   which comes first; everything else is still to come, in the same order *)
Theorem skip_exact_lifo {SE} (ssize : SE -> nat) expandS (s : sst SE) :
  size_ok ssize expandS ->
  future false expandS ssize (s_pend false s) =
  future false expandS ssize (s_kids s) ++ future false expandS ssize (s_pend false (s_skip s)).
Proof. intros Hsz. rewrite s_pend_skip. unfold s_pend. apply drain_lifo_app; auto. Qed.

(* ---------------------------------------------------------------- breadth-first = level by level *)
Lemma drain_fifo_pass {SE} (ssize : SE -> nat) expandS :
  size_ok ssize expandS -> forall q r f, total ssize (q ++ r) <= f ->
  drain true expandS f (q ++ r) = q ++ drain true expandS (f - length q) (r ++ flat_map expandS q).
Proof.
  intros Hsz. induction q as [|e q IH]; intros r f Hf.
  - simpl. rewrite app_nil_r, Nat.sub_0_r. reflexivity.
  - simpl app in *. rewrite (total_step true ssize expandS e _ Hsz) in Hf.
    destruct f as [|f]; [lia|]. simpl. f_equal.
    rewrite <- app_assoc. rewrite IH by (rewrite app_assoc; lia). rewrite <- app_assoc. reflexivity.
Qed.

Theorem future_fifo_levels {SE} (ssize : SE -> nat) expandS :
  size_ok ssize expandS -> forall n p, total ssize p <= n ->
  future true expandS ssize p = levels expandS n p.
Proof.
  intros Hsz. unfold future.
  assert (G : forall n f p, total ssize p <= n -> total ssize p <= f -> drain true expandS f p = levels expandS n p).
  { induction n as [|n IH]; intros f p Hn Hf.
    - destruct p as [|e r]; [apply drain_nil|]. rewrite (total_step true ssize expandS e r Hsz) in Hn. lia.
    - simpl. destruct p as [|e r].
      + rewrite drain_nil. simpl. rewrite <- (IH 0 []) by (unfold total; simpl; lia). reflexivity.
      + pose proof (drain_fifo_pass ssize expandS Hsz (e :: r) [] f) as Hp.
        rewrite app_nil_r in Hp. rewrite Hp by exact Hf. f_equal. simpl app.
        assert (Ht : total ssize (e :: r) = length (e :: r) + total ssize (flat_map expandS (e :: r))).
        { clear -Hsz. induction (e :: r) as [|x l IHl]; [reflexivity|].
          simpl flat_map. rewrite total_cons, total_app, (Hsz x). simpl length. lia. }
        apply IH; simpl length in *; lia. }
  intros n p Hn. apply G; auto.
Qed.

Lemma level_app {SE} (expandS : SE -> list SE) k p q :
  level expandS k (p ++ q) = level expandS k p ++ level expandS k q.
Proof. revert p q. induction k as [|k IH]; intros p q; simpl; [reflexivity|]. rewrite flat_map_app. apply IH. Qed.

(* in breadth-first order Skip removes, on every level, exactly the trailing block contributed by the children
   of the last item *)
Theorem skip_exact_fifo {SE} (expandS : SE -> list SE) (s : sst SE) k :
  level expandS k (s_pend true s) = level expandS k (s_pend true (s_skip s)) ++ level expandS k (s_kids s).
Proof. rewrite s_pend_skip. unfold s_pend. apply level_app. Qed.

Lemma levels_concat {SE} (expandS : SE -> list SE) n p :
  levels expandS n p = flat_map (fun k => level expandS k p) (seq 0 n).
Proof.
  revert p. induction n as [|n IH]; intros p; [reflexivity|].
  simpl. f_equal. rewrite IH. rewrite <- seq_shift. rewrite (flat_map_concat_map _ (map S _)), map_map, <- flat_map_concat_map. reflexivity.
Qed.

(* Arena/Iter.v -- the three traversal machines of /repo/src/tree/iter.rs (DfsPre, DfsEdge, Bfs) and
   PolyhedraIter::size_hint of /repo/src/pwl/iter.rs, as coded, over the slab arena of Cells.v.

   Representation.  All three Rust structs have the same four fields
       stack|queue, last_push, size_lb, size_ub
   and differ only in (a) LIFO or FIFO discipline and (b) the loop that pushes the children of the popped entry.
   The model is one record [mach] and one set of operations parameterised by [fifo] and by the push loop
   [expand]; the three machines are the instances at the end of the file.  [m_pend] lists the pending entries in
   the order in which [next] will pop them (head = top of the Vec stack = front of the VecDeque).

   usize arithmetic: [saturating_sub(1)] is nat subtraction; [self.size_ub -= self.last_push] panics on underflow
   in a debug build and wraps in a release build -- the model follows the DEBUG build (RPanic).  For the repaired
   code the theorems of IterProofs.v show that the subtraction never underflows, so both builds agree.

   [variant] selects, defect by defect, the code before or after the corresponding "fix:" commit in /repo
   (v_orig = the code as found, v_cur = the current, repaired code; the positive theorems are about v_cur, the
   *_refuted lemmas of IterRefuted.v about v_orig). *)
From Coq Require Import List Arith Lia Bool.
Import ListNotations.
From AT Require Import Cells.

Inductive res (A : Type) : Type := ROk (x : A) | RPanic.
Arguments ROk {A}. Arguments RPanic {A}.

Inductive cmd : Type := Next | Skip.

Record variant : Type := mkvariant {
  v_lb_after : bool;   (* D2 repaired: skip_subtree takes size_lb = len() after the pops *)
  v_clear    : bool;   (* D3 repaired: skip_subtree resets last_push *)
  v_seed     : bool;   (* D4 repaired: DfsEdge::new seeds from `root` *)
  v_edge_lb  : bool;   (* D5 repaired: DfsEdge::new lower hint len()-1 *)
  v_bfs_down : bool;   (* D6 repaired: Bfs n_remaining counts down *)
  v_poly     : bool    (* D7 repaired: PolyhedraIter::size_hint delegates to the traversal *)
}.
Definition v_orig : variant := mkvariant false false false false false false.
Definition v_cur : variant := mkvariant true true true true true true.

(* ---------------------------------------------------------------- the generic machine *)
Record mach (E : Type) : Type := mkmach { m_pend : list E; m_last : nat; m_lb : nat; m_ub : nat }.
Arguments mkmach {E}. Arguments m_pend {E}. Arguments m_last {E}. Arguments m_lb {E}. Arguments m_ub {E}.

(* next: pop; look the node up (panic if it is gone); last_push = 0; push the children (last_push += 1 each);
   size_lb/ub saturating_sub 1. *)
Definition m_next {E} (fifo : bool) (expand : E -> option (list E)) (m : mach E) : res (option E * mach E) :=
  match m_pend m with
  | [] => ROk (None, m)
  | e :: rest =>
    match expand e with
    | None => RPanic
    | Some ks => ROk (Some e, mkmach (if fifo then rest ++ ks else ks ++ rest) (length ks) (m_lb m - 1) (m_ub m - 1))
    end
  end.

(* `for _ in 0..last_push { pop() / pop_back() }`: popping an empty container is a no-op *)
Definition drop_kids {E} (fifo : bool) (n : nat) (p : list E) : list E :=
  if fifo then firstn (length p - n) p else skipn n p.

(* skip_subtree:  size_lb = len();  size_ub -= last_push;  pops.
   repaired:      size_ub -= last_push;  pops;  size_lb = len();  last_push = 0. *)
Definition m_skip {E} (v : variant) (fifo : bool) (m : mach E) : res (mach E) :=
  if m_ub m <? m_last m then RPanic
  else
    let p' := drop_kids fifo (m_last m) (m_pend m) in
    ROk (mkmach p'
           (if v_clear v then 0 else m_last m)
           (if v_lb_after v then length p' else length (m_pend m))
           (m_ub m - m_last m)).

(* observations: what the harness dumps after every command *)
Inductive obs (E : Type) : Type :=
| ONext (o : option E) (lb ub : nat)
| OSkip (lb ub : nat)
| OPanic.
Arguments ONext {E}. Arguments OSkip {E}. Arguments OPanic {E}.

Fixpoint m_run {E} (v : variant) (fifo : bool) (expand : E -> option (list E)) (sc : list cmd) (m : mach E)
  : list (obs E) :=
  match sc with
  | [] => []
  | Next :: sc' =>
    match m_next fifo expand m with
    | RPanic => [OPanic]
    | ROk (o, m') => ONext o (m_lb m') (m_ub m') :: m_run v fifo expand sc' m'
    end
  | Skip :: sc' =>
    match m_skip v fifo m with
    | RPanic => [OPanic]
    | ROk m' => OSkip (m_lb m') (m_ub m') :: m_run v fifo expand sc' m'
    end
  end.

(* state after a script (None after a panic) *)
Fixpoint m_exec {E} (v : variant) (fifo : bool) (expand : E -> option (list E)) (sc : list cmd) (m : mach E)
  : option (mach E) :=
  match sc with
  | [] => Some m
  | Next :: sc' => match m_next fifo expand m with RPanic => None | ROk (_, m') => m_exec v fifo expand sc' m' end
  | Skip :: sc' => match m_skip v fifo m with RPanic => None | ROk m' => m_exec v fifo expand sc' m' end
  end.

(* ---------------------------------------------------------------- helpers for the push loops *)
Fixpoint somes {A} (l : list (option A)) : list A :=
  match l with [] => [] | None :: l' => somes l' | Some x :: l' => x :: somes l' end.
Definition enum_from {A} (k : nat) (l : list A) : list (nat * A) := combine (seq k (length l)) l.
Definition enumerate {A} (l : list A) : list (nat * A) := enum_from 0 l.

(* ---------------------------------------------------------------- DfsPre *)
Record nd : Type := mknd { n_depth : nat; n_index : nat; n_rem : nat }.   (* DfsNodeData *)

(* for (n_remaining, child) in node.children.iter().rev().flatten().enumerate() { stack.push(..) } *)
Definition expand_pre {V} (a : arena V) (e : nd) : option (list nd) :=
  match aget a (n_index e) with
  | None => None
  | Some c =>
    Some (fold_left (fun st p => mknd (S (n_depth e)) (snd p) (fst p) :: st)
                    (enumerate (somes (rev (c_children c)))) [])
  end.

(* size_lb: if root == tree.get_root_idx() { tree.len() } else { 0 };  size_ub: tree.len() *)
Definition lb0 {V} (a : arena V) (troot start : nat) : nat := if start =? troot then alen a else 0.

Definition dfspre_new {V} (a : arena V) (troot start : nat) : mach nd :=
  mkmach [mknd 0 start 0] 0 (lb0 a troot start) (alen a).
Definition dfspre_run {V} (v : variant) (a : arena V) (troot start : nat) (sc : list cmd) : list (obs nd) :=
  m_run v false (expand_pre a) sc (dfspre_new a troot start).

(* ---------------------------------------------------------------- Bfs *)
(* for (n_remaining, child) in node.children.iter().flatten().enumerate() { queue.push_back(..) }
   repaired (D6): n_remaining = (number of children) - 1 - position *)
Definition expand_bfs {V} (v : variant) (a : arena V) (e : nd) : option (list nd) :=
  match aget a (n_index e) with
  | None => None
  | Some c =>
    let xs := somes (c_children c) in
    Some (map (fun p => mknd (S (n_depth e)) (snd p) (if v_bfs_down v then length xs - 1 - fst p else fst p))
              (enumerate xs))
  end.
Definition bfs_new {V} (a : arena V) (troot start : nat) : mach nd :=
  mkmach [mknd 0 start 0] 0 (lb0 a troot start) (alen a).
Definition bfs_run {V} (v : variant) (a : arena V) (troot start : nat) (sc : list cmd) : list (obs nd) :=
  m_run v true (expand_bfs v a) sc (bfs_new a troot start).

(* ---------------------------------------------------------------- DfsEdge *)
Record ed : Type := mked { e_depth : nat; e_src : nat; e_label : nat; e_dest : nat }.  (* stack tuple; EdgeData = src,label,dest *)

(* for (label, child) in enumerate(node.children.iter()).rev() { if let Some(val) = child { stack.push(..) } } *)
Definition push_edges (d src : nat) (os : list (option nat)) (st : list ed) : list ed :=
  fold_left (fun st p => match snd p with Some x => mked d src (fst p) x :: st | None => st end)
            (rev (enumerate os)) st.
Definition expand_edge {V} (a : arena V) (e : ed) : option (list ed) :=
  match aget a (e_dest e) with
  | None => None
  | Some c => Some (push_edges (S (e_depth e)) (e_dest e) (c_children c) [])
  end.

(* for ed in tree.children(X).rev() { stack.push((1, root, ed.label, ed.target_idx)); last_push += 1 }
   with X = tree.get_root_idx() as found (D4), X = root after the repair.  tree.children unwraps the node and the
   value of every child it yields (panic if one is missing). *)
Definition dfsedge_new {V} (v : variant) (a : arena V) (troot start : nat) : res (mach ed) :=
  match aget a (if v_seed v then start else troot) with
  | None => RPanic
  | Some c =>
    if forallb (acontains a) (somes (c_children c)) then
      let st := push_edges 1 start (c_children c) [] in
      ROk (mkmach st (length st)
                  (if start =? troot then (if v_edge_lb v then alen a - 1 else alen a) else 0)
                  (alen a))
    else RPanic
  end.
Definition dfsedge_run {V} (v : variant) (a : arena V) (troot start : nat) (sc : list cmd) : list (obs ed) :=
  match dfsedge_new v a troot start with
  | RPanic => [OPanic]
  | ROk m => m_run v false (expand_edge a) sc m
  end.

(* ---------------------------------------------------------------- PolyhedraIter (pwl/iter.rs) *)
(* items: (depth, index, n_remaining, predicates) of the DfsPre traversal from the root (the predicates are the
   subject of C09); size_hint as found: (tree.len(), Some(tree.len())) constantly (D7); repaired: the hint of the
   underlying DfsPre. *)
Definition poly_fix_hint {V} (v : variant) (a : arena V) (o : obs nd) : obs nd :=
  if v_poly v then o
  else match o with
       | ONext x _ _ => ONext x (alen a) (alen a)
       | OSkip _ _ => OSkip (alen a) (alen a)
       | OPanic => OPanic
       end.
Definition poly_run {V} (v : variant) (a : arena V) (troot : nat) (sc : list cmd) : list (obs nd) :=
  map (poly_fix_hint v a) (dfspre_run v a troot troot sc).

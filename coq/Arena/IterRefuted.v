(* Arena/IterRefuted.v -- the code as found (variant v_orig of Iter.v: /repo before the fix commits 045f6d4, cf98f1d,
   d3b7866, 9f74563, 7f1e340, 9cb471f) does NOT refine the specification: one witness per defect D2..D7, each also
   for the variant in which only that defect is present (all other repairs applied), so that every flag of
   [variant] is shown to matter on its own.  All witnesses are closed terms checked by vm_compute; they are the
   cases w0 / w1 of the harness (corpus/C13/D2-D7-code-as-found.txt holds the same runs on the real code). *)
From Coq Require Import List Arith Lia Bool.
Import ListNotations.
From AT Require Import Cells Iter IterSpec IterProofs IterInst.

(* w1: a root with two leaves *)
Definition leafc (p : nat) : cell unit := mkcell tt (Some p) [None; None] true.
Definition ex2 : arena unit := [Some (mkcell tt None [Some 1; Some 2] false); Some (leafc 0); Some (leafc 0)].
Definition ex2l (i : nat) : itree := IN i [None; None].
Definition ex2T : itree := IN 0 [Some (ex2l 1); Some (ex2l 2)].

(* w0: the 10-node tree of the tests in src/tree/iter.rs *)
Definition dec (p : option nat) (l r : option nat) : cell unit := mkcell tt p [l; r] false.
Definition ex10 : arena unit :=
  [Some (dec None (Some 1) (Some 2)); Some (dec (Some 0) (Some 3) (Some 4)); Some (dec (Some 0) (Some 5) (Some 6));
   Some (dec (Some 1) None (Some 7)); Some (leafc 1); Some (leafc 2); Some (leafc 2);
   Some (dec (Some 3) (Some 8) (Some 9)); Some (leafc 7); Some (leafc 7)].
Definition ex10T : itree :=
  IN 0 [Some (IN 1 [Some (IN 3 [None; Some (IN 7 [Some (ex2l 8); Some (ex2l 9)])]); Some (ex2l 4)]);
        Some (IN 2 [Some (ex2l 5); Some (ex2l 6)])].

Lemma ex2_unfold : unfold ex2 4 0 = Some ex2T.
Proof. vm_compute. reflexivity. Qed.
Lemma ex10_unfold : unfold ex10 11 0 = Some ex10T.
Proof. vm_compute. reflexivity. Qed.
Lemma ex2_inv : tree_inv ex2 0 ex2T.
Proof. split; [apply (unfold_sound ex2 4); exact ex2_unfold | reflexivity]. Qed.
Lemma ex10_inv : tree_inv ex10 0 ex10T.
Proof. split; [apply (unfold_sound ex10 11); exact ex10_unfold | reflexivity]. Qed.
Lemma ex2_sub1 : subtree (ex2l 1) ex2T.
Proof. eapply sub_child; [left; reflexivity | apply sub_refl]. Qed.

(* the variants with exactly one defect *)
Definition v_only_D2 : variant := mkvariant false true true true true true.
Definition v_only_D3 : variant := mkvariant true false true true true true.
Definition v_only_D4 : variant := mkvariant true true false true true true.
Definition v_only_D5 : variant := mkvariant true true true false true true.
Definition v_only_D6 : variant := mkvariant true true true true false true.
Definition v_only_D7 : variant := mkvariant true true true true true false.

(* executable form of obs_match *)
Definition hint_okb {E} (o : obs E) (rem : nat) : bool :=
  match o with
  | ONext _ lb ub | OSkip lb ub => (lb <=? rem) && (rem <=? ub)
  | OPanic => false
  end.
Lemma F2_nth {A B} (R : A -> B -> Prop) l l' : Forall2 R l l' ->
  forall n x y, nth_error l n = Some x -> nth_error l' n = Some y -> R x y.
Proof.
  induction 1 as [|a b l l' Hab _ IH]; intros [|n] x y Hx Hy; simpl in *; try discriminate.
  - injection Hx as <-. injection Hy as <-. exact Hab.
  - eapply IH; eauto.
Qed.

Definition refines_pre {V} (v : variant) (a : arena V) (troot : nat) (t : itree) (sc : list cmd) : Prop :=
  Forall2 (obs_match sent_item) (dfspre_run v a troot (idx t) sc) (spec_pre_run sc t).
Definition refines_bfs {V} (v : variant) (a : arena V) (troot : nat) (t : itree) (sc : list cmd) : Prop :=
  Forall2 (obs_match sent_item) (bfs_run v a troot (idx t) sc) (spec_bfs_run sc t).
Definition refines_edge {V} (v : variant) (a : arena V) (troot : nat) (t : itree) (sc : list cmd) : Prop :=
  Forall2 (obs_match sedge_ed) (dfsedge_run v a troot (idx t) sc) (spec_edge_run sc t).
Definition refines_poly {V} (v : variant) (a : arena V) (troot : nat) (T : itree) (sc : list cmd) : Prop :=
  Forall2 (obs_match sent_item) (poly_run v a troot sc) (spec_pre_run sc T).

(* refute a Forall2 by looking at position n of both (closed) lists *)
Ltac refute_at n :=
  let H := fresh "H" in let H' := fresh "H" in
  intros H;
  match type of H with
  | Forall2 ?R ?l ?l' =>
    let x := eval vm_compute in (nth_error l n) in
    let y := eval vm_compute in (nth_error l' n) in
    match x with
    | Some ?x' => match y with
      | Some ?y' =>
        assert (H' : R x' y') by (apply (F2_nth R l l' H n); vm_compute; reflexivity);
        vm_compute in H'; clear H;
        repeat match goal with Hc : _ /\ _ |- _ => destruct Hc end;
        try contradiction; try discriminate; try lia
      end end
  end.

(* D2: next(), skip_subtree() on a root with two leaves: size_hint (2, Some 0), no item is left *)
Lemma D2_witness v : v_lb_after v = false ->
  nth_error (dfspre_run v ex2 0 0 [Next; Skip]) 1 = Some (OSkip 2 0) /\
  nth_error (spec_pre_run [Next; Skip] ex2T) 1 = Some (SSkip 0).
Proof. destruct v as [[] c s e b p]; intros Hv; try discriminate; destruct c; split; reflexivity. Qed.
Lemma D2_refuted_pre : ~ refines_pre v_orig ex2 0 ex2T [Next; Skip] /\ ~ refines_pre v_only_D2 ex2 0 ex2T [Next; Skip].
Proof. split; unfold refines_pre; refute_at 1. Qed.
Lemma D2_refuted_bfs : ~ refines_bfs v_orig ex2 0 ex2T [Next; Skip] /\ ~ refines_bfs v_only_D2 ex2 0 ex2T [Next; Skip].
Proof. split; unfold refines_bfs; refute_at 1. Qed.
(* edges: after the 7th edge (0,1,2) its two child edges are pending; skip: hint (2, _), nothing is left *)
Lemma D2_refuted_edge : ~ refines_edge v_only_D2 ex10 0 ex10T (repeat Next 7 ++ [Skip]).
Proof. unfold refines_edge; refute_at 7. Qed.

(* D3: a second skip_subtree() underflows size_ub (debug build: panic) ... *)
Lemma D3_refuted_panic :
  In OPanic (dfspre_run v_orig ex2 0 0 [Next; Skip; Skip]) /\ In OPanic (dfspre_run v_only_D3 ex2 0 0 [Next; Skip; Skip]) /\
  In OPanic (bfs_run v_orig ex2 0 0 [Next; Skip; Skip]) /\ In OPanic (dfsedge_run v_orig ex2 0 0 [Skip; Skip]).
Proof. repeat split; vm_compute; tauto. Qed.
(* ... and where it does not, pops unrelated entries: after z, c0, skip, skip the sibling c1 = node 2 and its
   subtree are lost (the specification still delivers (depth 1, index 2, 0 siblings left)) *)
Lemma D3_witness :
  nth_error (dfspre_run v_only_D3 ex10 0 0 [Next; Next; Skip; Skip; Next]) 4 = Some (ONext None 0 4) /\
  nth_error (spec_pre_run [Next; Next; Skip; Skip; Next] ex10T) 4 = Some (SNext (Some (1, 0, IN 2 [Some (ex2l 5); Some (ex2l 6)])) 2).
Proof. split; reflexivity. Qed.
Lemma D3_refuted_pre : ~ refines_pre v_orig ex10 0 ex10T [Next; Next; Skip; Skip; Next] /\
                       ~ refines_pre v_only_D3 ex10 0 ex10T [Next; Next; Skip; Skip; Next].
Proof. split; unfold refines_pre; refute_at 4. Qed.
Lemma D3_refuted_bfs : ~ refines_bfs v_only_D3 ex10 0 ex10T [Next; Next; Next; Skip; Skip; Next].
Proof. unfold refines_bfs; refute_at 5. Qed.
Lemma D3_refuted_edge : ~ refines_edge v_only_D3 ex10 0 ex10T [Next; Skip; Skip; Next].
Proof. unfold refines_edge; refute_at 3. Qed.

(* D4: an edge traversal started at the leaf 1 reports the root's edges with source 1 *)
Lemma D4_witness :
  dfsedge_run v_only_D4 ex2 0 1 [Next] = [ONext (Some (mked 1 1 0 1)) 0 2] /\
  spec_edge_run [Next] (ex2l 1) = [SNext None 0].
Proof. split; reflexivity. Qed.
Lemma D4_refuted : ~ refines_edge v_orig ex2 0 (ex2l 1) [Next] /\ ~ refines_edge v_only_D4 ex2 0 (ex2l 1) [Next].
Proof. split; unfold refines_edge; refute_at 0. Qed.

(* D5: the edge traversal of a 3-node tree from the root has 2 edges; after the first one the hint is (2, Some 2) *)
Lemma D5_witness :
  dfsedge_run v_only_D5 ex2 0 0 [Next] = [ONext (Some (mked 1 0 0 1)) 2 2] /\
  spec_edge_run [Next] ex2T = [SNext (Some (1, 0, 0, ex2l 1)) 1].
Proof. split; reflexivity. Qed.
Lemma D5_refuted : ~ refines_edge v_orig ex2 0 ex2T [Next] /\ ~ refines_edge v_only_D5 ex2 0 ex2T [Next].
Proof. split; unfold refines_edge; refute_at 0. Qed.

(* D6: breadth-first, the first child of the root is reported with 0 siblings to come, the last with 1 *)
Lemma D6_witness :
  map (fun o => match o with ONext (Some e) _ _ => Some (n_index e, n_rem e) | _ => None end)
      (bfs_run v_only_D6 ex2 0 0 [Next; Next; Next]) = [Some (0, 0); Some (1, 0); Some (2, 1)] /\
  map n_rem (level_order ex2T) = [0; 1; 0].
Proof. split; reflexivity. Qed.
Lemma D6_refuted : ~ refines_bfs v_orig ex2 0 ex2T [Next; Next] /\ ~ refines_bfs v_only_D6 ex2 0 ex2T [Next; Next].
Proof. split; unfold refines_bfs; refute_at 1. Qed.

(* D7: PolyhedraIter::size_hint stays (3, Some 3) after the first item *)
Lemma D7_witness : poly_run v_only_D7 ex2 0 [Next] = [ONext (Some (mknd 0 0 0)) 3 3] /\
                   spec_pre_run [Next] ex2T = [SNext (Some (0, 0, ex2T)) 2].
Proof. split; reflexivity. Qed.
Lemma D7_refuted : ~ refines_poly v_orig ex2 0 ex2T [Next] /\ ~ refines_poly v_only_D7 ex2 0 ex2T [Next].
Proof. split; unfold refines_poly; refute_at 0. Qed.

(* the same scripts on the repaired code refine the specification (instances of the theorems of IterInst.v) *)
Lemma repaired_ok :
  refines_pre v_cur ex10 0 ex10T [Next; Next; Skip; Skip; Next] /\ refines_edge v_cur ex2 0 (ex2l 1) [Next] /\
  refines_bfs v_cur ex2 0 ex2T [Next; Next] /\ refines_poly v_cur ex2 0 ex2T [Next].
Proof.
  repeat split.
  - exact (dfspre_refines ex10 0 ex10T ex10T _ ex10_inv (sub_refl _)).
  - exact (dfsedge_refines ex2 0 ex2T (ex2l 1) _ ex2_inv ex2_sub1).
  - exact (bfs_refines ex2 0 ex2T ex2T _ ex2_inv (sub_refl _)).
  - exact (poly_refines ex2 0 ex2T _ ex2_inv).
Qed.

(* Arena/TreeInv.v -- the C12 arena invariant and its preservation by the local operations
   (add_root, add_child_node, update_node, merge_child_with_parent, removal of a leaf child). *)
From Coq Require Import List Arith Lia Bool.
From AT Require Import Cells Tree TreeLemmas.
Import ListNotations.

(* The invariant, over the arena `a`, the root index `r` and a rank function `d` that strictly grows along
   parent -> child links (so following parent links from any cell terminates, necessarily in the only
   parentless cell, the root: every cell is reachable from the root and there are no cycles). *)
Record AInv (K : nat) (a : arena nat) (r : nat) (d : nat -> nat) : Prop := {
  inv_root : exists c, aget a r = Some c /\ c_parent c = None;
  inv_len : forall i c, aget a i = Some c -> length (c_children c) = K;
  inv_leaf : forall i c, aget a i = Some c -> c_leaf c = all_none (c_children c);
  inv_down : forall i c l j, aget a i = Some c -> nth_error (c_children c) l = Some (Some j) ->
             exists cj, aget a j = Some cj /\ c_parent cj = Some i;
  inv_up : forall j cj i, aget a j = Some cj -> c_parent cj = Some i ->
           exists c l, aget a i = Some c /\ nth_error (c_children c) l = Some (Some j);
  inv_slot : forall i c l l' j, aget a i = Some c -> nth_error (c_children c) l = Some (Some j) ->
             nth_error (c_children c) l' = Some (Some j) -> l = l';
  inv_uroot : forall i c, aget a i = Some c -> c_parent c = None -> i = r;
  inv_rank : forall j cj i, aget a j = Some cj -> c_parent cj = Some i -> d i < d j
}.

Definition Inv (K : nat) (st : tstate) : Prop :=
  exists r d, t_root st = Some r /\ AInv K (t_arena st) r d.

Ltac eqb_cases :=
  repeat match goal with
  | H : context [Nat.eqb ?x ?y] |- _ => destruct (Nat.eqb_spec x y); [first [subst x | subst y | idtac]|]
  | |- context [Nat.eqb ?x ?y] => destruct (Nat.eqb_spec x y); [first [subst x | subst y | idtac]|]
  end.
Ltac eqb_in H :=
  repeat match type of H with
  | context [Nat.eqb ?x ?y] => destruct (Nat.eqb_spec x y); [first [subst y | subst x | idtac]|]
  end.
Ltac eqb_goal :=
  repeat match goal with
  | |- context [Nat.eqb ?x ?y] => destruct (Nat.eqb_spec x y); [first [subst y | subst x | idtac]|]
  end.
Ltac some_inv :=
  repeat match goal with
  | H : Some _ = Some _ |- _ => inversion H; clear H; subst
  | H : Some _ = None |- _ => discriminate H
  | H : None = Some _ |- _ => discriminate H
  end.

Lemma nth_repeat_none K l (j : nat) : nth_error (repeat (@None nat) K) l = Some (Some j) -> False.
Proof. intros H. apply nth_error_In, repeat_spec in H. discriminate. Qed.
Lemma nth_map_none (ch : list (option nat)) l (j : nat) : nth_error (map (fun _ => @None nat) ch) l = Some (Some j) -> False.
Proof. intros H. apply nth_error_In, in_map_iff in H as [x [H _]]. discriminate. Qed.

(* ---------------------------------------------------------------- add_root on the empty tree *)
Lemma add_root_ainv K v key : AInv K (aset [] key (Some (new_cell K v None))) key (fun _ => 0).
Proof.
  constructor.
  - exists (new_cell K v None). rewrite aget_aset_same. auto.
  - intros i c. rewrite aget_aset, aget_nil. eqb_cases; intros H; some_inv. simpl. apply repeat_length.
  - intros i c. rewrite aget_aset, aget_nil. eqb_cases; intros H; some_inv. simpl. symmetry; apply all_none_repeat.
  - intros i c l j. rewrite aget_aset, aget_nil. eqb_cases; intros H; some_inv. simpl. intros H; exfalso; eapply nth_repeat_none; eauto.
  - intros j cj i. rewrite aget_aset, aget_nil. eqb_cases; intros H; some_inv. simpl. discriminate.
  - intros i c l l' j. rewrite aget_aset, aget_nil. eqb_cases; intros H; some_inv. simpl. intros H; exfalso; eapply nth_repeat_none; eauto.
  - intros i c. rewrite aget_aset, aget_nil. eqb_cases; intros H; some_inv. auto.
  - intros j cj i. rewrite aget_aset, aget_nil. eqb_cases; intros H; some_inv. simpl. discriminate.
Qed.

(* ---------------------------------------------------------------- update_node *)
Lemma update_ainv K a r d i c v : AInv K a r d -> aget a i = Some c ->
  AInv K (aset a i (Some (with_val c v))) r d.
Proof.
  intros [Hroot Hlen Hleaf Hdown Hup Hslot Huroot Hrank] Hi.
  assert (G : forall j cj, aget (aset a i (Some (with_val c v))) j = Some cj ->
              exists cj0, aget a j = Some cj0 /\ c_parent cj = c_parent cj0 /\ c_children cj = c_children cj0 /\ c_leaf cj = c_leaf cj0).
  { intros j cj. rewrite aget_aset. eqb_cases; intros H; some_inv; eauto; exists c; auto. }
  assert (G' : forall j cj0, aget a j = Some cj0 ->
              exists cj, aget (aset a i (Some (with_val c v))) j = Some cj /\ c_parent cj = c_parent cj0 /\ c_children cj = c_children cj0).
  { intros j cj0 H. rewrite aget_aset. eqb_cases; eauto. rewrite Hi in H; some_inv. eexists; split; eauto. }
  constructor.
  - destruct Hroot as [c0 [H1 H2]]. apply G' in H1 as [c1 [H1 [H3 _]]]. exists c1. split; auto. congruence.
  - intros j cj H. apply G in H as [c0 [H [_ [E _]]]]. rewrite E. eauto.
  - intros j cj H. apply G in H as [c0 [H [_ [E1 E2]]]]. rewrite E1, E2. eauto.
  - intros j cj l k H Hn. apply G in H as [c0 [H [_ [E _]]]]. rewrite E in Hn.
    destruct (Hdown _ _ _ _ H Hn) as [ck [Hk Hp]]. apply G' in Hk as [ck' [Hk [E1 _]]]. exists ck'. split; auto. congruence.
  - intros j cj k H Hp. apply G in H as [c0 [H [E _]]]. rewrite E in Hp.
    destruct (Hup _ _ _ H Hp) as [ck [l [Hk Hn]]]. apply G' in Hk as [ck' [Hk [_ E1]]]. exists ck', l. split; auto. congruence.
  - intros j cj l l' k H. apply G in H as [c0 [H [_ [E _]]]]. rewrite E. eauto.
  - intros j cj H Hp. apply G in H as [c0 [H [E _]]]. rewrite E in Hp. eauto.
  - intros j cj k H Hp. apply G in H as [c0 [H [E _]]]. rewrite E in Hp. eauto.
Qed.

(* ---------------------------------------------------------------- add_child_node (repaired order of effects) *)
Lemma add_child_ainv K a r d p pc l v key :
  AInv K a r d -> aget a p = Some pc -> nth_error (c_children pc) l = Some None -> aget a key = None ->
  AInv K (aset (aset a key (Some (new_cell K v (Some p)))) p
               (Some (with_children pc (set_nth (c_children pc) l (Some key)) false)))
       r (fun i => if Nat.eqb i key then S (d p) else d i).
Proof.
  intros [Hroot Hlen Hleaf Hdown Hup Hslot Huroot Hrank] Hp Hl Hkey.
  assert (Npk : p <> key) by congruence.
  set (pc' := with_children pc (set_nth (c_children pc) l (Some key)) false).
  set (nc := new_cell K v (Some p)).
  set (a' := aset (aset a key (Some nc)) p (Some pc')).
  assert (Ha' : forall i, aget a' i = if Nat.eqb p i then Some pc' else if Nat.eqb key i then Some nc else aget a i).
  { intros i. unfold a'. rewrite !aget_aset. auto. }
  clearbody a'.
  (* old cells keep their parent; old child slots stay *)
  assert (Gp : forall j cj, aget a j = Some cj -> exists cj', aget a' j = Some cj' /\ c_parent cj' = c_parent cj).
  { intros j cj H. rewrite Ha'. eqb_goal; try congruence; eauto.
    rewrite Hp in H; some_inv. eexists; split; eauto. }
  assert (Gc : forall i c l' j, aget a i = Some c -> nth_error (c_children c) l' = Some (Some j) ->
               exists c', aget a' i = Some c' /\ nth_error (c_children c') l' = Some (Some j)).
  { intros i c l' j H Hn. rewrite Ha'. eqb_goal; try congruence; eauto.
    rewrite Hp in H; some_inv. eexists; split; eauto. simpl.
    rewrite nth_error_set_nth_other; auto. intros ->. congruence. }
  constructor.
  - destruct Hroot as [c0 [H1 H2]]. apply Gp in H1 as [c1 [H1 H3]]. exists c1; split; congruence.
  - intros i c H. rewrite Ha' in H. eqb_in H; some_inv; simpl; eauto.
    + rewrite length_set_nth; eauto.
    + apply repeat_length.
  - intros i c H. rewrite Ha' in H. eqb_in H; some_inv; simpl; eauto.
    + symmetry. eapply some_not_all_none. eapply nth_error_set_nth_same; eauto.
    + symmetry. apply all_none_repeat.
  - intros i c l' j H. rewrite Ha' in H. eqb_in H; some_inv; simpl.
    + (* the parent *) rewrite nth_error_set_nth. destruct (Nat.eqb_spec l l') as [<-|Nl].
      * rewrite Hl. intros E; some_inv. exists nc.
        rewrite Ha'. eqb_goal; try congruence. auto.
      * intros Hn. destruct (Hdown _ _ _ _ Hp Hn) as [cj [Hj Hpj]]. apply Gp in Hj as [cj' [Hj E]].
        exists cj'; split; auto. congruence.
    + intros Hn; exfalso; eapply nth_repeat_none; eauto.
    + intros Hn. destruct (Hdown _ _ _ _ H Hn) as [cj [Hj Hpj]]. apply Gp in Hj as [cj' [Hj E]].
      exists cj'; split; auto. congruence.
  - intros j cj i H. rewrite Ha' in H. eqb_in H; some_inv; simpl; intros Hpar.
    + destruct (Hup _ _ _ Hp Hpar) as [c [l' [Hi Hn]]]. destruct (Gc _ _ _ _ Hi Hn) as [c' [G1 G2]]; eauto.
    + some_inv. exists pc', l.
      rewrite Ha'. eqb_goal; try congruence. split; auto. simpl.
      eapply nth_error_set_nth_same; eauto.
    + destruct (Hup _ _ _ H Hpar) as [c [l' [Hi Hn]]]. destruct (Gc _ _ _ _ Hi Hn) as [c' [G1 G2]]; eauto.
  - intros i c l1 l2 j H. rewrite Ha' in H. eqb_in H; some_inv; simpl.
    + rewrite !nth_error_set_nth.
      destruct (Nat.eqb_spec l l1) as [<-|N1]; destruct (Nat.eqb_spec l l2) as [<-|N2]; auto;
        rewrite ?Hl; intros H1 H2; some_inv.
      * destruct (Hdown _ _ _ _ Hp H2) as [cj [Hj _]]. congruence.
      * destruct (Hdown _ _ _ _ Hp H1) as [cj [Hj _]]. congruence.
      * eauto.
    + intros Hn; exfalso; eapply nth_repeat_none; eauto.
    + eauto.
  - intros i c H. rewrite Ha' in H. eqb_in H; some_inv; simpl; eauto. discriminate.
  - intros j cj i H. rewrite Ha' in H. eqb_in H; some_inv; simpl; intros Hpar.
    + destruct (Hup _ _ _ Hp Hpar) as [c [l' [Hi _]]].
      destruct (Nat.eqb_spec p key); [congruence|]. destruct (Nat.eqb_spec i key); [congruence|]. eauto.
    + some_inv. rewrite Nat.eqb_refl. destruct (Nat.eqb_spec i key); [congruence|]. lia.
    + destruct (Hup _ _ _ H Hpar) as [c [l' [Hi _]]].
      destruct (Nat.eqb_spec j key); [congruence|]. destruct (Nat.eqb_spec i key); [congruence|]. eauto.
Qed.

(* ---------------------------------------------------------------- merge_child_with_parent *)
Lemma merge_ainv K a r d p pc l c cc g gc gl :
  AInv K a r d ->
  aget a p = Some pc -> count_some (c_children pc) = 1 -> p <> r ->
  nth_error (c_children pc) l = Some (Some c) -> aget a c = Some cc ->
  c_parent pc = Some g -> aget a g = Some gc -> nth_error (c_children gc) gl = Some (Some p) ->
  AInv K (aremove (aset (aset a g (Some (with_children gc (set_nth (c_children gc) gl (Some c)) (c_leaf gc))))
                        c (Some (with_parent cc (Some g)))) p) r d.
Proof.
  intros [Hroot Hlen Hleaf Hdown Hup Hslot Huroot Hrank] Hp Hone Npr Hl Hc Hpg Hg Hgl.
  assert (Hcp : c_parent cc = Some p).
  { destruct (Hdown _ _ _ _ Hp Hl) as [cj [Hj Hpj]]. congruence. }
  assert (Dgp : d g < d p) by eauto.
  assert (Dpc : d p < d c) by eauto.
  assert (Ngp : g <> p) by (intros ->; lia).
  assert (Npc : p <> c) by (intros ->; lia).
  assert (Ngc : g <> c) by (intros ->; lia).
  set (gc' := with_children gc (set_nth (c_children gc) gl (Some c)) (c_leaf gc)).
  set (cc' := with_parent cc (Some g)).
  set (a' := aremove (aset (aset a g (Some gc')) c (Some cc')) p).
  assert (Ha' : forall i, aget a' i = if Nat.eqb p i then None else if Nat.eqb c i then Some cc' else
                                      if Nat.eqb g i then Some gc' else aget a i).
  { intros i. unfold a', aremove. rewrite !aget_aset. auto. }
  clearbody a'.
  assert (Gp : forall j cj, aget a j = Some cj -> j <> p -> j <> c ->
               exists cj', aget a' j = Some cj' /\ c_parent cj' = c_parent cj).
  { intros j cj H N1 N2. rewrite Ha'. eqb_goal; try congruence; eauto.
    rewrite Hg in H; some_inv. eexists; split; eauto. }
  assert (Gc : forall i ci l' j, aget a i = Some ci -> nth_error (c_children ci) l' = Some (Some j) -> i <> p -> j <> p ->
               exists ci', aget a' i = Some ci' /\ nth_error (c_children ci') l' = Some (Some j)).
  { intros i ci l' j H Hn N1 N2. rewrite Ha'. eqb_goal; try congruence; eauto.
    - rewrite Hc in H; some_inv. eexists; split; eauto.
    - rewrite Hg in H; some_inv. eexists; split; eauto. simpl.
      rewrite nth_error_set_nth_other; auto. intros ->. congruence. }
  constructor.
  - destruct Hroot as [c0 [H1 H2]]. destruct (Gp _ _ H1) as [c1 [H3 H4]]; auto; [congruence|].
    exists c1; split; congruence.
  - intros i c0 H. rewrite Ha' in H. eqb_in H; some_inv; simpl; eauto.
    rewrite length_set_nth; eauto.
  - intros i c0 H. rewrite Ha' in H. eqb_in H; some_inv; simpl; eauto.
    rewrite (Hleaf _ _ Hg). erewrite (some_not_all_none _ _ _ Hgl).
    symmetry. eapply some_not_all_none. eapply nth_error_set_nth_same; eauto.
  - intros i c0 l' j H. rewrite Ha' in H. eqb_in H; some_inv; simpl.
    + intros Hn. destruct (Hdown _ _ _ _ Hc Hn) as [cj [Hj Hpj]].
      destruct (Gp _ _ Hj) as [cj' [G1 G2]]; [congruence| |exists cj'; split; congruence].
      intros ->. apply (Hrank _ _ _ Hj) in Hpj. lia.
    + rewrite nth_error_set_nth. destruct (Nat.eqb_spec gl l') as [<-|Nl].
      * rewrite Hgl. intros E; some_inv. exists cc'. rewrite Ha'. eqb_goal; try congruence. auto.
      * intros Hn. destruct (Hdown _ _ _ _ Hg Hn) as [cj [Hj Hpj]].
        destruct (Gp _ _ Hj) as [cj' [G1 G2]]; [| |exists cj'; split; congruence].
        -- intros ->. apply Nl. exact (Hslot _ _ _ _ _ Hg Hgl Hn).
        -- intros ->. congruence.
    + intros Hn. destruct (Hdown _ _ _ _ H Hn) as [cj [Hj Hpj]].
      destruct (Gp _ _ Hj) as [cj' [G1 G2]]; [congruence|congruence|exists cj'; split; congruence].
  - intros j cj i H. rewrite Ha' in H. eqb_in H; some_inv; simpl; intros Hpar.
    + some_inv. exists gc', gl. rewrite Ha'. eqb_goal; try congruence. split; auto. simpl.
      eapply nth_error_set_nth_same; eauto.
    + destruct (Hup _ _ _ Hg Hpar) as [ci [l' [Hi Hn]]].
      destruct (Gc _ _ _ _ Hi Hn) as [ci' [G1 G2]]; eauto.
      intros ->. apply (Hrank _ _ _ Hg) in Hpar. lia.
    + destruct (Hup _ _ _ H Hpar) as [ci [l' [Hi Hn]]].
      destruct (Gc _ _ _ _ Hi Hn) as [ci' [G1 G2]]; eauto.
      intros ->. rewrite Hp in Hi; some_inv. apply n0. eapply count_one; eauto.
  - intros i c0 l1 l2 j H. rewrite Ha' in H. eqb_in H; some_inv; simpl; eauto.
    rewrite !nth_error_set_nth.
    destruct (Nat.eqb_spec gl l1) as [<-|N1]; destruct (Nat.eqb_spec gl l2) as [<-|N2]; auto;
      rewrite ?Hgl; intros H1 H2; some_inv.
    + destruct (Hdown _ _ _ _ Hg H2) as [cj [Hj Hpj]]. congruence.
    + destruct (Hdown _ _ _ _ Hg H1) as [cj [Hj Hpj]]. congruence.
    + eauto.
  - intros i c0 H. rewrite Ha' in H. eqb_in H; some_inv; simpl; eauto. discriminate.
  - intros j cj i H. rewrite Ha' in H. eqb_in H; some_inv; simpl; intros Hpar; eauto.
    some_inv. lia.
Qed.

(* ---------------------------------------------------------------- removal of a leaf child (tail of try_remove_child) *)
Lemma remove_leaf_ainv K a r d p pc l c cc :
  AInv K a r d -> aget a p = Some pc -> nth_error (c_children pc) l = Some (Some c) ->
  aget a c = Some cc -> all_none (c_children cc) = true ->
  AInv K (aremove (aset a p (Some (with_children pc (set_nth (c_children pc) l None)
                                     (if all_none (set_nth (c_children pc) l None) then true else c_leaf pc)))) c) r d.
Proof.
  intros [Hroot Hlen Hleaf Hdown Hup Hslot Huroot Hrank] Hp Hl Hc Hcl.
  assert (Hcp : c_parent cc = Some p).
  { destruct (Hdown _ _ _ _ Hp Hl) as [cj [Hj Hpj]]. congruence. }
  assert (Dpc : d p < d c) by eauto.
  assert (Npc : p <> c) by (intros ->; lia).
  set (pc' := with_children pc (set_nth (c_children pc) l None)
                (if all_none (set_nth (c_children pc) l None) then true else c_leaf pc)).
  set (a' := aremove (aset a p (Some pc')) c).
  assert (Ha' : forall i, aget a' i = if Nat.eqb c i then None else if Nat.eqb p i then Some pc' else aget a i).
  { intros i. unfold a', aremove. rewrite !aget_aset. auto. }
  clearbody a'.
  assert (Gp : forall j cj, aget a j = Some cj -> j <> c ->
               exists cj', aget a' j = Some cj' /\ c_parent cj' = c_parent cj).
  { intros j cj H N1. rewrite Ha'. eqb_goal; try congruence; eauto.
    rewrite Hp in H; some_inv. eexists; split; eauto. }
  assert (Gc : forall i ci l' j, aget a i = Some ci -> nth_error (c_children ci) l' = Some (Some j) -> j <> c ->
               exists ci', aget a' i = Some ci' /\ nth_error (c_children ci') l' = Some (Some j)).
  { intros i ci l' j H Hn N1. rewrite Ha'. eqb_goal; try congruence; eauto.
    - rewrite Hc in H; some_inv. exfalso; eapply all_none_no_some; eauto.
    - rewrite Hp in H; some_inv. eexists; split; eauto. simpl.
      rewrite nth_error_set_nth_other; auto. intros ->. congruence. }
  constructor.
  - destruct Hroot as [c0 [H1 H2]]. destruct (Gp _ _ H1) as [c1 [H3 H4]]; auto; [congruence|].
    exists c1; split; congruence.
  - intros i c0 H. rewrite Ha' in H. eqb_in H; some_inv; simpl; eauto.
    rewrite length_set_nth; eauto.
  - intros i c0 H. rewrite Ha' in H. eqb_in H; some_inv; simpl; eauto.
    destruct (all_none (set_nth (c_children pc) l None)) eqn:E; auto.
    rewrite (Hleaf _ _ Hp). eapply some_not_all_none; eauto.
  - intros i c0 l' j H. rewrite Ha' in H. eqb_in H; some_inv; simpl.
    + rewrite nth_error_set_nth. destruct (Nat.eqb_spec l l') as [<-|Nl].
      * rewrite Hl. intros E; some_inv.
      * intros Hn. destruct (Hdown _ _ _ _ Hp Hn) as [cj [Hj Hpj]].
        destruct (Gp _ _ Hj) as [cj' [G1 G2]]; [|exists cj'; split; congruence].
        intros ->. apply Nl. exact (Hslot _ _ _ _ _ Hp Hl Hn).
    + intros Hn. destruct (Hdown _ _ _ _ H Hn) as [cj [Hj Hpj]].
      destruct (Gp _ _ Hj) as [cj' [G1 G2]]; [congruence|exists cj'; split; congruence].
  - intros j cj i H. rewrite Ha' in H. eqb_in H; some_inv; simpl; intros Hpar.
    + destruct (Hup _ _ _ Hp Hpar) as [ci [l' [Hi Hn]]].
      destruct (Gc _ _ _ _ Hi Hn) as [ci' [G1 G2]]; eauto.
    + destruct (Hup _ _ _ H Hpar) as [ci [l' [Hi Hn]]].
      destruct (Gc _ _ _ _ Hi Hn) as [ci' [G1 G2]]; eauto.
  - intros i c0 l1 l2 j H. rewrite Ha' in H. eqb_in H; some_inv; simpl; eauto.
    rewrite !nth_error_set_nth.
    destruct (Nat.eqb_spec l l1) as [<-|N1]; destruct (Nat.eqb_spec l l2) as [<-|N2]; auto;
      rewrite ?Hl; intros H1 H2; some_inv. eauto.
  - intros i c0 H. rewrite Ha' in H. eqb_in H; some_inv; simpl; eauto.
  - intros j cj i H. rewrite Ha' in H. eqb_in H; some_inv; simpl; intros Hpar; eauto.
Qed.

(* Arena/IterCor.v -- corollaries about the coded machines (repaired code, variant v_cur): the size hint right
   after new(), the item streams without skips, idempotence of skip_subtree, breadth-first and depth-first
   traversals deliver the same items. *)
From Coq Require Import List Arith Lia Bool Permutation.
Import ListNotations.
From AT Require Import Cells Iter IterSpec IterProofs IterInst.

(* ---------------------------------------------------------------- size_hint() right after new() *)
Theorem hint_new_node {V} (a : arena V) troot T t : tree_inv a troot T -> subtree t T ->
  m_lb (dfspre_new a troot (idx t)) <= size t <= m_ub (dfspre_new a troot (idx t)) /\
  m_lb (bfs_new a troot (idx t)) <= size t <= m_ub (bfs_new a troot (idx t)).
Proof. intros Hinv Hsub. pose proof (lb0_ok a troot T t Hinv Hsub). simpl. lia. Qed.

Theorem hint_new_edge {V} (a : arena V) troot T t : tree_inv a troot T -> subtree t T ->
  exists m, dfsedge_new v_cur a troot (idx t) = ROk m /\ m_lb m <= size t - 1 <= m_ub m.
Proof.
  intros Hinv Hsub. destruct (lb0_ok a troot T t Hinv Hsub) as [Hlb Hub].
  pose proof (subtree_rep a t T Hsub troot (proj1 Hinv)) as Hr.
  destruct (represents_cell a _ t Hr) as (c & Hc & Hs).
  unfold dfsedge_new. simpl v_seed. cbv iota. rewrite Hc, (rep_slots_contains a _ _ Hs).
  eexists. split; [reflexivity|]. simpl. unfold lb0 in Hlb. destruct (idx t =? troot); lia.
Qed.

(* ---------------------------------------------------------------- the items of a run *)
Definition obs_out {E} (o : obs E) : option E := match o with ONext x _ _ => x | _ => None end.
Lemma match_out {E SE} (item : SE -> E) l l' : Forall2 (obs_match item) l l' ->
  map obs_out l = map (fun o => option_map item (sobs_out o)) l'.
Proof.
  induction 1 as [|o so l l' Ho _ IH]; [reflexivity|]. simpl. rewrite IH. f_equal.
  destruct o as [x lb ub|lb ub|], so as [sx rem|rem]; simpl in *; try contradiction; [tauto | reflexivity].
Qed.

(* without skips, n calls of next() on the coded machine return the first n items of the recursive listing of
   the start node's subtree, then None for ever *)
Theorem coded_pre_noskip {V} (a : arena V) troot T t n : tree_inv a troot T -> subtree t T ->
  map obs_out (dfspre_run v_cur a troot (idx t) (repeat Next n)) = map Some (firstn n (pre 0 0 t)) ++ repeat None (n - size t).
Proof. intros Hi Hs. rewrite (match_out sent_item _ _ (dfspre_refines a troot T t _ Hi Hs)). apply spec_pre_noskip. Qed.
Theorem coded_bfs_noskip {V} (a : arena V) troot T t n : tree_inv a troot T -> subtree t T ->
  map obs_out (bfs_run v_cur a troot (idx t) (repeat Next n)) = map Some (firstn n (level_order t)) ++ repeat None (n - size t).
Proof. intros Hi Hs. rewrite (match_out sent_item _ _ (bfs_refines a troot T t _ Hi Hs)). apply spec_bfs_noskip. Qed.
Definition ed_item (e : ed) : nat * nat * nat := (e_src e, e_label e, e_dest e).
Theorem coded_edge_noskip {V} (a : arena V) troot T t n : tree_inv a troot T -> subtree t T ->
  map (option_map ed_item) (map obs_out (dfsedge_run v_cur a troot (idx t) (repeat Next n))) =
  map Some (firstn n (pree t)) ++ repeat None (n - (size t - 1)).
Proof.
  intros Hi Hs. rewrite (match_out sedge_ed _ _ (dfsedge_refines a troot T t _ Hi Hs)), map_map.
  rewrite <- (spec_edge_noskip t n). apply map_ext. intros o. destruct (sobs_out o) as [[[[d s] l] u]|]; reflexivity.
Qed.
Theorem coded_poly_noskip {V} (a : arena V) troot T n : tree_inv a troot T ->
  map obs_out (poly_run v_cur a troot (repeat Next n)) = map Some (firstn n (pre 0 0 T)) ++ repeat None (n - size T).
Proof. intros Hi. rewrite (match_out sent_item _ _ (poly_refines a troot T _ Hi)). apply spec_pre_noskip. Qed.

(* ---------------------------------------------------------------- skip_subtree is idempotent on the coded machine *)
Lemma firstn_all_sub {A} (l : list A) : firstn (length l - 0) l = l.
Proof. rewrite Nat.sub_0_r. apply firstn_all. Qed.
Theorem coded_skip_idem {E} fifo (m m' : mach E) : m_skip v_cur fifo m = ROk m' -> m_skip v_cur fifo m' = ROk m'.
Proof.
  unfold m_skip. destruct (m_ub m <? m_last m); [discriminate|]. intros H. injection H as <-. simpl.
  destruct m as [p last lb ub]. simpl. f_equal. f_equal.
  - unfold drop_kids. destruct fifo; [apply firstn_all_sub | reflexivity].
  - unfold drop_kids. destruct fifo; [rewrite firstn_all_sub|]; reflexivity.
  - lia.
Qed.

(* ---------------------------------------------------------------- breadth-first and depth-first deliver the same items *)
Lemma perm_flat_cons {A B} (f : A -> B) (g : A -> list B) p :
  Permutation (flat_map (fun x => f x :: g x) p) (map f p ++ flat_map g p).
Proof.
  induction p as [|x p IH]; [constructor|]. simpl. constructor.
  etransitivity; [apply Permutation_app_head; exact IH|]. rewrite app_assoc.
  etransitivity; [apply Permutation_app_tail, Permutation_app_comm|]. rewrite <- app_assoc. reflexivity.
Qed.
Lemma flat_map_flat_map {A B C} (f : A -> list B) (g : B -> list C) p :
  flat_map g (flat_map f p) = flat_map (fun x => flat_map g (f x)) p.
Proof. induction p as [|x p IH]; [reflexivity|]. simpl. rewrite flat_map_app, IH. reflexivity. Qed.
Lemma levels_perm_pre : forall n p, total sent_size p <= n ->
  Permutation (map sent_item (levels expandS_pre n p)) (flat_map pre_sent p).
Proof.
  induction n as [|n IH]; intros p Hn.
  - destruct p as [|e r]; [constructor|]. rewrite (total_step false sent_size expandS_pre e r size_ok_pre) in Hn. lia.
  - simpl. rewrite map_app.
    assert (Ht : total sent_size p = length p + total sent_size (flat_map expandS_pre p)).
    { clear. induction p as [|x l IHl]; [reflexivity|].
      simpl flat_map. rewrite total_cons, total_app, (size_ok_pre x). simpl length. lia. }
    assert (Hfm : total sent_size (flat_map expandS_pre p) <= n).
    { destruct p as [|e r]; [unfold total; simpl; lia | simpl length in Ht; lia]. }
    etransitivity; [apply Permutation_app_head, IH; exact Hfm|].
    rewrite flat_map_flat_map. symmetry.
    etransitivity; [|apply perm_flat_cons]. apply Permutation_refl'. apply flat_map_ext. intros se. apply pre_sent_step.
Qed.
Theorem level_order_perm_pre t : Permutation (level_order t) (pre 0 0 t).
Proof.
  unfold level_order. etransitivity; [apply levels_perm_pre; unfold total; simpl; lia|]. simpl. rewrite app_nil_r. reflexivity.
Qed.

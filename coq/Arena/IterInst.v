(* Arena/IterInst.v -- the three coded machines refine the forest machine; the forest machine yields the
   recursive pre-order / level-order / edge lists. *)
From Coq Require Import List Arith Lia Bool.
Import ListNotations.
From AT Require Import Cells Iter IterSpec IterProofs.

(* ---------------------------------------------------------------- normal forms of the push loops *)
Fixpoint tagc (d : nat) (xs : list nat) : list nd :=
  match xs with [] => [] | x :: xs' => mknd d x (length xs') :: tagc d xs' end.
Fixpoint tagce (d src lab : nat) (os : list (option nat)) : list ed :=
  match os with
  | [] => []
  | None :: os' => tagce d src (S lab) os'
  | Some x :: os' => mked d src lab x :: tagce d src (S lab) os'
  end.

Lemma enum_from_cons {A} k (x : A) l : enum_from k (x :: l) = (k, x) :: enum_from (S k) l.
Proof. reflexivity. Qed.
Lemma enum_from_snoc {A} k (l : list A) x : enum_from k (l ++ [x]) = enum_from k l ++ [(k + length l, x)].
Proof.
  revert k. induction l as [|y l IH]; intros k.
  - unfold enum_from. simpl. rewrite Nat.add_0_r. reflexivity.
  - rewrite <- app_comm_cons, !enum_from_cons, IH. simpl.
    repeat f_equal. lia.
Qed.
Lemma somes_app {A} (l1 l2 : list (option A)) : somes (l1 ++ l2) = somes l1 ++ somes l2.
Proof. induction l1 as [|[x|] l1 IH]; simpl; auto. f_equal; auto. Qed.
Lemma somes_rev {A} (l : list (option A)) : somes (rev l) = rev (somes l).
Proof.
  induction l as [|[x|] l IH]; simpl; auto; rewrite somes_app, IH; simpl; auto. apply app_nil_r.
Qed.

Lemma push_pre_tagc d xs :
  fold_left (fun st p => mknd d (snd p) (fst p) :: st) (enumerate (rev xs)) [] = tagc d xs.
Proof.
  induction xs as [|x xs IH]; [reflexivity|]. simpl rev. unfold enumerate in *.
  rewrite enum_from_snoc, fold_left_app, IH. simpl. rewrite rev_length. reflexivity.
Qed.
Lemma expand_pre_nf {V} (a : arena V) e c :
  aget a (n_index e) = Some c -> expand_pre a e = Some (tagc (S (n_depth e)) (somes (c_children c))).
Proof. intros H. unfold expand_pre. rewrite H, somes_rev, push_pre_tagc. reflexivity. Qed.

Lemma map_bfs_tagc d n xs : forall k, n = k + length xs ->
  map (fun p : nat * nat => mknd d (snd p) (n - 1 - fst p)) (enum_from k xs) = tagc d xs.
Proof.
  induction xs as [|x xs IH]; intros k Hn; [reflexivity|].
  rewrite enum_from_cons. simpl in *. f_equal; [f_equal; lia | apply IH; lia].
Qed.
Lemma expand_bfs_nf {V} (a : arena V) e c :
  aget a (n_index e) = Some c -> expand_bfs v_cur a e = Some (tagc (S (n_depth e)) (somes (c_children c))).
Proof. intros H. unfold expand_bfs. rewrite H. simpl. f_equal. apply map_bfs_tagc. reflexivity. Qed.

Lemma push_edges_gen d src os : forall k st,
  fold_left (fun st (p : nat * option nat) => match snd p with Some x => mked d src (fst p) x :: st | None => st end)
            (rev (enum_from k os)) st = tagce d src k os ++ st.
Proof.
  induction os as [|o os IH]; intros k st; [reflexivity|].
  rewrite enum_from_cons. simpl rev. rewrite fold_left_app, IH. simpl. destruct o; reflexivity.
Qed.
Lemma push_edges_nf d src os : push_edges d src os [] = tagce d src 0 os.
Proof. unfold push_edges, enumerate. rewrite push_edges_gen. apply app_nil_r. Qed.

(* ---------------------------------------------------------------- represents *)
Lemma represents_idx {V} (a : arena V) i t : represents a i t -> idx t = i.
Proof. destruct t as [j ch]. intros H. apply represents_unfold in H as [H _]. exact H. Qed.
Lemma represents_cell {V} (a : arena V) i t :
  represents a i t -> exists c, aget a i = Some c /\ rep_slots a (c_children c) (slots t).
Proof. destruct t as [j ch]. intros H. apply represents_unfold in H as (_ & c & Hc & Hs). eauto. Qed.
Lemma rep_slots_nil_l {V} (a : arena V) ts : rep_slots a [] ts -> ts = [].
Proof. destruct ts; [reflexivity | intros H; simpl in H; contradiction]. Qed.
Lemma rep_slots_nil_r {V} (a : arena V) os : rep_slots a os [] -> os = [].
Proof. destruct os; [reflexivity | intros H; simpl in H; contradiction]. Qed.

Lemma rep_slots_count {V} (a : arena V) ts : forall os, rep_slots a os ts -> length (somes os) = count_some ts.
Proof.
  induction ts as [|ot ts IH]; intros os H.
  - apply rep_slots_nil_r in H. subst. reflexivity.
  - destruct os as [|o os]; [simpl in H; contradiction|]. apply rep_slots_cons in H as [Ho Hr].
    unfold count_some in *. destruct o, ot; try contradiction; simpl; rewrite (IH os Hr); reflexivity.
Qed.

Lemma rep_slots_in {V} (a : arena V) ts c : forall os, rep_slots a os ts -> In (Some c) ts -> exists k, represents a k c.
Proof.
  induction ts as [|ot ts IH]; intros os H Hin; [contradiction|].
  destruct os as [|o os]; [simpl in H; contradiction|]. apply rep_slots_cons in H as [Ho Hr].
  destruct Hin as [->|Hin]; [|eauto].
  destruct o; [eauto | contradiction].
Qed.

Lemma represents_fun {V} (a : arena V) t1 : forall i t2, represents a i t1 -> represents a i t2 -> t1 = t2.
Proof.
  induction t1 as [j ch IH] using itree_ind'. intros i [j2 ch2] H1 H2.
  apply represents_unfold in H1 as (E1 & c & Hc & Hs1). apply represents_unfold in H2 as (E2 & c2 & Hc2 & Hs2).
  subst j j2. rewrite Hc in Hc2. injection Hc2 as <-. f_equal.
  revert ch2 Hs2. generalize dependent (c_children c). clear Hc.
  induction ch as [|ot ch IHch]; intros os Hs1 ch2 Hs2.
  - apply rep_slots_nil_r in Hs1. subst os. apply rep_slots_nil_l in Hs2. auto.
  - destruct os as [|o os]; [simpl in Hs1; contradiction|]. destruct ch2 as [|ot2 ch2]; [simpl in Hs2; contradiction|].
    apply rep_slots_cons in Hs1 as [Ha Hs1]. apply rep_slots_cons in Hs2 as [Hb Hs2].
    inversion IH as [|x l IHo IHr]; subst x l.
    f_equal; [|eapply IHch; eauto].
    destruct o as [k|], ot as [u1|], ot2 as [u2|]; try contradiction; [|reflexivity]. f_equal. simpl in IHo.
    exact (IHo k u2 Ha Hb).
Qed.

Lemma unfold_slots_sound {V} (a : arena V) rec :
  (forall k t, rec k = Some t -> represents a k t) ->
  forall os ts, unfold_slots rec os = Some ts -> rep_slots a os ts.
Proof.
  intros Hrec. induction os as [|[k|] os IH]; intros ts H; simpl in H.
  - injection H as <-. exact I.
  - destruct (rec k) as [t|] eqn:Hk; [|discriminate]. destruct (unfold_slots rec os) as [ts'|]; [|discriminate].
    injection H as <-. apply rep_slots_cons. split; [apply Hrec; exact Hk | apply IH; reflexivity].
  - destruct (unfold_slots rec os) as [ts'|]; [|discriminate]. simpl in H. injection H as <-.
    apply rep_slots_cons. split; [exact I | apply IH; reflexivity].
Qed.
Lemma unfold_sound {V} (a : arena V) fuel : forall i t, unfold a fuel i = Some t -> represents a i t.
Proof.
  induction fuel as [|f IH]; intros i t H; [discriminate|]. simpl in H.
  destruct (aget a i) as [c|] eqn:Hc; [|discriminate].
  destruct (unfold_slots (unfold a f) (c_children c)) as [ts|] eqn:Hs; [|discriminate].
  simpl in H. injection H as <-. apply represents_unfold. split; [reflexivity|].
  exists c. split; [exact Hc|]. eapply unfold_slots_sound; eauto.
Qed.

(* ---------------------------------------------------------------- sizes *)
Lemma size_tagk i ch d : size (IN i ch) = S (total sent_size (tagk d ch)).
Proof.
  simpl. f_equal. induction ch as [|[c|] ch IH]; simpl; auto. rewrite total_cons. simpl. lia.
Qed.
Lemma size_tage i ch d src : forall lab, size (IN i ch) = S (total sedge_size (tage d src lab ch)).
Proof.
  intros lab. simpl. f_equal. revert lab. induction ch as [|[c|] ch IH]; intros lab; simpl; auto.
  rewrite total_cons. simpl. rewrite (IH (S lab)). lia.
Qed.
Lemma size_pos t : 1 <= size t.
Proof. destruct t; simpl; lia. Qed.

Lemma size_ok_pre : size_ok sent_size expandS_pre.
Proof. intros [[d r] [i ch]]. exact (size_tagk i ch (S d)). Qed.
Lemma size_ok_edge : size_ok sedge_size expandS_edge.
Proof. intros [[[d s] l] [i ch]]. exact (size_tage i ch (S d) i 0). Qed.

(* ---------------------------------------------------------------- subtrees *)
Lemma in_slot_size c ch : In (Some c) ch ->
  size c <= list_sum (map (fun o : option itree => match o with Some c => size c | None => 0 end) ch).
Proof.
  induction ch as [|o ch IH]; intros Hin; [contradiction|]. simpl.
  destruct Hin as [->|Hin]; [lia|]. specialize (IH Hin). lia.
Qed.
Lemma subtree_size t T : subtree t T -> size t <= size T.
Proof.
  induction 1 as [t|t i ch c Hin _ IH]; [lia|]. pose proof (in_slot_size c ch Hin). simpl. lia.
Qed.
Lemma subtree_rep {V} (a : arena V) t T : subtree t T -> forall i, represents a i T -> represents a (idx t) t.
Proof.
  induction 1 as [t|t i0 ch c Hin _ IH]; intros i Hr.
  - rewrite (represents_idx a i t Hr). exact Hr.
  - apply represents_unfold in Hr as (_ & cl & _ & Hs).
    destruct (rep_slots_in a ch c _ Hs Hin) as (k & Hk). eapply IH; eauto.
Qed.
Lemma subtree_trans t1 t2 t3 : subtree t1 t2 -> subtree t2 t3 -> subtree t1 t3.
Proof. intros H12 H23. induction H23; auto. econstructor; eauto. Qed.

(* ---------------------------------------------------------------- the simulation relations *)
Definition Rpre {V} (a : arena V) (e : nd) (se : sent) : Prop :=
  e = sent_item se /\ represents a (idx (snd se)) (snd se).
Definition sedge_ed (se : sedge) : ed := let '(d, s, l, t) := se in mked d s l (idx t).
Definition Redge {V} (a : arena V) (e : ed) (se : sedge) : Prop :=
  e = sedge_ed se /\ represents a (idx (snd se)) (snd se).

Lemma rep_slots_tagc {V} (a : arena V) d ts : forall os, rep_slots a os ts ->
  Forall2 (Rpre a) (tagc d (somes os)) (tagk d ts).
Proof.
  induction ts as [|ot ts IH]; intros os H.
  - apply rep_slots_nil_r in H. subst. constructor.
  - destruct os as [|o os]; [simpl in H; contradiction|]. apply rep_slots_cons in H as [Ho Hr].
    destruct o as [k|], ot as [c|]; try contradiction; simpl; [|apply IH; exact Hr].
    constructor; [|apply IH; exact Hr].
    split; simpl.
    + rewrite (represents_idx a k c Ho), (rep_slots_count a ts os Hr). reflexivity.
    + rewrite (represents_idx a k c Ho). exact Ho.
Qed.
Lemma rep_slots_tagce {V} (a : arena V) d src ts : forall os lab, rep_slots a os ts ->
  Forall2 (Redge a) (tagce d src lab os) (tage d src lab ts).
Proof.
  induction ts as [|ot ts IH]; intros os lab H.
  - apply rep_slots_nil_r in H. subst. constructor.
  - destruct os as [|o os]; [simpl in H; contradiction|]. apply rep_slots_cons in H as [Ho Hr].
    destruct o as [k|], ot as [c|]; try contradiction; simpl; [|apply IH; exact Hr].
    constructor; [|apply IH; exact Hr].
    split; simpl; rewrite (represents_idx a k c Ho); [reflexivity | exact Ho].
Qed.

Lemma expand_ok_pre {V} (a : arena V) : expand_ok (Rpre a) (expand_pre a) expandS_pre.
Proof.
  intros e [[d r] t] [He Hr]. simpl in *. subst e. simpl.
  destruct (represents_cell a _ t Hr) as (c & Hc & Hs).
  eexists. split; [apply expand_pre_nf; simpl; exact Hc|]. simpl. apply rep_slots_tagc. exact Hs.
Qed.
Lemma expand_ok_bfs {V} (a : arena V) : expand_ok (Rpre a) (expand_bfs v_cur a) expandS_pre.
Proof.
  intros e [[d r] t] [He Hr]. simpl in *. subst e. simpl.
  destruct (represents_cell a _ t Hr) as (c & Hc & Hs).
  eexists. split; [apply expand_bfs_nf; simpl; exact Hc|]. simpl. apply rep_slots_tagc. exact Hs.
Qed.
Lemma expand_ok_edge {V} (a : arena V) : expand_ok (Redge a) (expand_edge a) expandS_edge.
Proof.
  intros e [[[d s] l] t] [He Hr]. simpl in *. subst e. simpl.
  destruct (represents_cell a _ t Hr) as (c & Hc & Hs).
  unfold expand_edge. simpl. rewrite Hc, push_edges_nf.
  eexists. split; [reflexivity|]. apply rep_slots_tagce. exact Hs.
Qed.

(* ---------------------------------------------------------------- refinement theorems *)
(* the arena is the tree T below troot and holds nothing else (every occupied cell is reachable) *)
Definition tree_inv {V} (a : arena V) (troot : nat) (T : itree) : Prop := represents a troot T /\ alen a = size T.

Definition obs_match {E SE} (item : SE -> E) (o : obs E) (so : sobs SE) : Prop :=
  match o, so with
  | ONext x lb ub, SNext sx rem => x = option_map item sx /\ lb <= rem <= ub
  | OSkip lb ub, SSkip rem => lb <= rem <= ub
  | _, _ => False
  end.
Lemma obs_ok_match {E SE} (R : E -> SE -> Prop) (item : SE -> E) :
  (forall e se, R e se -> e = item se) -> forall o so, obs_ok R o so -> obs_match item o so.
Proof.
  intros HR [[e|] lb ub|lb ub|] [[se|] rem|rem]; simpl; try tauto.
  intros [H1 H2]. split; [f_equal; apply HR; exact H1 | exact H2].
Qed.
Lemma Forall2_imp {A B} (P Q : A -> B -> Prop) l l' : (forall x y, P x y -> Q x y) -> Forall2 P l l' -> Forall2 Q l l'.
Proof. intros H. induction 1; constructor; auto. Qed.

Lemma lb0_ok {V} (a : arena V) troot T t : tree_inv a troot T -> subtree t T ->
  lb0 a troot (idx t) <= size t /\ size t <= alen a.
Proof.
  intros [Hrep Hlen] Hsub. pose proof (subtree_size t T Hsub). split; [|lia].
  unfold lb0. destruct (Nat.eqb_spec (idx t) troot) as [E|E]; [|lia].
  pose proof (subtree_rep a t T Hsub troot Hrep) as Hr. rewrite E in Hr.
  rewrite (represents_fun a t troot T Hr Hrep). lia.
Qed.

Lemma pre_init_inv {V} (a : arena V) fifo troot T t : tree_inv a troot T -> subtree t T ->
  siminv (Rpre a) fifo sent_size (mkmach [mknd 0 (idx t) 0] 0 (lb0 a troot (idx t)) (alen a)) (spec_pre_init t).
Proof.
  intros Hinv Hsub. destruct (lb0_ok a troot T t Hinv Hsub) as [Hlb Hub]. destruct Hinv as [Hrep Hlen].
  assert (Hp : s_pend fifo (spec_pre_init t) = [(0, 0, t)]) by (destruct fifo; reflexivity).
  unfold siminv, remaining. rewrite Hp. simpl m_pend. simpl m_last. simpl m_lb. simpl m_ub.
  split; [|split; [reflexivity|]].
  - constructor; [|constructor]. split; [reflexivity|]. simpl. eapply subtree_rep; eauto.
  - unfold total; simpl. lia.
Qed.

Theorem dfspre_refines {V} (a : arena V) troot T t sc : tree_inv a troot T -> subtree t T ->
  Forall2 (obs_match sent_item) (dfspre_run v_cur a troot (idx t) sc) (spec_pre_run sc t).
Proof.
  intros Hinv Hsub. unfold dfspre_run, spec_pre_run, dfspre_new.
  eapply Forall2_imp; [apply (obs_ok_match (Rpre a)); intros e se [H _]; exact H|].
  apply sim_run; [apply expand_ok_pre | apply size_ok_pre | eapply pre_init_inv; eauto].
Qed.

Theorem bfs_refines {V} (a : arena V) troot T t sc : tree_inv a troot T -> subtree t T ->
  Forall2 (obs_match sent_item) (bfs_run v_cur a troot (idx t) sc) (spec_bfs_run sc t).
Proof.
  intros Hinv Hsub. unfold bfs_run, spec_bfs_run, bfs_new.
  eapply Forall2_imp; [apply (obs_ok_match (Rpre a)); intros e se [H _]; exact H|].
  apply sim_run; [apply expand_ok_bfs | apply size_ok_pre | eapply pre_init_inv; eauto].
Qed.

Lemma rep_slots_contains {V} (a : arena V) ts : forall os, rep_slots a os ts -> forallb (acontains a) (somes os) = true.
Proof.
  induction ts as [|ot ts IH]; intros os H.
  - apply rep_slots_nil_r in H. subst. reflexivity.
  - destruct os as [|o os]; [simpl in H; contradiction|]. apply rep_slots_cons in H as [Ho Hr].
    destruct o as [k|], ot as [c|]; try contradiction; simpl; [|apply IH; exact Hr].
    rewrite (IH os Hr), andb_true_r. destruct (represents_cell a k c Ho) as (cl & Hc & _).
    unfold acontains. rewrite Hc. reflexivity.
Qed.

Theorem dfsedge_refines {V} (a : arena V) troot T t sc : tree_inv a troot T -> subtree t T ->
  Forall2 (obs_match sedge_ed) (dfsedge_run v_cur a troot (idx t) sc) (spec_edge_run sc t).
Proof.
  intros Hinv Hsub. destruct (lb0_ok a troot T t Hinv Hsub) as [Hlb Hub].
  pose proof (subtree_rep a t T Hsub troot (proj1 Hinv)) as Hr.
  destruct (represents_cell a _ t Hr) as (c & Hc & Hs).
  unfold dfsedge_run, dfsedge_new, spec_edge_run. simpl v_seed. cbv iota. rewrite Hc.
  rewrite (rep_slots_contains a _ _ Hs), push_edges_nf. simpl v_edge_lb. cbv iota.
  eapply Forall2_imp; [apply (obs_ok_match (Redge a)); intros e se [H _]; exact H|].
  apply sim_run; [apply expand_ok_edge | apply size_ok_edge |].
  pose proof (rep_slots_tagce a 1 (idx t) (slots t) (c_children c) 0 Hs) as HF.
  unfold siminv, remaining, spec_edge_init, s_pend. simpl. rewrite app_nil_r.
  split; [exact HF|]. split; [apply (Forall2_length HF)|].
  destruct t as [i ch]. simpl slots in *. simpl idx in *.
  pose proof (size_tage i ch 1 i 0) as Hsz. unfold lb0 in Hlb.
  destruct (i =? troot); lia.
Qed.

(* PolyhedraIter: the DfsPre traversal from the root, with the traversal's own size hint *)
Theorem poly_refines {V} (a : arena V) troot T sc : tree_inv a troot T ->
  Forall2 (obs_match sent_item) (poly_run v_cur a troot sc) (spec_pre_run sc T).
Proof.
  intros Hinv. unfold poly_run. rewrite (map_ext _ (fun o => o)) by reflexivity. rewrite map_id.
  pose proof (dfspre_refines a troot T T sc Hinv (sub_refl T)) as H.
  rewrite (represents_idx a troot T (proj1 Hinv)) in H. exact H.
Qed.

(* ---------------------------------------------------------------- the forest machine against the recursive lists *)
Definition pre_sent (se : sent) : list nd := let '(d, r, t) := se in pre d r t.
Lemma pre_slots_tagk d ch : pre_slots d ch = flat_map pre_sent (tagk d ch).
Proof. induction ch as [|[c|] ch IH]; [reflexivity| |]; rewrite pre_slots_cons, IH; reflexivity. Qed.
Lemma pre_sent_step se : pre_sent se = sent_item se :: flat_map pre_sent (expandS_pre se).
Proof. destruct se as [[d r] [i ch]]. simpl. rewrite <- pre_slots_tagk. reflexivity. Qed.

Lemma drain_pre : forall f p, total sent_size p <= f ->
  map sent_item (drain false expandS_pre f p) = flat_map pre_sent p.
Proof.
  induction f as [|f IH]; intros p Hf.
  - destruct p as [|e r]; [reflexivity|]. rewrite (total_step false sent_size expandS_pre e r size_ok_pre) in Hf. lia.
  - destruct p as [|e r]; [reflexivity|]. rewrite (total_step false sent_size expandS_pre e r size_ok_pre) in Hf.
    simpl. rewrite IH by lia. rewrite flat_map_app, pre_sent_step. reflexivity.
Qed.
Theorem future_pre p : map sent_item (future false expandS_pre sent_size p) = flat_map pre_sent p.
Proof. unfold future. apply drain_pre. lia. Qed.

Definition pree_sedge (se : sedge) : list (nat * nat * nat) := let '(_, s, l, t) := se in (s, l, idx t) :: pree t.
Lemma pree_slots_tage d i ch : forall lab, pree_slots i lab ch = flat_map pree_sedge (tage d i lab ch).
Proof. induction ch as [|[c|] ch IH]; intros lab; [reflexivity| |]; rewrite pree_slots_cons, IH; reflexivity. Qed.
Lemma pree_sedge_step se : pree_sedge se = sedge_item se :: flat_map pree_sedge (expandS_edge se).
Proof. destruct se as [[[d s] l] [i ch]]. simpl. rewrite <- pree_slots_tage. reflexivity. Qed.
Lemma drain_edge : forall f p, total sedge_size p <= f ->
  map sedge_item (drain false expandS_edge f p) = flat_map pree_sedge p.
Proof.
  induction f as [|f IH]; intros p Hf.
  - destruct p as [|e r]; [reflexivity|]. rewrite (total_step false sedge_size expandS_edge e r size_ok_edge) in Hf. lia.
  - destruct p as [|e r]; [reflexivity|]. rewrite (total_step false sedge_size expandS_edge e r size_ok_edge) in Hf.
    simpl. rewrite IH by lia. rewrite flat_map_app, pree_sedge_step. reflexivity.
Qed.
Theorem future_edge p : map sedge_item (future false expandS_edge sedge_size p) = flat_map pree_sedge p.
Proof. unfold future. apply drain_edge. lia. Qed.

Lemma map_firstn {A B} (f : A -> B) n l : map f (firstn n l) = firstn n (map f l).
Proof. revert l. induction n; intros [|x l]; simpl; auto. f_equal; auto. Qed.
Lemma map_repeat_none {A B} (f : option A -> option B) n : f None = None -> map f (repeat None n) = repeat None n.
Proof. intros H. induction n; simpl; auto. rewrite H, IHn. reflexivity. Qed.

(* without skips: the first n calls of next return the first n items of the pre-order list, then None *)
Theorem spec_pre_noskip t n :
  map (fun o => option_map sent_item (sobs_out o)) (spec_pre_run (repeat Next n) t) =
  map Some (firstn n (pre 0 0 t)) ++ repeat None (n - size t).
Proof.
  unfold spec_pre_run. rewrite <- map_map, (nexts_future false sent_size expandS_pre size_ok_pre).
  rewrite map_app, map_map. rewrite map_repeat_none by reflexivity.
  replace (s_pend false (spec_pre_init t)) with [(0, 0, t)] by reflexivity.
  f_equal.
  - rewrite <- (map_map sent_item Some), map_firstn, future_pre. simpl. rewrite app_nil_r. reflexivity.
  - unfold remaining, total. simpl. rewrite Nat.add_0_r. reflexivity.
Qed.

Theorem spec_bfs_noskip t n :
  map (fun o => option_map sent_item (sobs_out o)) (spec_bfs_run (repeat Next n) t) =
  map Some (firstn n (level_order t)) ++ repeat None (n - size t).
Proof.
  unfold spec_bfs_run. rewrite <- map_map, (nexts_future true sent_size expandS_pre size_ok_pre).
  rewrite map_app, map_map. rewrite map_repeat_none by reflexivity.
  replace (s_pend true (spec_pre_init t)) with [(0, 0, t)] by reflexivity.
  f_equal.
  - rewrite <- (map_map sent_item Some), map_firstn. unfold level_order.
    rewrite (future_fifo_levels sent_size expandS_pre size_ok_pre (size t)); [reflexivity|].
    unfold total. simpl. lia.
  - unfold remaining, total. simpl. rewrite Nat.add_0_r. reflexivity.
Qed.

Theorem spec_edge_noskip t n :
  map (fun o => option_map sedge_item (sobs_out o)) (spec_edge_run (repeat Next n) t) =
  map Some (firstn n (pree t)) ++ repeat None (n - (size t - 1)).
Proof.
  unfold spec_edge_run. rewrite <- map_map, (nexts_future false sedge_size expandS_edge size_ok_edge).
  rewrite map_app, map_map. rewrite map_repeat_none by reflexivity.
  destruct t as [i ch].
  replace (s_pend false (spec_edge_init (IN i ch))) with (tage 1 i 0 ch) by (unfold s_pend; simpl; rewrite app_nil_r; reflexivity).
  f_equal.
  - rewrite <- (map_map sedge_item Some), map_firstn, future_edge, <- pree_slots_tage. reflexivity.
  - unfold remaining. replace (s_pend false (spec_edge_init (IN i ch))) with (tage 1 i 0 ch)
      by (unfold s_pend; simpl; rewrite app_nil_r; reflexivity).
    rewrite (size_tage i ch 1 i 0). f_equal. lia.
Qed.

(* ---------------------------------------------------------------- Skip, concretely *)
(* depth-first nodes: in any state, the items still to come are the pre-order lists of the not yet entered
   children of the last item (= all its proper descendants still to come), followed by what Skip keeps *)
Theorem spec_pre_skip_exact (s : sst sent) :
  map sent_item (future false expandS_pre sent_size (s_pend false s)) =
  flat_map pre_sent (s_kids s) ++ map sent_item (future false expandS_pre sent_size (s_pend false (s_skip s))).
Proof. rewrite (skip_exact_lifo sent_size expandS_pre s size_ok_pre), map_app, future_pre. reflexivity. Qed.
(* right after Next returned the item of (d, r, t), that block is the pre-order list of t without t itself *)
Theorem spec_pre_kids_after_next fifo (s s' : sst sent) d r t :
  s_next fifo expandS_pre s = (Some (d, r, t), s') -> flat_map pre_sent (s_kids s') = tl (pre d r t).
Proof.
  intros H. rewrite (s_next_kids fifo expandS_pre s _ s' H).
  change (pre d r t) with (pre_sent (d, r, t)). rewrite pre_sent_step. reflexivity.
Qed.
Theorem spec_edge_skip_exact (s : sst sedge) :
  map sedge_item (future false expandS_edge sedge_size (s_pend false s)) =
  flat_map pree_sedge (s_kids s) ++ map sedge_item (future false expandS_edge sedge_size (s_pend false (s_skip s))).
Proof. rewrite (skip_exact_lifo sedge_size expandS_edge s size_ok_edge), map_app, future_edge. reflexivity. Qed.
Theorem spec_edge_kids_after_next (s s' : sst sedge) d sr l t :
  s_next false expandS_edge s = (Some (d, sr, l, t), s') -> flat_map pree_sedge (s_kids s') = pree t.
Proof.
  intros H. rewrite (s_next_kids false expandS_edge s _ s' H).
  pose proof (pree_sedge_step (d, sr, l, t)) as E. simpl in E. injection E as E. symmetry. exact E.
Qed.

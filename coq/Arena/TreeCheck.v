(* Arena/TreeCheck.v -- executable version of the C12 invariant (run by the model runner on every dumped arena)
   and its soundness: invb K st = true -> Inv K st. *)
From Coq Require Import List Arith Lia Bool.
From AT Require Import Cells Tree TreeLemmas TreeInv.
Import ListNotations.

Definition opt_nat_eqb (x y : option nat) : bool :=
  match x, y with Some p, Some q => Nat.eqb p q | None, None => true | _, _ => false end.
Fixpoint nodupb (l : list nat) : bool :=
  match l with [] => true | x :: t => negb (existsb (Nat.eqb x) t) && nodupb t end.
(* number of parent links from i up to a parentless cell, if reached within the fuel *)
Fixpoint depth_of (a : arena nat) (fuel i : nat) : option nat :=
  match fuel with
  | O => None
  | S f =>
    match aget a i with
    | None => None
    | Some c => match c_parent c with None => Some 0 | Some p => option_map S (depth_of a f p) end
    end
  end.

Definition cell_okb (K : nat) (a : arena nat) (r i : nat) (c : cell nat) : bool :=
  Nat.eqb (length (c_children c)) K
  && Bool.eqb (c_leaf c) (all_none (c_children c))
  && forallb (fun j => match aget a j with Some cj => opt_nat_eqb (c_parent cj) (Some i) | None => false end)
             (somes (c_children c))
  && nodupb (somes (c_children c))
  && match c_parent c with
     | None => Nat.eqb i r
     | Some p => match aget a p with Some pc => existsb (Nat.eqb i) (somes (c_children pc)) | None => false end
     end
  && match depth_of a (S (length a)) i with Some _ => true | None => false end.

Definition invb (K : nat) (st : tstate) : bool :=
  match t_root st with
  | None => false
  | Some r =>
    match aget (t_arena st) r with Some c => is_none (c_parent c) | None => false end
    && forallb (fun i => match aget (t_arena st) i with Some c => cell_okb K (t_arena st) r i c | None => true end)
               (seq 0 (length (t_arena st)))
  end.

Lemma depth_of_mono a f : forall i m, depth_of a f i = Some m -> depth_of a (S f) i = Some m.
Proof.
  induction f as [|f IH]; intros i m H; [discriminate|].
  simpl in H. change (depth_of a (S (S f)) i) with
    (match aget a i with None => None | Some c => match c_parent c with None => Some 0 | Some p => option_map S (depth_of a (S f) p) end end).
  destruct (aget a i) as [c|]; [|discriminate]. destruct (c_parent c) as [p|]; auto.
  destruct (depth_of a f p) as [k|] eqn:E; [|discriminate]. rewrite (IH _ _ E). auto.
Qed.

Lemma nodupb_NoDup l : nodupb l = true -> NoDup l.
Proof.
  induction l as [|x t IH]; simpl; intros H; constructor; apply andb_prop in H as [H1 H2]; auto.
  intros Hin. apply negb_true_iff in H1. assert (existsb (Nat.eqb x) t = true); [|congruence].
  apply existsb_exists. exists x. split; auto. apply Nat.eqb_refl.
Qed.

Lemma NoDup_somes_slot ch : NoDup (somes ch) ->
  forall l l' j, nth_error ch l = Some (Some j) -> nth_error ch l' = Some (Some j) -> l = l'.
Proof.
  induction ch as [|[x|] t IH]; simpl; intros H l l' j H1 H2.
  - destruct l; discriminate.
  - inversion H as [|? ? Nx Nt]; subst.
    destruct l as [|l], l' as [|l']; simpl in *; auto.
    + exfalso. apply Nx. apply In_somes. exists l'. congruence.
    + exfalso. apply Nx. apply In_somes. exists l. congruence.
    + f_equal. eapply IH; eauto.
  - destruct l as [|l], l' as [|l']; simpl in *; try discriminate. f_equal. eapply IH; eauto.
Qed.

Lemma aget_lt {V} (a : arena V) i c : aget a i = Some c -> i < length a.
Proof.
  unfold aget. intros H. apply nth_error_Some. destruct (nth_error a i); congruence.
Qed.

Theorem invb_sound K st : invb K st = true -> Inv K st.
Proof.
  unfold invb. destruct (t_root st) as [r|] eqn:Hr; [|discriminate].
  set (a := t_arena st). intros H. apply andb_prop in H as [H0 Hall].
  rewrite forallb_forall in Hall.
  assert (Cell : forall i c, aget a i = Some c -> cell_okb K a r i c = true).
  { intros i c Hi. specialize (Hall i). rewrite Hi in Hall. apply Hall.
    apply in_seq. pose proof (aget_lt _ _ _ Hi). lia. }
  exists r, (fun i => match depth_of a (S (length a)) i with Some n => n | None => 0 end).
  split; auto.
  assert (Parts : forall i c, aget a i = Some c ->
    length (c_children c) = K /\ c_leaf c = all_none (c_children c) /\
    (forall j, In j (somes (c_children c)) -> exists cj, aget a j = Some cj /\ c_parent cj = Some i) /\
    NoDup (somes (c_children c)) /\
    match c_parent c with
    | None => i = r
    | Some p => exists pc, aget a p = Some pc /\ In i (somes (c_children pc))
    end /\
    exists n, depth_of a (S (length a)) i = Some n).
  { intros i c Hi. pose proof (Cell _ _ Hi) as HC. unfold cell_okb in HC.
    repeat (apply andb_prop in HC as [HC ?]).
    split; [apply Nat.eqb_eq; auto|]. split; [apply eqb_prop; auto|].
    split; [|split; [apply nodupb_NoDup; auto|split]].
    - intros j Hj. rewrite forallb_forall in H3. specialize (H3 j Hj).
      destruct (aget a j) as [cj|]; [|discriminate]. exists cj. split; auto.
      destruct (c_parent cj) as [q|]; simpl in H3; [|discriminate]. apply Nat.eqb_eq in H3. congruence.
    - destruct (c_parent c) as [p|].
      + destruct (aget a p) as [pc|]; [|discriminate]. exists pc. split; auto.
        apply existsb_exists in H1 as [x [G1 G2]]. apply Nat.eqb_eq in G2. congruence.
      + apply Nat.eqb_eq; auto.
    - destruct (depth_of a (S (length a)) i); [eauto|discriminate]. }
  fold a. constructor.
  - destruct (aget a r) as [c|]; [|discriminate]. exists c. split; auto. destruct (c_parent c); [discriminate|auto].
  - intros i c Hi. apply (Parts _ _ Hi).
  - intros i c Hi. apply (Parts _ _ Hi).
  - intros i c l j Hi Hn. apply (Parts _ _ Hi). apply In_somes; eauto.
  - intros j cj i Hj Hp. destruct (Parts _ _ Hj) as [_ [_ [_ [_ [P _]]]]]. rewrite Hp in P.
    destruct P as [pc [G1 G2]]. apply In_somes in G2 as [l G2]. eauto.
  - intros i c l l' j Hi. apply NoDup_somes_slot. apply (Parts _ _ Hi).
  - intros i c Hi Hp. destruct (Parts _ _ Hi) as [_ [_ [_ [_ [P _]]]]]. rewrite Hp in P. auto.
  - intros j cj i Hj Hp. destruct (Parts _ _ Hj) as [_ [_ [_ [_ [_ [n Hn]]]]]]. rewrite Hn.
    simpl in Hn. rewrite Hj, Hp in Hn.
    destruct (depth_of a (length a) i) as [m|] eqn:E; [|discriminate].
    rewrite (depth_of_mono _ _ _ _ E). simpl in Hn. inversion Hn. lia.
Qed.

(* Arena/IterBridge.v -- C12's arena invariant (TreeInv.Inv: what every history of Tree operations maintains)
   yields the hypotheses of the C13 theorems: the arena unfolds to a tree T below its root, holds exactly the
   nodes of T, each once, with consistent leaf flags and parent links (minv). *)
From Coq Require Import List Arith Lia Bool Permutation.
Import ListNotations.
From AT Require Import Cells Iter IterSpec IterProofs IterInst IterMetrics IterMetricsProofs.
From AT Require Tree TreeLemmas TreeInv TreeOps.
Local Open Scope nat_scope.

(* ---------------------------------------------------------------- the arena unfolds (ranks bound the depth) *)
Lemma unfold_slots_ok (rec : nat -> option itree) os :
  (forall j, In (Some j) os -> exists t, rec j = Some t) -> exists ts, unfold_slots rec os = Some ts.
Proof.
  induction os as [|o os IH]; intros H; [exists []; reflexivity|].
  destruct IH as (ts & Hts); [intros j Hj; apply H; right; exact Hj|].
  destruct o as [k|]; simpl.
  - destruct (H k (or_introl eq_refl)) as (t & Ht). rewrite Ht, Hts. eauto.
  - rewrite Hts. simpl. eauto.
Qed.

Lemma unfold_exists K a r d (HI : TreeInv.AInv K a r d) M : (forall i c, aget a i = Some c -> d i <= M) ->
  forall f i c, aget a i = Some c -> M - d i < f -> exists t, unfold a f i = Some t.
Proof.
  intros HM. induction f as [|f IH]; intros i c Hc Hf; [lia|].
  simpl. rewrite Hc.
  destruct (unfold_slots_ok (unfold a f) (c_children c)) as (ts & Hts).
  - intros j Hj. apply In_nth_error in Hj as (l & Hl).
    destruct (TreeInv.inv_down _ _ _ _ HI i c l j Hc Hl) as (cj & Hcj & Hpar).
    pose proof (TreeInv.inv_rank _ _ _ _ HI j cj i Hcj Hpar) as Hrk.
    pose proof (HM j cj Hcj). apply (IH j cj Hcj). lia.
  - rewrite Hts. simpl. eauto.
Qed.

(* ---------------------------------------------------------------- ancestors by parent pointers *)
Inductive anc (a : arena nat) : nat -> nat -> Prop :=
| anc_refl : forall j, anc a j j
| anc_step : forall j cj p k, aget a j = Some cj -> c_parent cj = Some p -> anc a p k -> anc a j k.

Lemma anc_rank K a r d (HI : TreeInv.AInv K a r d) j k : anc a j k -> d k <= d j /\ (j <> k -> d k < d j).
Proof.
  induction 1 as [j|j cj p k Hc Hp _ IH]; [split; [lia | congruence]|].
  pose proof (TreeInv.inv_rank _ _ _ _ HI j cj p Hc Hp). destruct IH as [IH _]. split; intros; lia.
Qed.
Lemma anc_linear a j k1 k2 : anc a j k1 -> anc a j k2 -> anc a k1 k2 \/ anc a k2 k1.
Proof.
  intros H1. revert k2. induction H1 as [j|j cj p k1 Hc Hp H1 IH]; intros k2 H2; [left; exact H2|].
  inversion H2 as [|j' cj' p' k' Hc' Hp' H2']; subst.
  - right. econstructor; eauto.
  - rewrite Hc in Hc'. injection Hc' as <-. rewrite Hp in Hp'. injection Hp' as <-. exact (IH k2 H2').
Qed.
Lemma anc_trans a j k m : anc a j k -> anc a k m -> anc a j m.
Proof. induction 1; intros; [assumption | econstructor; eauto]. Qed.

Definition kid_idxs (ch : list (option itree)) : list nat :=
  flat_map (fun o => match o with Some c0 => idxs c0 | None => [] end) ch.
Lemma kid_idxs_cons o ch : kid_idxs (o :: ch) = match o with Some c0 => idxs c0 | None => [] end ++ kid_idxs ch.
Proof. reflexivity. Qed.
Lemma idxs_unfold i ch : idxs (IN i ch) = i :: kid_idxs ch.
Proof. reflexivity. Qed.

Definition anc_prop (a : arena nat) (t : itree) : Prop := forall k, represents a k t -> forall j, In j (idxs t) -> anc a j k.

(* a node below one of the slots has that slot's child among its ancestors *)
Lemma slots_anc_gen a j ch : Forall (oP (anc_prop a)) ch -> forall os, rep_slots a os ch -> In j (kid_idxs ch) ->
  exists l k', nth_error os l = Some (Some k') /\ anc a j k'.
Proof.
  induction ch as [|o ch IHch]; intros IH os Hs Hj; [contradiction|].
  destruct os as [|o' os]; [simpl in Hs; contradiction|]. apply rep_slots_cons in Hs as [Ho Hs].
  inversion IH as [|x l IHo IHr]; subst x l.
  rewrite kid_idxs_cons in Hj. apply in_app_iff in Hj as [Hj|Hj].
  - destruct o' as [k'|], o as [c'|]; try contradiction. exists 0, k'. split; [reflexivity|]. exact (IHo k' Ho j Hj).
  - destruct (IHch IHr os Hs Hj) as (l & k' & Hl & Ha). exists (S l), k'. auto.
Qed.

(* every node of the unfolded subtree has the subtree's root among its ancestors *)
Lemma idxs_anc K a r d (HI : TreeInv.AInv K a r d) : forall t, anc_prop a t.
Proof.
  induction t as [i ch IH] using itree_ind'. intros k Hr j Hj.
  apply represents_unfold in Hr as (-> & c & Hc & Hs).
  rewrite idxs_unfold in Hj. destruct Hj as [<-|Hj]; [constructor|].
  destruct (slots_anc_gen a j ch IH (c_children c) Hs Hj) as (l & k' & Hl & Ha).
  destruct (TreeInv.inv_down _ _ _ _ HI k c l k' Hc Hl) as (ck & Hck & Hpar).
  eapply anc_trans; [exact Ha|]. econstructor; [exact Hck | exact Hpar | constructor].
Qed.
Lemma slots_anc K a r d (HI : TreeInv.AInv K a r d) j ch os : rep_slots a os ch -> In j (kid_idxs ch) ->
  exists l k', nth_error os l = Some (Some k') /\ anc a j k'.
Proof.
  apply slots_anc_gen. apply Forall_forall. intros o _. destruct o as [t|]; [apply (idxs_anc K a r d HI) | exact I].
Qed.

Lemma NoDup_app_intro {A} (l l' : list A) : NoDup l -> NoDup l' -> (forall x, In x l -> ~ In x l') -> NoDup (l ++ l').
Proof.
  induction 1 as [|x l Hx _ IH]; intros H' Hd; [exact H'|]. simpl. constructor.
  - rewrite in_app_iff. intros [H|H]; [exact (Hx H) | exact (Hd x (or_introl eq_refl) H)].
  - apply IH; [exact H'|]. intros y Hy. apply Hd. right. exact Hy.
Qed.

(* two different children of the same node have no common descendant *)
Lemma siblings_disjoint K a r d (HI : TreeInv.AInv K a r d) i c l1 l2 k1 k2 j : aget a i = Some c ->
  nth_error (c_children c) l1 = Some (Some k1) -> nth_error (c_children c) l2 = Some (Some k2) -> l1 <> l2 ->
  anc a j k1 -> anc a j k2 -> False.
Proof.
  intros Hc H1 H2 Hne A1 A2.
  assert (Hk : k1 <> k2). { intros ->. apply Hne. exact (TreeInv.inv_slot _ _ _ _ HI i c l1 l2 k2 Hc H1 H2). }
  destruct (TreeInv.inv_down _ _ _ _ HI i c l1 k1 Hc H1) as (c1 & Hc1 & Hp1).
  destruct (TreeInv.inv_down _ _ _ _ HI i c l2 k2 Hc H2) as (c2 & Hc2 & Hp2).
  pose proof (TreeInv.inv_rank _ _ _ _ HI k1 c1 i Hc1 Hp1) as R1.
  pose proof (TreeInv.inv_rank _ _ _ _ HI k2 c2 i Hc2 Hp2) as R2.
  destruct (anc_linear a j k1 k2 A1 A2) as [A|A].
  - inversion A as [|x cx p y Hcx Hpx A']; subst; [congruence|].
    rewrite Hc1 in Hcx. injection Hcx as <-. rewrite Hp1 in Hpx. injection Hpx as <-.
    destruct (anc_rank K a r d HI i k2 A') as [Hle _]. lia.
  - inversion A as [|x cx p y Hcx Hpx A']; subst; [congruence|].
    rewrite Hc2 in Hcx. injection Hcx as <-. rewrite Hp2 in Hpx. injection Hpx as <-.
    destruct (anc_rank K a r d HI i k1 A') as [Hle _]. lia.
Qed.

Definition nodup_prop (a : arena nat) (t : itree) : Prop := forall k, represents a k t -> NoDup (idxs t).

Lemma slots_nodup K a r d (HI : TreeInv.AInv K a r d) i c : aget a i = Some c ->
  forall ch, Forall (oP (nodup_prop a)) ch -> forall pre os, c_children c = pre ++ os -> rep_slots a os ch -> NoDup (kid_idxs ch).
Proof.
  intros Hc. induction ch as [|o ch IHch]; intros IH pre os Hsplit Hs; [constructor|].
  destruct os as [|o' os]; [simpl in Hs; contradiction|]. apply rep_slots_cons in Hs as [Ho Hs].
  inversion IH as [|x l IHo IHr]; subst x l.
  assert (Hrest : NoDup (kid_idxs ch)).
  { apply (IHch IHr (pre ++ [o']) os); [rewrite <- app_assoc; exact Hsplit | exact Hs]. }
  rewrite kid_idxs_cons. destruct o' as [k1|], o as [c1|]; try contradiction; [|exact Hrest].
  apply NoDup_app_intro; [exact (IHo k1 Ho) | exact Hrest|].
  intros j Hj1 Hj2.
  assert (Hn1 : nth_error (c_children c) (length pre) = Some (Some k1)).
  { rewrite Hsplit, nth_error_app2, Nat.sub_diag by lia. reflexivity. }
  destruct (slots_anc K a r d HI j ch os Hs Hj2) as (l & k2 & Hl & A2).
  assert (Hn2 : nth_error (c_children c) (length pre + S l) = Some (Some k2)).
  { rewrite Hsplit, nth_error_app2 by lia. replace (length pre + S l - length pre) with (S l) by lia. exact Hl. }
  apply (siblings_disjoint K a r d HI i c (length pre) (length pre + S l) k1 k2 j Hc Hn1 Hn2); [lia | | exact A2].
  exact (idxs_anc K a r d HI c1 k1 Ho j Hj1).
Qed.

(* each node occurs once *)
Lemma nodup_idxs K a r d (HI : TreeInv.AInv K a r d) : forall t, nodup_prop a t.
Proof.
  induction t as [i ch IH] using itree_ind'. intros k Hr.
  apply represents_unfold in Hr as (-> & c & Hc & Hs).
  rewrite idxs_unfold. constructor.
  - intros Hin. destruct (slots_anc K a r d HI k ch (c_children c) Hs Hin) as (l & k' & Hl & Ha).
    destruct (TreeInv.inv_down _ _ _ _ HI k c l k' Hc Hl) as (ck & Hck & Hpar).
    pose proof (TreeInv.inv_rank _ _ _ _ HI k' ck k Hck Hpar).
    destruct (anc_rank K a r d HI k k' Ha) as [Hle _]. lia.
  - exact (slots_nodup K a r d HI k c Hc ch IH [] (c_children c) eq_refl Hs).
Qed.

(* every reachable index is a node of the unfolded tree *)
Lemma rep_slots_nth_l {V} (a : arena V) ts : forall os l k, rep_slots a os ts -> nth_error os l = Some (Some k) ->
  exists c, nth_error ts l = Some (Some c) /\ represents a k c.
Proof.
  induction ts as [|ot ts IH]; intros os l k H Hn.
  - apply rep_slots_nil_r in H. subst. destruct l; discriminate.
  - destruct os as [|o os]; [simpl in H; contradiction|]. apply rep_slots_cons in H as [Ho Hr].
    destruct l as [|l]; simpl in *.
    + injection Hn as ->. destruct ot as [c|]; [|contradiction]. eauto.
    + eapply IH; eauto.
Qed.
Lemma in_kid_idxs ch l c j : nth_error ch l = Some (Some c) -> In j (idxs c) -> In j (kid_idxs ch).
Proof.
  revert l. induction ch as [|o ch IH]; intros l Hn Hj; [destruct l; discriminate|].
  rewrite kid_idxs_cons. apply in_app_iff. destruct l as [|l]; simpl in Hn.
  - injection Hn as ->. left. exact Hj.
  - right. eapply IH; eauto.
Qed.
(* the subtree found at an index that occurs in t *)
Lemma idxs_subtree {V} (a : arena V) : forall t k, represents a k t -> forall j, In j (idxs t) ->
  exists t', represents a j t' /\ incl (idxs t') (idxs t).
Proof.
  induction t as [i ch IH] using itree_ind'. intros k Hr j Hj. pose proof Hr as Hr0.
  apply represents_unfold in Hr as (-> & c & Hc & Hs).
  rewrite idxs_unfold in Hj. destruct Hj as [<-|Hj]; [exists (IN k ch); split; [exact Hr0 | apply incl_refl]|].
  assert (G : forall os, rep_slots a os ch -> exists t', represents a j t' /\ incl (idxs t') (kid_idxs ch)).
  { clear Hs Hr0 Hc. induction ch as [|o ch IHch]; intros os Hs; [contradiction|].
    destruct os as [|o' os]; [simpl in Hs; contradiction|]. apply rep_slots_cons in Hs as [Ho Hs].
    inversion IH as [|x l IHo IHr]; subst x l.
    rewrite kid_idxs_cons in Hj. apply in_app_iff in Hj as [Hj|Hj].
    - destruct o' as [k'|], o as [c'|]; try contradiction.
      destruct (IHo k' Ho j Hj) as (t' & Ht' & Hi). exists t'. split; [exact Ht'|].
      rewrite kid_idxs_cons. apply incl_appl. exact Hi.
    - destruct (IHch IHr Hj os Hs) as (t' & Ht' & Hi). exists t'. split; [exact Ht'|].
      rewrite kid_idxs_cons. apply incl_appr. exact Hi. }
  destruct (G (c_children c) Hs) as (t' & Ht' & Hi). exists t'. split; [exact Ht'|].
  rewrite idxs_unfold. apply incl_tl. exact Hi.
Qed.
Lemma reach_idxs a r T : represents a r T -> forall i, TreeOps.reach a r i -> In i (idxs T).
Proof.
  intros Hrep i H. induction H as [|i ci l j _ IH Hci Hl].
  - destruct T as [i0 ch]. apply represents_unfold in Hrep as (-> & _). left. reflexivity.
  - destruct (idxs_subtree a T r Hrep i IH) as (t' & Ht' & Hincl).
    destruct t' as [i0 ch]. apply represents_unfold in Ht' as (-> & c & Hc & Hs).
    rewrite Hci in Hc. injection Hc as <-.
    destruct (rep_slots_nth_l a ch (c_children ci) l j Hs Hl) as (cj & Hn & Hrj).
    apply Hincl. rewrite idxs_unfold. right. apply (in_kid_idxs ch l cj j Hn).
    destruct cj as [j0 chj]. apply represents_unfold in Hrj as (-> & _). left. reflexivity.
Qed.

(* ---------------------------------------------------------------- the bridge *)
Theorem inv_gives_minv K st : TreeInv.Inv K st ->
  exists r T, Tree.t_root st = Some r /\ minv (Tree.t_arena st) r T.
Proof.
  intros (r & d & Hroot & HI). set (a := Tree.t_arena st) in *.
  destruct (TreeInv.inv_root _ _ _ _ HI) as (cr & Hcr & Hpr).
  set (M := list_max (map d (akeys a))).
  assert (HM : forall i c, aget a i = Some c -> d i <= M).
  { intros i c Hc. assert (Hin : In (d i) (map d (akeys a))).
    { apply in_map. apply In_akeys_g. unfold acontains. rewrite Hc. reflexivity. }
    pose proof (proj1 (list_max_le (map d (akeys a)) M) (Nat.le_refl _)) as Hall.
    rewrite Forall_forall in Hall. exact (Hall _ Hin). }
  destruct (unfold_exists K a r d HI M HM (S (M - d r)) r cr Hcr) as (T & HT); [lia|].
  pose proof (unfold_sound a _ r T HT) as Hrep.
  pose proof (nodup_idxs K a r d HI T r Hrep) as Hnd.
  exists r, T. split; [exact Hroot|]. constructor.
  - split; [exact Hrep|].
    rewrite <- (TreeLemmas.length_akeys a), <- (length_idxs T).
    apply Nat.le_antisymm.
    + apply NoDup_incl_length; [apply TreeLemmas.NoDup_akeys|]. intros i Hi.
      apply In_akeys_g in Hi. unfold acontains in Hi. destruct (aget a i) as [ci|] eqn:Hci; [|discriminate].
      apply (reach_idxs a r T Hrep). exact (TreeOps.inv_reach K a r d HI i ci Hci).
    + apply NoDup_incl_length; [exact Hnd|]. intros i Hi. apply In_akeys_g. exact (idxs_contained a T r Hrep i Hi).
  - exact Hnd.
  - exact (TreeInv.inv_leaf _ _ _ _ HI).
  - exists cr. auto.
  - exact (TreeInv.inv_down _ _ _ _ HI).
  - exact (TreeInv.inv_slot _ _ _ _ HI).
Qed.

(* every index that occurs in T is the root index of a subtree of T: "any start node" = any stored index *)
Lemma idxs_is_subtree : forall T j, In j (idxs T) -> exists t, subtree t T /\ idx t = j.
Proof.
  induction T as [i ch IH] using itree_ind'. intros j Hj.
  rewrite idxs_unfold in Hj. destruct Hj as [<-|Hj]; [exists (IN i ch); split; [constructor | reflexivity]|].
  assert (G : exists c t, In (Some c) ch /\ subtree t c /\ idx t = j).
  { induction ch as [|o ch IHch]; [contradiction|].
    inversion IH as [|x l IHo IHr]; subst x l.
    rewrite kid_idxs_cons in Hj. apply in_app_iff in Hj as [Hj|Hj].
    - destruct o as [c|]; [|contradiction]. destruct (IHo j Hj) as (t & Ht & Hi).
      exists c, t. split; [left; reflexivity | auto].
    - destruct (IHch IHr Hj) as (c & t & Hin & Ht & Hi). exists c, t. split; [right; exact Hin | auto]. }
  destruct G as (c & t & Hin & Ht & Hi). exists t. split; [econstructor; eauto | exact Hi].
Qed.
Theorem stored_index_is_start_node {V} (a : arena V) r T : minv a r T -> forall i, acontains a i = true ->
  exists t, subtree t T /\ idx t = i.
Proof.
  intros M i Hi. apply idxs_is_subtree. apply In_akeys_g in Hi.
  exact (Permutation_in _ (Permutation_sym (keys_are_nodes a r T M)) Hi).
Qed.

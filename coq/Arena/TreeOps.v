(* Arena/TreeOps.v -- C12 at the level of the modelled operations: invariant preservation, failing operations
   leave the state unchanged, surviving nodes keep index and value; histories. *)
From Coq Require Import List Arith Lia Bool.
From AT Require Import Cells Tree TreeLemmas TreeInv TreeRad.
Import ListNotations.

(* an operation that returns an error (or unwinds) leaves the tree as it was *)
Definition fail_same (st : tstate) (o : outcome) : Prop :=
  match o with TOk _ _ => True | TErr s _ => s = st | TPanic s => s = st end.

(* surviving nodes keep index and value (update_node changes the value of its target, that is its purpose);
   the only cell that can appear is the one stored under the allocator's key *)
Definition frame (st : tstate) (o : op) (st' : tstate) : Prop :=
  (forall i c c', aget (t_arena st) i = Some c -> aget (t_arena st') i = Some c' ->
     c_val c' = match o with OUpdate j v => if Nat.eqb j i then v else c_val c | _ => c_val c end) /\
  (forall i c', aget (t_arena st') i = Some c' ->
     (exists c, aget (t_arena st) i = Some c) \/ (exists p l v, o = OAddChild p l v i)) /\
  t_root st' = t_root st.


(* ---------------------------------------------------------------- add_root *)
Theorem add_root_inv K v key : Inv K (out_state (add_root K empty_tree v key)).
Proof. exists key, (fun _ => 0). split; auto. apply add_root_ainv. Qed.

(* ---------------------------------------------------------------- add_child_node *)
Theorem add_child_fail_same K st p l v key : fail_same st (add_child_node K st p l v key).
Proof.
  unfold add_child_node. destruct (aget (t_arena st) p) as [pc|] eqn:Hp; simpl; auto.
  destruct (nth_error (c_children pc) l) as [[j|]|] eqn:Hl; simpl; auto.
  rewrite aget_aset. destruct (Nat.eqb key p); simpl; auto. rewrite Hp. simpl; auto.
Qed.

Theorem add_child_inv K st p l v key :
  Inv K st -> aget (t_arena st) key = None -> Inv K (out_state (add_child_node K st p l v key)).
Proof.
  intros [r [d [Hr HI]]] Hkey. unfold add_child_node.
  destruct (aget (t_arena st) p) as [pc|] eqn:Hp; simpl; [|exists r, d; auto].
  destruct (nth_error (c_children pc) l) as [[j|]|] eqn:Hl; simpl; try (exists r, d; auto; fail).
  rewrite aget_aset_other by congruence. rewrite Hp. simpl.
  exists r, (fun i => if Nat.eqb i key then S (d p) else d i). split; auto.
  apply add_child_ainv; auto.
Qed.

Theorem add_child_frame K st p l v key :
  aget (t_arena st) key = None -> frame st (OAddChild p l v key) (out_state (add_child_node K st p l v key)).
Proof.
  intros Hkey. unfold add_child_node.
  assert (R : frame st (OAddChild p l v key) st).
  { split; [|split; eauto]. intros i c c' H1 H2. congruence. }
  destruct (aget (t_arena st) p) as [pc|] eqn:Hp; simpl; auto.
  destruct (nth_error (c_children pc) l) as [[j|]|] eqn:Hl; simpl; auto.
  rewrite aget_aset_other by congruence. rewrite Hp. simpl.
  split; [|split; auto]; simpl.
  - intros i c c' H1 H2. rewrite !aget_aset in H2. eqb_in H2; some_inv; try congruence;
      rewrite Hp in H1; some_inv; auto.
  - intros i c' H2. rewrite !aget_aset in H2. eqb_in H2; some_inv; eauto; right; eauto.
Qed.

(* what the successful call does: the new cell is a leaf child of `p` under `l`; every other cell is untouched *)
Theorem add_child_spec K st p l v key pc :
  aget (t_arena st) key = None -> aget (t_arena st) p = Some pc -> nth_error (c_children pc) l = Some None ->
  exists st', add_child_node K st p l v key = TOk st' (RIdx key) /\
    aget (t_arena st') key = Some (new_cell K v (Some p)) /\
    aget (t_arena st') p = Some (with_children pc (set_nth (c_children pc) l (Some key)) false) /\
    (forall i, i <> key -> i <> p -> aget (t_arena st') i = aget (t_arena st) i).
Proof.
  intros Hkey Hp Hl. unfold add_child_node. rewrite Hp, Hl.
  rewrite aget_aset_other by congruence. rewrite Hp. eexists; split; [reflexivity|]. simpl.
  assert (p <> key) by congruence.
  split; [|split].
  - rewrite aget_aset_other, aget_aset_same; auto.
  - rewrite aget_aset_same; auto.
  - intros i N1 N2. rewrite !aget_aset_other; auto.
Qed.

(* ---------------------------------------------------------------- update_node *)
Theorem update_fail_same st i v : fail_same st (update_node st i v).
Proof. unfold update_node. destruct (aget (t_arena st) i); simpl; auto. Qed.

Theorem update_inv K st i v : Inv K st -> Inv K (out_state (update_node st i v)).
Proof.
  intros [r [d [Hr HI]]]. unfold update_node.
  destruct (aget (t_arena st) i) as [c|] eqn:Hi; simpl; [|exists r, d; auto].
  exists r, d. split; auto. apply update_ainv; auto.
Qed.

Theorem update_frame st i v : frame st (OUpdate i v) (out_state (update_node st i v)).
Proof.
  unfold update_node. destruct (aget (t_arena st) i) as [c|] eqn:Hi; simpl.
  - split; [|split; auto]; simpl.
    + intros j cj cj' H1 H2. rewrite aget_aset in H2. destruct (Nat.eqb_spec i j); some_inv; auto; congruence.
    + intros j cj' H2. rewrite aget_aset in H2. destruct (Nat.eqb_spec i j); some_inv; eauto; subst; eauto.
  - split; [|split; eauto]. intros j cj cj' H1 H2. destruct (Nat.eqb_spec i j); [congruence|]. congruence.
Qed.

(* ---------------------------------------------------------------- lookups *)
Lemma t_child_ok a i l c : t_child a i l = LOk c ->
  exists ci cc, aget a i = Some ci /\ nth_error (c_children ci) l = Some (Some c) /\ aget a c = Some cc.
Proof.
  unfold t_child. destruct (aget a i) as [ci|]; [|discriminate].
  destruct (nth_error (c_children ci) l) as [[j|]|] eqn:En; try discriminate.
  destruct (aget a j) as [cc|] eqn:E; [|discriminate]. intros H; inversion H; subst. exists ci, cc; auto.
Qed.
Lemma t_parent_ok a i g gl : t_parent a i = LOk (g, gl) ->
  exists ci gc, aget a i = Some ci /\ c_parent ci = Some g /\ aget a g = Some gc /\ nth_error (c_children gc) gl = Some (Some i).
Proof.
  unfold t_parent. destruct (aget a i) as [ci|]; [|discriminate].
  destruct (c_parent ci) as [p|] eqn:Ep; [|discriminate].
  destruct (aget a p) as [pc|] eqn:E; [|discriminate].
  destruct (find_label (c_children pc) i) as [l|] eqn:F; [|discriminate].
  intros H; inversion H; subst. apply find_label_sound in F. exists ci, pc; auto.
Qed.

(* ---------------------------------------------------------------- merge_child_with_parent *)
Lemma merge_cases st p l :
  (fail_same st (merge_child_with_parent st p l) /\ out_state (merge_child_with_parent st p l) = st) \/
  exists pc c cc g gc gl,
    aget (t_arena st) p = Some pc /\ count_some (c_children pc) = 1 /\ t_root st <> Some p /\
    nth_error (c_children pc) l = Some (Some c) /\ aget (t_arena st) c = Some cc /\
    c_parent pc = Some g /\ aget (t_arena st) g = Some gc /\ nth_error (c_children gc) gl = Some (Some p) /\
    ((g <> c -> c <> p -> g <> p ->
      merge_child_with_parent st p l =
      TOk (mkT (aremove (aset (aset (t_arena st) g (Some (with_children gc (set_nth (c_children gc) gl (Some c)) (c_leaf gc))))
                              c (Some (with_parent cc (Some g)))) p) (t_root st)) (RNode pc)) /\
     fail_same st (merge_child_with_parent st p l)).
Proof.
  unfold merge_child_with_parent.
  destruct (aget (t_arena st) p) as [pc|] eqn:Hp; [|left; simpl; auto].
  destruct (Nat.eqb_spec (count_some (c_children pc)) 1) as [Hone|]; [|left; simpl; auto].
  destruct (match t_root st with Some r => Nat.eqb r p | None => false end) eqn:Hroot; [left; simpl; auto|].
  destruct (t_child (t_arena st) p l) as [c|e|] eqn:Hc; [|left; simpl; auto|left; simpl; auto].
  destruct (t_parent (t_arena st) p) as [[g gl]|e|] eqn:Hg; [|left; simpl; auto|left; simpl; auto].
  apply t_child_ok in Hc as [pc' [cc [E1 [E2 E3]]]]. assert (pc' = pc) by congruence; subst pc'. clear E1.
  apply t_parent_ok in Hg as [pc' [gc [E1 [E4 [E5 E6]]]]]. assert (pc' = pc) by congruence; subst pc'. clear E1.
  rewrite E5. right. exists pc, c, cc, g, gc, gl.
  repeat (split; [auto; fail|]).
  split; [destruct (t_root st) as [r|]; [intros E; some_inv; rewrite Nat.eqb_refl in Hroot|]; congruence|].
  repeat (split; [auto; fail|]).
  split.
  - intros N1 N2 N3. rewrite aget_aset_other, E3 by auto.
    rewrite !aget_aset_other, Hp by auto. reflexivity.
  - rewrite aget_aset. destruct (Nat.eqb g c); [|rewrite E3]; rewrite !aget_aset;
      destruct (Nat.eqb c p); simpl; auto; destruct (Nat.eqb g p); simpl; auto; rewrite Hp; simpl; auto.
Qed.

Theorem merge_fail_same st p l : fail_same st (merge_child_with_parent st p l).
Proof. destruct (merge_cases st p l) as [[H _]|[pc [c [cc [g [gc [gl H]]]]]]]; auto. apply H. Qed.

Theorem merge_inv K st p l : Inv K st -> Inv K (out_state (merge_child_with_parent st p l)).
Proof.
  intros [r [d [Hr HI]]].
  destruct (merge_cases st p l) as [[_ H]|[pc [c [cc [g [gc [gl [Hp [Hone [Nr [Hl [Hc [Hpg [Hg [Hgl [H _]]]]]]]]]]]]]]]].
  - rewrite H. exists r, d; auto.
  - assert (Hcp : c_parent cc = Some p).
    { destruct (inv_down _ _ _ _ HI _ _ _ _ Hp Hl) as [cj [Hj Hpj]]. congruence. }
    pose proof (inv_rank _ _ _ _ HI _ _ _ Hp Hpg) as R1. pose proof (inv_rank _ _ _ _ HI _ _ _ Hc Hcp) as R2.
    rewrite H; try (intros ->; lia). simpl. exists r, d. split; auto.
    eapply merge_ainv; eauto. congruence.
Qed.

Theorem merge_frame K st p l : Inv K st -> frame st (OMerge p l) (out_state (merge_child_with_parent st p l)).
Proof.
  intros [r [d [Hr HI]]].
  destruct (merge_cases st p l) as [[_ H]|[pc [c [cc [g [gc [gl [Hp [Hone [Nr [Hl [Hc [Hpg [Hg [Hgl [H _]]]]]]]]]]]]]]]].
  - rewrite H. split; [|split; eauto]. intros i ci ci' H1 H2. congruence.
  - assert (Hcp : c_parent cc = Some p).
    { destruct (inv_down _ _ _ _ HI _ _ _ _ Hp Hl) as [cj [Hj Hpj]]. congruence. }
    pose proof (inv_rank _ _ _ _ HI _ _ _ Hp Hpg) as R1. pose proof (inv_rank _ _ _ _ HI _ _ _ Hc Hcp) as R2.
    rewrite H; try (intros ->; lia). simpl. split; [|split; auto]; simpl; unfold aremove.
    + intros i ci ci' H1 H2. rewrite !aget_aset in H2. eqb_in H2; some_inv; try congruence.
      * rewrite Hc in H1; some_inv; auto.
      * rewrite Hg in H1; some_inv; auto.
    + intros i ci' H2. rewrite !aget_aset in H2. eqb_in H2; some_inv; eauto.
Qed.

(* ---------------------------------------------------------------- remove_all_descendants *)
Theorem rad_fail_same K st x : Inv K st -> fail_same st (remove_all_descendants st x).
Proof.
  intros [r [d [Hr HI]]]. destruct (aget (t_arena st) x) as [cx|] eqn:Hx.
  - destruct (rad_ok _ _ _ _ _ _ Hr HI Hx) as [a' [n [E _]]]. rewrite E. simpl; auto.
  - unfold remove_all_descendants. rewrite Hx. simpl; auto.
Qed.

Theorem rad_inv K st x : Inv K st -> Inv K (out_state (remove_all_descendants st x)).
Proof.
  intros [r [d [Hr HI]]]. destruct (aget (t_arena st) x) as [cx|] eqn:Hx.
  - destruct (rad_ok _ _ _ _ _ _ Hr HI Hx) as [a' [n [E [S _]]]]. rewrite E. simpl.
    exists r, d. split; auto. eapply rad_ainv; eauto.
  - unfold remove_all_descendants. rewrite Hx. simpl. exists r, d; auto.
Qed.

Lemma rad_result_frame a x cx a' : aget a x = Some cx -> rad_result a x cx a' ->
  (forall i c c', aget a i = Some c -> aget a' i = Some c' -> c_val c' = c_val c) /\
  (forall i c', aget a' i = Some c' -> exists c, aget a i = Some c).
Proof.
  intros Hx [Sx [S1 [S2 S3]]]. split.
  - intros i c c' H1 H2. destruct (Nat.eq_dec i x) as [->|N].
    + rewrite Sx in H2. rewrite Hx in H1. some_inv. auto.
    + destruct (S3 i N); congruence.
  - intros i c' H2. destruct (Nat.eq_dec i x) as [->|N]; eauto.
    destruct (S3 i N) as [E|E]; [rewrite <- E; eauto | congruence].
Qed.

Theorem rad_frame K st x : Inv K st -> frame st (ORemoveDesc x) (out_state (remove_all_descendants st x)).
Proof.
  intros [r [d [Hr HI]]]. destruct (aget (t_arena st) x) as [cx|] eqn:Hx.
  - destruct (rad_ok _ _ _ _ _ _ Hr HI Hx) as [a' [n [E [S _]]]]. rewrite E. simpl.
    destruct (rad_result_frame _ _ _ _ Hx S) as [F1 F2]. split; [|split; auto]; simpl; eauto.
  - unfold remove_all_descendants. rewrite Hx. simpl. split; [|split; eauto]. intros i c c' H1 H2; congruence.
Qed.

(* ---------------------------------------------------------------- try_remove_child / remove_child *)
Lemma try_remove_cases K st r d p l :
  t_root st = Some r -> AInv K (t_arena st) r d ->
  ((exists e, try_remove_child st p l = TErr st e) \/ try_remove_child st p l = TPanic st) \/
  exists pc c cc a1,
    aget (t_arena st) p = Some pc /\ nth_error (c_children pc) l = Some (Some c) /\ aget (t_arena st) c = Some cc /\
    rad_result (t_arena st) c cc a1 /\ aget a1 p = Some pc /\ p <> c /\
    try_remove_child st p l =
    TOk (mkT (aremove (aset a1 p (Some (with_children pc (set_nth (c_children pc) l None)
                (if all_none (set_nth (c_children pc) l None) then true else c_leaf pc)))) c) (t_root st)) (RVal (c_val cc)).
Proof.
  intros Hr HI. unfold try_remove_child.
  destruct (t_child (t_arena st) p l) as [c|e|] eqn:Hc; [|left; left; eauto|left; right; auto].
  apply t_child_ok in Hc as [pc [cc [Hp [Hl Hc]]]].
  destruct (rad_ok _ _ _ _ _ _ Hr HI Hc) as [a1 [n [E [S _]]]]. rewrite E. simpl.
  assert (Hcp : c_parent cc = Some p).
  { destruct (inv_down _ _ _ _ HI _ _ _ _ Hp Hl) as [cj [Hj Hpj]]. congruence. }
  pose proof (inv_rank _ _ _ _ HI _ _ _ Hc Hcp) as R1.
  assert (Npc : p <> c) by (intros ->; lia).
  assert (Hp1 : aget a1 p = Some pc).
  { destruct S as [_ [_ [S2 _]]]. rewrite S2; auto.
    intros Hd. pose proof (desc_rank _ _ _ _ _ _ HI Hd). lia. }
  rewrite Hp1, Hl. rewrite aget_aset_other by auto.
  destruct S as [Sx S']. rewrite Sx. simpl.
  right. exists pc, c, cc, a1. repeat (split; auto).
Qed.

Theorem try_remove_fail_same K st p l : Inv K st -> fail_same st (try_remove_child st p l).
Proof.
  intros [r [d [Hr HI]]].
  destruct (try_remove_cases K st r d p l Hr HI) as [[[e H]|H]|[pc [c [cc [a1 [_ [_ [_ [_ [_ [_ H]]]]]]]]]]]; rewrite H; simpl; auto.
Qed.

Theorem try_remove_inv K st p l : Inv K st -> Inv K (out_state (try_remove_child st p l)).
Proof.
  intros [r [d [Hr HI]]].
  destruct (try_remove_cases K st r d p l Hr HI) as [[[e H]|H]|[pc [c [cc [a1 [Hp [Hl [Hc [S [Hp1 [Npc H]]]]]]]]]]];
    rewrite H; simpl; try (exists r, d; auto; fail).
  exists r, d. split; auto.
  pose proof (rad_ainv _ _ _ _ _ _ _ HI Hc S) as HI1.
  destruct S as [Sx S'].
  eapply remove_leaf_ainv; eauto. simpl. apply all_none_map_none.
Qed.

Theorem try_remove_frame K st p l : Inv K st -> frame st (OTryRemove p l) (out_state (try_remove_child st p l)).
Proof.
  intros [r [d [Hr HI]]].
  assert (R : frame st (OTryRemove p l) st).
  { split; [|split; eauto]. intros i c c' H1 H2. congruence. }
  destruct (try_remove_cases K st r d p l Hr HI) as [[[e H]|H]|[pc [c [cc [a1 [Hp [Hl [Hc [S [Hp1 [Npc H]]]]]]]]]]];
    rewrite H; simpl; auto.
  destruct (rad_result_frame _ _ _ _ Hc S) as [F1 F2].
  split; [|split; auto]; simpl; unfold aremove.
  - intros i ci ci' H1 H2. rewrite !aget_aset in H2. eqb_in H2; some_inv; eauto.
    rewrite Hp in H1; some_inv; auto.
  - intros i ci' H2. rewrite !aget_aset in H2. eqb_in H2; some_inv; eauto.
Qed.

Lemma remove_child_out st p l : out_state (remove_child st p l) = out_state (try_remove_child st p l).
Proof. unfold remove_child. destruct (try_remove_child st p l); auto. Qed.

Theorem remove_fail_same K st p l : Inv K st -> fail_same st (remove_child st p l).
Proof.
  intros H. pose proof (try_remove_fail_same K st p l H) as F. unfold remove_child.
  destruct (try_remove_child st p l); simpl in *; auto.
Qed.

(* ---------------------------------------------------------------- one step *)
Theorem step_inv K st o : Inv K st -> fresh_ok st o -> Inv K (out_state (step K st o)).
Proof.
  intros HI Hf. destruct o; simpl in *.
  - apply add_child_inv; auto.
  - apply try_remove_inv; auto.
  - rewrite remove_child_out. apply try_remove_inv; auto.
  - apply rad_inv; auto.
  - apply merge_inv; auto.
  - apply update_inv; auto.
Qed.

Theorem step_fail_same K st o : Inv K st -> fail_same st (step K st o).
Proof.
  intros HI. destruct o; simpl.
  - apply add_child_fail_same.
  - eapply try_remove_fail_same; eauto.
  - eapply remove_fail_same; eauto.
  - eapply rad_fail_same; eauto.
  - apply merge_fail_same.
  - apply update_fail_same.
Qed.

Theorem step_frame K st o : Inv K st -> fresh_ok st o -> frame st o (out_state (step K st o)).
Proof.
  intros HI Hf. destruct o; simpl in *.
  - apply add_child_frame; auto.
  - eapply try_remove_frame; eauto.
  - rewrite remove_child_out. destruct (try_remove_frame K st parent label HI) as [F1 [F2 F3]].
    split; [|split]; auto. intros i c' H. destruct (F2 i c' H) as [G|[p [l [v G]]]]; auto. discriminate.
  - eapply rad_frame; eauto.
  - eapply merge_frame; eauto.
  - apply update_frame.
Qed.

(* ---------------------------------------------------------------- histories *)
Fixpoint along (K : nat) (P : tstate -> op -> outcome -> Prop) (st : tstate) (ops : list op) : Prop :=
  match ops with
  | [] => True
  | o :: r => P st o (step K st o) /\ along K P (out_state (step K st o)) r
  end.

Definition step_good (K : nat) (st : tstate) (o : op) (out : outcome) : Prop :=
  Inv K (out_state out) /\ fail_same st out /\ frame st o (out_state out).

Theorem history_inv K ops : forall st, Inv K st -> legal K st ops ->
  along K (step_good K) st ops /\ Inv K (run K st ops).
Proof.
  induction ops as [|o r IH]; intros st HI HL; simpl in *; auto.
  destruct HL as [Hf HL].
  pose proof (step_inv K st o HI Hf) as H1.
  destruct (IH _ H1 HL) as [G1 G2].
  split; auto. split; auto. split; auto. split; [apply step_fail_same | apply step_frame]; auto.
Qed.

(* the same for an allocator given as a function of the arena *)
Definition with_alloc (alloc : arena nat -> nat) (st : tstate) (o : op) : op :=
  match o with OAddChild p l v _ => OAddChild p l v (alloc (t_arena st)) | _ => o end.
Fixpoint run_alloc (K : nat) (alloc : arena nat -> nat) (st : tstate) (ops : list op) : tstate :=
  match ops with
  | [] => st
  | o :: r => run_alloc K alloc (out_state (step K st (with_alloc alloc st o))) r
  end.
Theorem history_alloc K alloc : (forall a, aget a (alloc a) = None) ->
  forall ops st, Inv K st -> Inv K (run_alloc K alloc st ops).
Proof.
  intros Ha. induction ops as [|o r IH]; intros st HI; simpl; auto.
  apply IH. apply step_inv; auto. destruct o; simpl; auto.
Qed.

(* ---------------------------------------------------------------- what the invariant says about reachability and len() *)
Inductive reach (a : arena nat) (r : nat) : nat -> Prop :=
| reach_root : reach a r r
| reach_child i ci l j : reach a r i -> aget a i = Some ci -> nth_error (c_children ci) l = Some (Some j) -> reach a r j.

Lemma inv_reach K a r d : AInv K a r d -> forall i ci, aget a i = Some ci -> reach a r i.
Proof.
  intros HI. assert (G : forall n i ci, d i < n -> aget a i = Some ci -> reach a r i).
  { induction n as [|n IH]; intros i ci Hn Hi; [lia|].
    destruct (c_parent ci) as [p|] eqn:Hp.
    - destruct (inv_up _ _ _ _ HI _ _ _ Hi Hp) as [cp [l [G1 G2]]].
      pose proof (inv_rank _ _ _ _ HI _ _ _ Hi Hp).
      eapply reach_child; eauto. eapply IH; eauto. lia.
    - rewrite (inv_uroot _ _ _ _ HI _ _ Hi Hp). constructor. }
  intros i ci Hi. eapply G; eauto.
Qed.

Lemma reach_stored K a r d : AInv K a r d -> forall i, reach a r i -> exists ci, aget a i = Some ci.
Proof.
  intros HI i H. induction H as [|i ci l j H1 IH H2 H3].
  - destruct (inv_root _ _ _ _ HI) as [c [G _]]; eauto.
  - destruct (inv_down _ _ _ _ HI _ _ _ _ H2 H3) as [cj [G _]]; eauto.
Qed.

Theorem inv_len_reachable K st : Inv K st ->
  exists r, t_root st = Some r /\
    (forall i, reach (t_arena st) r i <-> acontains (t_arena st) i = true) /\
    exists nodes, NoDup nodes /\ (forall i, In i nodes <-> reach (t_arena st) r i) /\ length nodes = alen (t_arena st).
Proof.
  intros [r [d [Hr HI]]]. exists r. split; auto.
  assert (E : forall i, reach (t_arena st) r i <-> acontains (t_arena st) i = true).
  { intros i. rewrite acontains_true. split; [eapply reach_stored; eauto | intros [ci Hi]; eapply inv_reach; eauto]. }
  split; auto. exists (akeys (t_arena st)). split; [apply NoDup_akeys|]. split; [|apply length_akeys].
  intros i. rewrite E, acontains_true. apply In_akeys.
Qed.

(* ---------------------------------------------------------------- D1: the code as found violates the property *)
Definition d1_state : tstate :=
  mkT [Some (mkcell 5 None [Some 1; None] false); Some (mkcell 6 (Some 0) [None; None] true)] (Some 0).

Lemma d1_state_inv : Inv 2 d1_state.
Proof.
  assert (E : d1_state = out_state (step 2 (out_state (add_root 2 empty_tree 5 0)) (OAddChild 0 0 6 1))) by reflexivity.
  rewrite E. apply step_inv; [apply add_root_inv | reflexivity].
Qed.

Lemma add_child_v0_refuted :
  exists K st p l v key,
    Inv K st /\ aget (t_arena st) key = None /\
    (exists s e, add_child_node_v0 K st p l v key = TErr s e /\ s <> st /\ ~ Inv K s /\
                 acontains (t_arena s) key = true /\ alen (t_arena s) = S (alen (t_arena st))).
Proof.
  exists 2, d1_state, 0, 0, 7, 2. split; [apply d1_state_inv|]. split; [reflexivity|].
  eexists; eexists. split; [vm_compute; reflexivity|]. split; [discriminate|]. split; [|split; reflexivity].
  intros [r [d [Hr HI]]].
  destruct (inv_up _ _ _ _ HI 2 (mkcell 7 (Some 0) [None; None] true) 0 eq_refl eq_refl) as [c [l [H1 H2]]].
  vm_compute in H1. inversion H1; subst c. destruct l as [|[|[|l]]]; simpl in H2; discriminate.
Qed.

(* ---------------------------------------------------------------- the invariant, spelled out in the property's words *)
Lemma inv_content K st : Inv K st ->
  exists r, t_root st = Some r /\
    (* the root is stored and is the one cell without a parent *)
    (exists c, aget (t_arena st) r = Some c /\ c_parent c = None) /\
    (forall i c, aget (t_arena st) i = Some c -> c_parent c = None -> i = r) /\
    (* K child slots; flagged as leaf exactly when all of them are empty *)
    (forall i c, aget (t_arena st) i = Some c -> length (c_children c) = K /\ c_leaf c = all_none (c_children c)) /\
    (* parent and child links mirror each other; a child occupies one slot only *)
    (forall i c l j, aget (t_arena st) i = Some c -> nth_error (c_children c) l = Some (Some j) ->
       exists cj, aget (t_arena st) j = Some cj /\ c_parent cj = Some i) /\
    (forall j cj i, aget (t_arena st) j = Some cj -> c_parent cj = Some i ->
       exists c l, aget (t_arena st) i = Some c /\ nth_error (c_children c) l = Some (Some j)) /\
    (forall i c l l' j, aget (t_arena st) i = Some c -> nth_error (c_children c) l = Some (Some j) ->
       nth_error (c_children c) l' = Some (Some j) -> l = l') /\
    (* every stored cell is reachable from the root through child links *)
    (forall i c, aget (t_arena st) i = Some c -> reach (t_arena st) r i).
Proof.
  intros [r [d [Hr HI]]]. exists r. split; auto.
  pose proof HI as [Hroot Hlen Hleaf Hdown Hup Hslot Huroot Hrank].
  repeat (split; eauto). eapply inv_reach; eauto.
Qed.

(* ---------------------------------------------------------------- a concrete history (non-vacuity) *)
Definition ex_ops : list op :=
  [OAddChild 0 0 11 1; OAddChild 0 1 12 2; OAddChild 1 0 13 3; OAddChild 1 1 14 4;
   OAddChild 0 0 99 5;   (* Err ChildExists *)
   OAddChild 0 2 99 5;   (* label >= K: panic *)
   OAddChild 9 0 99 5;   (* Err InvalidIndex *)
   OMerge 0 0;           (* root with two children: assertion panic *)
   OTryRemove 0 1;       (* removes node 2 *)
   OMerge 0 0;           (* Err RootNode *)
   ORemoveDesc 1;        (* removes 3 and 4 *)
   OAddChild 1 0 15 4;   (* index 4 is used again *)
   OMerge 1 0;           (* node 4 takes the place of node 1 *)
   OUpdate 4 77; OUpdate 1 5 (* Err InvalidIndex *); ORemove 0 1 (* missing child: panic *)].
Definition ex_start : tstate := out_state (add_root 2 empty_tree 10 0).

Lemma ex_history :
  legal 2 ex_start ex_ops /\
  map (fun i => option_map (fun c => (c_val c, c_parent c, c_children c, c_leaf c)) (aget (t_arena (run 2 ex_start ex_ops)) i)) [0; 1; 2; 3; 4; 5]
  = [Some (10, None, [Some 4; None], false); None; None; None; Some (77, Some 0, [None; None], true); None] /\
  alen (t_arena (run 2 ex_start ex_ops)) = 2 /\
  Inv 2 (run 2 ex_start ex_ops).
Proof.
  assert (L : legal 2 ex_start ex_ops) by (vm_compute; repeat split).
  split; auto. split; [vm_compute; reflexivity|]. split; [vm_compute; reflexivity|].
  apply history_inv; auto. apply add_root_inv.
Qed.

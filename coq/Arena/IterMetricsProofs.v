(* Arena/IterMetricsProofs.v -- the metrics and index-order iterators of graph.rs as coded (IterMetrics.v, on the
   arena) equal the direct recursive definitions on the tree. *)
From Coq Require Import List Arith Lia Bool Permutation Sorted.
Import ListNotations.
From AT Require Import Num Cells Iter IterSpec IterProofs IterInst IterMetrics.
From AT Require TreeLemmas.
Local Open Scope nat_scope.

(* ---------------------------------------------------------------- next until None = the future of the forest *)
Lemma collect_sim {E SE} (R : E -> SE -> Prop) fifo expand expandS ssize :
  expand_ok R expand expandS -> size_ok ssize expandS ->
  forall fuel m s, siminv R fifo ssize m s -> remaining fifo ssize s < fuel ->
  exists l, m_collect fifo expand fuel m = ROk l /\ Forall2 R l (future fifo expandS ssize (s_pend fifo s)).
Proof.
  intros Hexp Hsz. induction fuel as [|f IH]; intros m s Hinv Hf; [lia|].
  destruct (sim_next R fifo expand expandS ssize m s Hexp Hsz Hinv) as (o & m' & Hn & Hinv' & Ho).
  simpl. rewrite Hn. unfold s_next in *. unfold remaining in Hf. unfold future.
  destruct (s_pend fifo s) as [|e r] eqn:Hp; simpl in Ho, Hinv'.
  - destruct o; [contradiction|]. exists []. split; [reflexivity|]. rewrite drain_nil. constructor.
  - destruct o as [x|]; [|contradiction].
    rewrite (total_step fifo ssize expandS e r Hsz) in *.
    destruct (IH m' (mksst (expandS e) r) Hinv') as (l & Hl & HF).
    { unfold remaining, s_pend; simpl. lia. }
    rewrite Hl. exists (x :: l). split; [reflexivity|]. simpl. constructor; [exact Ho|].
    unfold future, s_pend in HF; simpl in HF. exact HF.
Qed.

Lemma Forall2_map_eq {A B} (R : A -> B -> Prop) (f : B -> A) l l' :
  (forall x y, R x y -> x = f y) -> Forall2 R l l' -> l = map f l'.
Proof. intros H. induction 1; simpl; [reflexivity|]. f_equal; auto. Qed.

(* DfsPre::iter(tree, node) run to exhaustion = the recursive pre-order list of node's subtree *)
Theorem dfs_iter_pre {V} (a : arena V) troot T t : tree_inv a troot T -> subtree t T ->
  dfs_iter a troot (idx t) = ROk (pre 0 0 t).
Proof.
  intros Hinv Hsub. unfold dfs_iter, dfspre_new.
  destruct (lb0_ok a troot T t Hinv Hsub) as [_ Hub].
  destruct (collect_sim (Rpre a) false (expand_pre a) expandS_pre sent_size (expand_ok_pre a) size_ok_pre
              (S (alen a)) _ (spec_pre_init t) (pre_init_inv a false troot T t Hinv Hsub)) as (l & Hl & HF).
  { unfold remaining, total; simpl. lia. }
  rewrite Hl. f_equal.
  rewrite (Forall2_map_eq (Rpre a) sent_item l _ (fun e se H => proj1 H) HF).
  rewrite future_pre. simpl. apply app_nil_r.
Qed.

(* ---------------------------------------------------------------- lists *)
Lemma lmax_app l1 l2 : lmax (l1 ++ l2) = Nat.max (lmax l1) (lmax l2).
Proof. induction l1 as [|x l1 IH]; simpl; [reflexivity|]. rewrite IH, !maxn_max. lia. Qed.
Lemma lmax_cons x l : lmax (x :: l) = Nat.max x (lmax l).
Proof. simpl. apply maxn_max. Qed.

Lemma length_pre : forall t d r, length (pre d r t) = size t.
Proof.
  induction t as [i ch IH] using itree_ind'. intros d r. rewrite pre_unfold. simpl. f_equal.
  generalize (S d). induction ch as [|o ch IHch]; intros d'; [reflexivity|].
  inversion IH as [|x l Ho Hr]; subst x l.
  rewrite pre_slots_cons, app_length. simpl. rewrite (IHch Hr). destruct o as [c|]; simpl; [rewrite Ho|]; reflexivity.
Qed.

(* num_nodes(node) = size of node's subtree *)
Theorem num_nodes_size {V} (a : arena V) troot T t : tree_inv a troot T -> subtree t T ->
  num_nodes a troot (idx t) = ROk (size t).
Proof. intros Hinv Hsub. unfold num_nodes. rewrite (dfs_iter_pre a troot T t Hinv Hsub). simpl. f_equal. apply length_pre. Qed.

Lemma lmax_pre : forall t d r, lmax (map n_depth (pre d r t)) = d + height t.
Proof.
  induction t as [i ch IH] using itree_ind'. intros d r. rewrite pre_unfold.
  change (height (IN i ch)) with (lmax (map (fun o => match o with Some c => S (height c) | None => 0 end) ch)).
  simpl map. induction ch as [|o ch IHch].
  - simpl. unfold maxn. destruct (d <=? 0) eqn:E; [apply Nat.leb_le in E|]; lia.
  - inversion IH as [|x l Ho Hr]; subst x l. specialize (IHch Hr).
    rewrite pre_slots_cons, map_app. rewrite lmax_cons in *. rewrite lmax_app. simpl map. rewrite lmax_cons.
    destruct o as [c|]; simpl in Ho.
    + rewrite Ho. lia.
    + simpl. lia.
Qed.

(* depth() = number of edges on the longest downward path *)
Theorem depth_height {V} (a : arena V) troot T : tree_inv a troot T -> depth_of a troot = ROk (height T).
Proof.
  intros Hinv. unfold depth_of. pose proof (dfs_iter_pre a troot T T Hinv (sub_refl T)) as H.
  rewrite (represents_idx a troot T (proj1 Hinv)) in H. rewrite H. simpl. f_equal. apply lmax_pre.
Qed.

(* ---------------------------------------------------------------- the invariant the metrics rely on *)
(* (C12's invariant AInv of Arena/TreeInv.v contains mi_leaf, mi_root, mi_down, mi_slot literally; mi_tree and
   mi_nodup say that the arena is exactly the tree T, each node once) *)
Record minv {V} (a : arena V) (r : nat) (T : itree) : Prop := {
  mi_tree : tree_inv a r T;
  mi_nodup : NoDup (idxs T);
  mi_leaf : forall i c, aget a i = Some c -> c_leaf c = all_noneb (c_children c);
  mi_root : exists c, aget a r = Some c /\ c_parent c = None;
  mi_down : forall i c l j, aget a i = Some c -> nth_error (c_children c) l = Some (Some j) ->
            exists cj, aget a j = Some cj /\ c_parent cj = Some i;
  mi_slot : forall i c l l' j, aget a i = Some c -> nth_error (c_children c) l = Some (Some j) ->
            nth_error (c_children c) l' = Some (Some j) -> l = l'
}.

Lemma idxs_pre : forall t d r, map n_index (pre d r t) = idxs t.
Proof.
  induction t as [i ch IH] using itree_ind'. intros d r. rewrite pre_unfold. simpl. f_equal.
  generalize (S d). induction ch as [|o ch IHch]; intros d'; [reflexivity|].
  inversion IH as [|x l Ho Hr]; subst x l.
  rewrite pre_slots_cons, map_app. simpl. rewrite (IHch Hr). destruct o as [c|]; simpl; [rewrite Ho|]; reflexivity.
Qed.
Lemma indices_idxs t : indices t = idxs t.
Proof. apply idxs_pre. Qed.
Lemma length_idxs t : length (idxs t) = size t.
Proof. rewrite <- (idxs_pre t 0 0), map_length. apply length_pre. Qed.

Lemma rep_no_kids {V} (a : arena V) ts : forall os, rep_slots a os ts -> all_noneb os = no_kids ts.
Proof.
  induction ts as [|ot ts IH]; intros os H.
  - apply rep_slots_nil_r in H. subst. reflexivity.
  - destruct os as [|o os]; [simpl in H; contradiction|]. apply rep_slots_cons in H as [Ho Hr].
    simpl. rewrite (IH os Hr). destruct o, ot; try contradiction; reflexivity.
Qed.

(* selecting the nodes with / without children from the pre-order list by the stored leaf flag *)
Lemma sel_pre {V} (a : arena V) {B} (want : bool) (f : nat -> nat -> B) :
  (forall i c, aget a i = Some c -> c_leaf c = all_noneb (c_children c)) ->
  forall t k, represents a k t -> forall d r,
  map (fun e => f (n_depth e) (n_index e)) (filter (fun e => Bool.eqb (leafb a (n_index e)) want) (pre d r t))
  = selmap want f d t.
Proof.
  intros Hleaf. induction t as [i ch IH] using itree_ind'. intros k Hr d r.
  apply represents_unfold in Hr as (-> & c & Hc & Hs).
  rewrite pre_unfold. cbn [filter n_index].
  assert (Hl : leafb a k = no_kids ch).
  { unfold leafb. rewrite Hc, (Hleaf k c Hc). apply (rep_no_kids a). exact Hs. }
  rewrite Hl. cbn [selmap].
  assert (Htail : forall d',
    map (fun e => f (n_depth e) (n_index e)) (filter (fun e => Bool.eqb (leafb a (n_index e)) want) (pre_slots d' ch))
    = flat_map (fun o => match o with Some c0 => selmap want f d' c0 | None => [] end) ch).
  { clear Hl Hc. revert Hs. generalize (c_children c). clear c.
    induction ch as [|o ch IHch]; intros os Hs d'; [reflexivity|].
    destruct os as [|o' os]; [simpl in Hs; contradiction|]. apply rep_slots_cons in Hs as [Ho Hs].
    inversion IH as [|x l IHo IHr]; subst x l.
    rewrite pre_slots_cons, filter_app, map_app. simpl flat_map. rewrite (IHch IHr os Hs d').
    f_equal. destruct o' as [k'|], o as [c'|]; try contradiction; [|reflexivity].
    simpl in IHo. apply (IHo k' Ho). }
  destruct (Bool.eqb (no_kids ch) want); cbn [map app n_depth n_index]; rewrite Htail; reflexivity.
Qed.

Lemma filter_eqb_true {A} (p : A -> bool) l : filter (fun x => Bool.eqb (p x) true) l = filter p l.
Proof. apply filter_ext. intros x. destruct (p x); reflexivity. Qed.
Lemma filter_eqb_false {A} (p : A -> bool) l : filter (fun x => Bool.eqb (p x) false) l = filter (fun x => negb (p x)) l.
Proof. apply filter_ext. intros x. destruct (p x); reflexivity. Qed.
Lemma filter_map_comm {A B} (g : A -> B) (p : B -> bool) l : filter p (map g l) = map g (filter (fun x => p (g x)) l).
Proof. induction l as [|x l IH]; simpl; [reflexivity|]. destruct (p (g x)); simpl; rewrite IH; reflexivity. Qed.

Lemma dfs_iter_root {V} (a : arena V) r T : tree_inv a r T -> dfs_iter a r r = ROk (pre 0 0 T).
Proof.
  intros Hinv. pose proof (dfs_iter_pre a r T T Hinv (sub_refl T)) as H.
  rewrite (represents_idx a r T (proj1 Hinv)) in H. exact H.
Qed.

(* the depths depth_stats accumulates = the depths of the childless nodes, left to right *)
Theorem terminal_depths_leafdepths {V} (a : arena V) r T : minv a r T -> terminal_depths a r = ROk (leafdepths 0 T).
Proof.
  intros M. unfold terminal_depths. rewrite (dfs_iter_root a r T (mi_tree a r T M)). simpl. f_equal.
  rewrite <- (filter_eqb_true (fun e => leafb a (n_index e))).
  pose proof (sel_pre a true (fun d _ => d) (mi_leaf a r T M) T r (proj1 (mi_tree a r T M)) 0 0) as H.
  exact H.
Qed.
Theorem depth_stats_direct_eq {V} (a : arena V) r T : minv a r T -> depth_stats a r = ROk (depth_stats_direct T).
Proof. intros M. unfold depth_stats. rewrite (terminal_depths_leafdepths a r T M). reflexivity. Qed.

(* ---------------------------------------------------------------- the stored keys are the nodes of the tree *)
Lemma In_akeys_g {V} (a : arena V) : forall i, In i (akeys a) <-> acontains a i = true.
Proof.
  induction a as [|x t IH]; intros i.
  - unfold akeys, acontains. simpl. rewrite aget_nil. split; [tauto | discriminate].
  - rewrite TreeLemmas.akeys_cons, in_app_iff, in_map_iff. destruct i as [|i].
    + unfold acontains, aget. simpl. destruct x as [c0|]; simpl.
      * split; [reflexivity | intros _; left; left; reflexivity].
      * split; [intros [[]|[k [H _]]]; discriminate | discriminate].
    + specialize (IH i). unfold acontains, aget in *. simpl. split.
      * intros [H|[k [Hk H]]]; [destruct x; simpl in H; intuition discriminate|].
        injection Hk as ->. apply IH. exact H.
      * intros H. right. exists i. split; [reflexivity | apply IH; exact H].
Qed.

Lemma idxs_contained {V} (a : arena V) : forall t k, represents a k t -> forall j, In j (idxs t) -> acontains a j = true.
Proof.
  induction t as [i ch IH] using itree_ind'. intros k Hr j Hj.
  apply represents_unfold in Hr as (-> & c & Hc & Hs).
  destruct Hj as [<-|Hj]; [unfold acontains; rewrite Hc; reflexivity|].
  revert Hs Hj. generalize (c_children c). clear Hc c.
  induction ch as [|o ch IHch]; intros os Hs Hj; [contradiction|].
  destruct os as [|o' os]; [simpl in Hs; contradiction|]. apply rep_slots_cons in Hs as [Ho Hs].
  inversion IH as [|x l IHo IHr]; subst x l.
  simpl in Hj. apply in_app_iff in Hj as [Hj|Hj]; [|exact (IHch IHr os Hs Hj)].
  destruct o' as [k'|], o as [c'|]; try contradiction. exact (IHo k' Ho j Hj).
Qed.

Theorem keys_are_nodes {V} (a : arena V) r T : minv a r T -> Permutation (idxs T) (akeys a).
Proof.
  intros M. destruct (mi_tree a r T M) as [Hrep Hlen].
  apply NoDup_Permutation_bis; [exact (mi_nodup a r T M) | |].
  - rewrite TreeLemmas.length_akeys, length_idxs. lia.
  - intros j Hj. apply In_akeys_g. exact (idxs_contained a T r Hrep j Hj).
Qed.

Lemma SS_map_S l : StronglySorted lt l -> StronglySorted lt (map S l).
Proof.
  induction 1 as [|x l _ IH Hx]; simpl; constructor; auto.
  apply Forall_forall. intros y Hy. apply in_map_iff in Hy as (z & <- & Hz).
  rewrite Forall_forall in Hx. specialize (Hx z Hz). lia.
Qed.
Lemma akeys_sorted {V} (a : arena V) : StronglySorted lt (akeys a).
Proof.
  induction a as [|x t IH]; [constructor|]. rewrite TreeLemmas.akeys_cons.
  pose proof (SS_map_S _ IH) as HS. destruct x; simpl; [|exact HS].
  constructor; [exact HS|]. apply Forall_forall. intros y Hy. apply in_map_iff in Hy as (z & <- & _). lia.
Qed.
Lemma SS_filter (p : nat -> bool) l : StronglySorted lt l -> StronglySorted lt (filter p l).
Proof.
  induction 1 as [|x l _ IH Hx]; simpl; [constructor|].
  destruct (p x); [|exact IH]. constructor; [exact IH|].
  apply Forall_forall. intros y Hy. apply filter_In in Hy as [Hy _]. rewrite Forall_forall in Hx. auto.
Qed.
Lemma Permutation_filter {A} (p : A -> bool) l l' : Permutation l l' -> Permutation (filter p l) (filter p l').
Proof.
  induction 1 as [|x l l' _ IH|x y l|l l' l'' _ IH1 _ IH2]; simpl.
  - constructor.
  - destruct (p x); [constructor|]; exact IH.
  - destruct (p x), (p y); try reflexivity. constructor.
  - etransitivity; eauto.
Qed.

(* index-order iterators: ascending, and exactly the nodes / childless nodes / nodes with children of the tree *)
Theorem node_indices_direct {V} (a : arena V) r T : minv a r T ->
  StronglySorted lt (node_indices a) /\ Permutation (node_indices a) (indices T).
Proof.
  intros M. split; [apply akeys_sorted|]. rewrite indices_idxs. symmetry. exact (keys_are_nodes a r T M).
Qed.

Lemma filter_leaf_idxs {V} (a : arena V) r T want : minv a r T ->
  filter (fun i => Bool.eqb (leafb a i) want) (idxs T) = selmap want (fun _ i => i) 0 T.
Proof.
  intros M. rewrite <- (idxs_pre T 0 0), filter_map_comm.
  exact (sel_pre a want (fun _ i => i) (mi_leaf a r T M) T r (proj1 (mi_tree a r T M)) 0 0).
Qed.

Theorem terminal_indices_direct {V} (a : arena V) r T : minv a r T ->
  StronglySorted lt (terminal_indices a) /\ Permutation (terminal_indices a) (leaf_indices T).
Proof.
  intros M. unfold terminal_indices. split; [apply SS_filter, akeys_sorted|].
  unfold leaf_indices. rewrite <- (filter_leaf_idxs a r T true M), filter_eqb_true.
  apply Permutation_filter. symmetry. exact (keys_are_nodes a r T M).
Qed.
Theorem decision_indices_direct {V} (a : arena V) r T : minv a r T ->
  StronglySorted lt (decision_indices a) /\ Permutation (decision_indices a) (inner_indices T).
Proof.
  intros M. unfold decision_indices. split; [apply SS_filter, akeys_sorted|].
  unfold inner_indices. rewrite <- (filter_leaf_idxs a r T false M), filter_eqb_false.
  apply Permutation_filter. symmetry. exact (keys_are_nodes a r T M).
Qed.

Theorem num_terminals_nleaves {V} (a : arena V) r T : minv a r T -> num_terminals a = nleaves T.
Proof.
  intros M. unfold num_terminals, nleaves.
  rewrite (Permutation_length (proj2 (terminal_indices_direct a r T M))).
  unfold leaf_indices, leafdepths.
  rewrite <- (sel_pre a true (fun _ i => i) (mi_leaf a r T M) T r (proj1 (mi_tree a r T M)) 0 0).
  rewrite <- (sel_pre a true (fun d _ => d) (mi_leaf a r T M) T r (proj1 (mi_tree a r T M)) 0 0).
  rewrite !map_length. reflexivity.
Qed.

(* ---------------------------------------------------------------- path_to_node *)
(* following the (node, label) steps p from T leads to the subtree t *)
Inductive at_path : itree -> list (nat * nat) -> itree -> Prop :=
| ap_here : forall t, at_path t [] t
| ap_down : forall i ch l c p t, nth_error ch l = Some (Some c) -> at_path c p t -> at_path (IN i ch) ((i, l) :: p) t.

Lemma path_slots_spec target i ch (P : itree -> Prop) :
  Forall (oP (fun c => match path_find target c with
                       | Some p => exists t, at_path c p t /\ idx t = target
                       | None => ~ In target (idxs c) end)) ch ->
  forall lab, match path_slots target i lab ch with
              | Some q => exists l c p, q = (i, lab + l) :: p /\ nth_error ch l = Some (Some c) /\
                                        exists t, at_path c p t /\ idx t = target
              | None => ~ In target (flat_map (fun o => match o with Some c => idxs c | None => [] end) ch)
              end.
Proof.
  induction ch as [|o ch IHch]; intros IH lab; [simpl; tauto|].
  inversion IH as [|x l Ho Hr]; subst x l. rewrite path_slots_cons.
  destruct o as [c|]; simpl in Ho.
  - destruct (path_find target c) as [p|] eqn:Hp.
    + exists 0, c, p. rewrite Nat.add_0_r. auto.
    + specialize (IHch Hr (S lab)). destruct (path_slots target i (S lab) ch) as [q|].
      * destruct IHch as (l & c' & p & -> & Hn & Ht). exists (S l), c', p. split; [f_equal; f_equal; lia | split; [exact Hn | exact Ht]].
      * simpl. rewrite in_app_iff. tauto.
  - specialize (IHch Hr (S lab)). destruct (path_slots target i (S lab) ch) as [q|].
    + destruct IHch as (l & c' & p & -> & Hn & Ht). exists (S l), c', p. split; [f_equal; f_equal; lia | split; [exact Hn | exact Ht]].
    + exact IHch.
Qed.

Lemma path_find_spec target : forall T,
  match path_find target T with
  | Some p => exists t, at_path T p t /\ idx t = target
  | None => ~ In target (idxs T)
  end.
Proof.
  induction T as [i ch IH] using itree_ind'. rewrite path_find_unfold.
  destruct (Nat.eqb_spec i target) as [E|E].
  - exists (IN i ch). split; [constructor | exact E].
  - pose proof (path_slots_spec target i ch (fun _ => True) IH 0) as H.
    destruct (path_slots target i 0 ch) as [q|].
    + destruct H as (l & c & p & -> & Hn & t & Hat & Ht). exists t. split; [|exact Ht]. simpl. econstructor; eauto.
    + simpl. intros [H1|H1]; [exact (E H1) | exact (H H1)].
Qed.

Lemma at_path_size T p t : at_path T p t -> length p + size t <= size T.
Proof.
  induction 1 as [t|i ch l c p t Hn _ IH]; [simpl; lia|].
  pose proof (in_slot_size c ch (nth_error_In _ _ Hn)). simpl in *. lia.
Qed.

Lemma rep_slots_nth {V} (a : arena V) ts : forall os l c, rep_slots a os ts -> nth_error ts l = Some (Some c) ->
  nth_error os l = Some (Some (idx c)) /\ represents a (idx c) c.
Proof.
  induction ts as [|ot ts IH]; intros os l c H Hn; [destruct l; discriminate|].
  destruct os as [|o os]; [simpl in H; contradiction|]. apply rep_slots_cons in H as [Ho Hr].
  destruct l as [|l]; simpl in *.
  - injection Hn as ->. destruct o as [k|]; [|contradiction].
    rewrite (represents_idx a k c Ho). auto.
  - eapply IH; eauto.
Qed.

Lemma find_label_unique os j : forall l k, nth_error os l = Some (Some j) ->
  (forall l', nth_error os l' = Some (Some j) -> l' = l) -> find_label os k j = Some (k + l).
Proof.
  induction os as [|o os IH]; intros l k Hn Hu; [destruct l; discriminate|].
  destruct l as [|l]; simpl in Hn.
  - injection Hn as ->. simpl. rewrite Nat.eqb_refl. f_equal. lia.
  - simpl. assert (Hne : o <> Some j). { intros ->. specialize (Hu 0 eq_refl). discriminate. }
    assert (Hrec : find_label os (S k) j = Some (S k + l)).
    { apply IH; [exact Hn|]. intros l' Hl'. specialize (Hu (S l') Hl'). lia. }
    destruct o as [x|]; [|rewrite Hrec; f_equal; lia].
    destruct (Nat.eqb_spec x j) as [->|_]; [congruence|]. rewrite Hrec. f_equal. lia.
Qed.

Lemma at_path_rep {V} (a : arena V) T p t : at_path T p t -> forall k, represents a k T -> represents a (idx t) t.
Proof.
  induction 1 as [t|i ch l c p t Hn _ IH]; intros k Hk.
  - rewrite (represents_idx a k t Hk). exact Hk.
  - apply represents_unfold in Hk as (_ & pc & Hpc & Hs).
    destruct (rep_slots_nth a ch (c_children pc) l c Hs Hn) as [_ Hrc]. exact (IH _ Hrc).
Qed.

(* climbing from the node reached by p consumes length p steps and prepends p *)
Lemma path_up_climb {V} (a : arena V) r T0 (M : minv a r T0) : forall T p t, at_path T p t -> represents a (idx T) T ->
  forall f acc, path_up a (length p + f) (idx t) acc = path_up a f (idx T) (p ++ acc).
Proof.
  induction 1 as [t|i ch l c p t Hn Hat IH]; intros Hr f acc; [reflexivity|].
  apply represents_unfold in Hr as (_ & pc & Hpc & Hs). simpl idx in *.
  destruct (rep_slots_nth a ch (c_children pc) l c Hs Hn) as [Hnl Hrc].
  rewrite <- app_comm_cons. simpl length.
  replace (S (length p) + f) with (length p + S f) by lia.
  rewrite (IH Hrc (S f) acc). simpl.
  destruct (mi_down a r T0 M i pc l (idx c) Hpc Hnl) as (cc & Hcc & Hpar).
  rewrite Hcc, Hpar, Hpc.
  rewrite (find_label_unique (c_children pc) (idx c) l 0 Hnl).
  - reflexivity.
  - intros l' Hl'. exact (mi_slot a r T0 M i pc l' l (idx c) Hpc Hl' Hnl).
Qed.

(* path_to_node = the (node, label) steps from the root, Err for an index that is not a node *)
Theorem path_to_node_direct {V} (a : arena V) r T : minv a r T -> forall target,
  path_to_node a target = ROk (path_find target T).
Proof.
  intros M target. destruct (mi_tree a r T M) as [Hrep Hlen].
  pose proof (path_find_spec target T) as Hspec. unfold path_to_node.
  destruct (path_find target T) as [p|].
  - destruct Hspec as (t & Hat & Ht).
    assert (Hin : acontains a target = true).
    { rewrite <- Ht. pose proof (at_path_size T p t Hat) as Hsz.
      pose proof (at_path_rep a T p t Hat r Hrep) as Hrt.
      destruct (represents_cell a _ t Hrt) as (c & Hc & _). unfold acontains. rewrite Hc. reflexivity. }
    rewrite Hin. pose proof (at_path_size T p t Hat) as Hsz. pose proof (size_pos t) as Hp1.
    replace (S (alen a)) with (length p + S (alen a - length p)) by lia.
    rewrite <- Ht.
    assert (HrT : represents a (idx T) T) by (rewrite (represents_idx a r T Hrep); exact Hrep).
    rewrite (path_up_climb a r T M T p t Hat HrT). rewrite (represents_idx a r T Hrep), app_nil_r.
    destruct (mi_root a r T M) as (c & Hc & Hpar). simpl. rewrite Hc, Hpar. reflexivity.
  - destruct (acontains a target) eqn:Hc; [|reflexivity].
    exfalso. apply Hspec. apply In_akeys_g in Hc.
    exact (Permutation_in _ (Permutation_sym (keys_are_nodes a r T M)) Hc).
Qed.

(* ---------------------------------------------------------------- what the four statistics are *)
Lemma fold_minn_spec : forall l x,
  (fold_left minn l x = x \/ In (fold_left minn l x) l) /\ fold_left minn l x <= x /\
  forall y, In y l -> fold_left minn l x <= y.
Proof.
  induction l as [|z l IH]; intros x; simpl; [repeat split; auto; contradiction|].
  destruct (IH (minn x z)) as (H1 & H2 & H3).
  assert (Hm : (minn x z = x \/ minn x z = z) /\ minn x z <= x /\ minn x z <= z).
  { unfold minn. destruct (Nat.leb_spec x z); repeat split; auto; lia. }
  destruct Hm as (Hm & Hx & Hz). repeat split.
  - destruct H1 as [H1|H1]; [|right; right; exact H1]. rewrite H1.
    destruct Hm as [E|E]; rewrite E; [left; reflexivity | right; left; reflexivity].
  - lia.
  - intros y [<-|Hy]; [lia | exact (H3 y Hy)].
Qed.
Theorem list_min_spec l m : list_min l = Some m -> In m l /\ forall x, In x l -> m <= x.
Proof.
  destruct l as [|x l]; [discriminate|]. simpl. intros H. injection H as <-.
  destruct (fold_minn_spec l x) as (H1 & H2 & H3). split.
  - destruct H1 as [->|H1]; auto.
  - intros y [<-|Hy]; auto.
Qed.
Lemma lmax_in l : l <> [] -> In (lmax l) l.
Proof.
  induction l as [|x l IH]; [congruence|]. intros _. rewrite lmax_cons.
  destruct l as [|y l]; [simpl; left; lia|].
  destruct (Nat.max_spec x (lmax (y :: l))) as [[_ E]|[_ E]]; rewrite E; [right; apply IH; congruence | left; reflexivity].
Qed.
Lemma lmax_ge l x : In x l -> x <= lmax l.
Proof. induction l as [|y l IH]; [contradiction|]. rewrite lmax_cons. intros [->|H]; [|specialize (IH H)]; lia. Qed.
Theorem list_max_opt_spec l m : list_max_opt l = Some m -> In m l /\ forall x, In x l -> x <= m.
Proof.
  destruct l as [|x l]; [discriminate|]. unfold list_max_opt. intros H. injection H as <-.
  split; [apply (lmax_in (x :: l)); congruence | apply (lmax_ge (x :: l))].
Qed.

Lemma qnat_nonzero n : n <> 0 -> qnat n <> 0%Qc.
Proof.
  intros Hn H. apply Hn. unfold qnat, qz in H. apply Qc_eq_iff in H.
  unfold Q2Qc in H. cbn [this] in H. rewrite Qred_correct in H.
  unfold Qeq in H. simpl in H. lia.
Qed.
Lemma qdiv_mul (x y : Qc) : y <> 0%Qc -> (x / y * y = x)%Qc.
Proof. intros H. unfold Qcdiv. rewrite <- Qcmult_assoc, (Qcmult_comm (/ y)), Qcmult_inv_r, Qcmult_1_r; auto. Qed.
Theorem sample_mean_spec l mu : sample_mean l = Some mu -> (mu * qnat (length l) = qsum (map qnat l))%Qc.
Proof.
  destruct l as [|x l]; [discriminate|]. unfold sample_mean. intros H. injection H as <-.
  apply qdiv_mul. apply qnat_nonzero. simpl. lia.
Qed.
Theorem sample_var_spec l s2 : sample_var l = Some s2 ->
  exists mu, sample_mean l = Some mu /\ 2 <= length l /\
    (s2 * qnat (length l - 1) = qsum (map (fun x => (qnat x - mu) * (qnat x - mu)) l))%Qc.
Proof.
  unfold sample_var. destruct (sample_mean l) as [mu|]; [|discriminate].
  destruct (Nat.ltb_spec (length l) 2) as [Hl|Hl]; [discriminate|]. intros H. injection H as <-.
  exists mu. split; [reflexivity|]. split; [exact Hl|]. apply qdiv_mul. apply qnat_nonzero. lia.
Qed.

(* ---------------------------------------------------------------- the executable invariant check is sound *)
Lemma nodupb_NoDup l : nodupb l = true -> NoDup l.
Proof.
  induction l as [|x l IH]; simpl; intros H; constructor; apply andb_prop in H as [H1 H2]; auto.
  intros Hin. apply negb_true_iff in H1. assert (E : existsb (Nat.eqb x) l = true); [|congruence].
  apply existsb_exists. exists x. split; [exact Hin | apply Nat.eqb_refl].
Qed.
Lemma aget_lt {V} (a : arena V) i c : aget a i = Some c -> i < length a.
Proof. unfold aget. intros H. apply nth_error_Some. destruct (nth_error a i); [discriminate | discriminate]. Qed.
Lemma nodup_somes_slot (os : list (option nat)) : NoDup (somes os) -> forall l l' j,
  nth_error os l = Some (Some j) -> nth_error os l' = Some (Some j) -> l = l'.
Proof.
  assert (Hin : forall (os : list (option nat)) l j, nth_error os l = Some (Some j) -> In j (somes os)).
  { induction os0 as [|o os0 IH]; intros l j H; [destruct l; discriminate|].
    destruct l as [|l]; simpl in H; [injection H as ->; left; reflexivity|].
    destruct o; simpl; [right|]; eapply IH; eauto. }
  induction os as [|o os IH]; intros Hnd l l' j H1 H2; [destruct l; discriminate|].
  assert (Hnd' : NoDup (somes os)) by (destruct o; simpl in Hnd; [inversion Hnd|]; auto).
  destruct l as [|l], l' as [|l']; simpl in H1, H2; auto.
  - injection H1 as ->. simpl in Hnd. inversion Hnd as [|x xs Hnot _]; subst. exfalso. apply Hnot. eapply Hin; eauto.
  - injection H2 as ->. simpl in Hnd. inversion Hnd as [|x xs Hnot _]; subst. exfalso. apply Hnot. eapply Hin; eauto.
  - f_equal. eapply IH; eauto.
Qed.

Theorem minvb_sound {V} (a : arena V) r T : minvb a r = Some T -> minv a r T.
Proof.
  unfold minvb. destruct (unfold a (S (length a)) r) as [T'|] eqn:Hu; [|discriminate].
  destruct (_ && _) eqn:Hb; [|discriminate]. intros H. injection H as <-.
  apply andb_prop in Hb as [Hb Hcells]. apply andb_prop in Hb as [Hb Hroot]. apply andb_prop in Hb as [Hlen Hnd].
  assert (Hcell : forall i c, aget a i = Some c -> cell_okb a i c = true).
  { intros i c Hc. rewrite forallb_forall in Hcells. specialize (Hcells i).
    rewrite Hc in Hcells. apply Hcells. apply in_seq. pose proof (aget_lt a i c Hc). lia. }
  constructor.
  - split; [exact (unfold_sound a _ r T' Hu) | apply Nat.eqb_eq; exact Hlen].
  - apply nodupb_NoDup. exact Hnd.
  - intros i c Hc. specialize (Hcell i c Hc). unfold cell_okb in Hcell.
    apply andb_prop in Hcell as [Hcell _]. apply andb_prop in Hcell as [Hl _]. apply eqb_prop. exact Hl.
  - destruct (aget a r) as [c|]; [|discriminate]. exists c. split; [reflexivity|]. destruct (c_parent c); [discriminate | reflexivity].
  - intros i c l j Hc Hn. specialize (Hcell i c Hc). unfold cell_okb in Hcell.
    apply andb_prop in Hcell as [Hcell _]. apply andb_prop in Hcell as [_ Hd].
    rewrite forallb_forall in Hd. specialize (Hd (Some j) (nth_error_In _ _ Hn)). simpl in Hd.
    destruct (aget a j) as [cj|]; [|discriminate]. exists cj. split; [reflexivity|].
    destruct (c_parent cj) as [p|]; [|discriminate]. apply Nat.eqb_eq in Hd. congruence.
  - intros i c l l' j Hc H1 H2. specialize (Hcell i c Hc). unfold cell_okb in Hcell.
    apply andb_prop in Hcell as [_ Hs]. apply nodupb_NoDup in Hs. exact (nodup_somes_slot _ Hs l l' j H1 H2).
Qed.

(* Arena/TreeLemmas.v -- list/arena facts used by the C12 invariant proofs. *)
From Coq Require Import List Arith Lia Bool FinFun.
From AT Require Import Cells Tree.
Import ListNotations.

Lemma aget_aset (a : arena nat) i j c : aget (aset a i c) j = if Nat.eqb i j then c else aget a j.
Proof.
  destruct (Nat.eqb_spec i j) as [->|H]; [apply aget_aset_same | apply aget_aset_other; auto].
Qed.

Lemma acontains_true (a : arena nat) i : acontains a i = true <-> exists c, aget a i = Some c.
Proof. unfold acontains. destruct (aget a i); split; intros H; eauto; try discriminate. destruct H; discriminate. Qed.

(* ---------------------------------------------------------------- set_nth *)
Lemma length_set_nth {A} (l : list A) n x : length (set_nth l n x) = length l.
Proof. revert n; induction l as [|h t IH]; intros [|n]; simpl; auto. Qed.

Lemma nth_error_set_nth {A} (l : list A) n m x :
  nth_error (set_nth l n x) m =
  if Nat.eqb n m then match nth_error l n with Some _ => Some x | None => None end else nth_error l m.
Proof.
  revert n m; induction l as [|h t IH]; intros [|n] [|m]; simpl; auto.
  all: try (destruct (Nat.eqb n m); auto; fail).
  all: try apply IH.
Qed.

Lemma nth_error_set_nth_same {A} (l : list A) n x y : nth_error l n = Some y -> nth_error (set_nth l n x) n = Some x.
Proof. intros H. rewrite nth_error_set_nth, Nat.eqb_refl, H. auto. Qed.

Lemma nth_error_set_nth_other {A} (l : list A) n m x : n <> m -> nth_error (set_nth l n x) m = nth_error l m.
Proof. intros H. rewrite nth_error_set_nth. destruct (Nat.eqb_spec n m); congruence. Qed.

(* ---------------------------------------------------------------- somes / all_none / count_some *)
Lemma In_somes l j : In j (somes l) <-> exists n, nth_error l n = Some (Some j).
Proof.
  induction l as [|[x|] t IH]; simpl.
  - split; [tauto | intros [[|n] H]; discriminate].
  - split.
    + intros [->|H]; [exists 0; auto | apply IH in H as [n H]; exists (S n); auto].
    + intros [[|n] H]; simpl in H; [left; congruence | right; apply IH; eauto].
  - rewrite IH. split; intros [n H]; [exists (S n); auto | destruct n; simpl in H; [discriminate | eauto]].
Qed.

Lemma all_none_no_some l n j : all_none l = true -> nth_error l n = Some (Some j) -> False.
Proof.
  unfold all_none. intros H Hn. apply nth_error_In in Hn.
  rewrite forallb_forall in H. apply H in Hn. discriminate.
Qed.
Lemma some_not_all_none l n j : nth_error l n = Some (Some j) -> all_none l = false.
Proof. intros H. destruct (all_none l) eqn:E; auto. exfalso; eapply all_none_no_some; eauto. Qed.
Lemma all_none_repeat K : all_none (repeat None K) = true.
Proof. induction K; simpl; auto. Qed.
Lemma all_none_map_none (l : list (option nat)) : all_none (map (fun _ => @None nat) l) = true.
Proof. induction l; simpl; auto. Qed.
Lemma all_none_somes l : all_none l = true <-> somes l = [].
Proof.
  induction l as [|[x|] t IH]; simpl; try tauto.
  split; intros H; discriminate.
Qed.

Lemma count_one l n m i j :
  count_some l = 1 -> nth_error l n = Some (Some i) -> nth_error l m = Some (Some j) -> i = j.
Proof.
  unfold count_some. intros H Hi Hj.
  assert (Ii : In i (somes l)) by (apply In_somes; eauto).
  assert (Ij : In j (somes l)) by (apply In_somes; eauto).
  destruct (somes l) as [|x [|y r]]; simpl in H; try discriminate.
  simpl in Ii, Ij. intuition congruence.
Qed.

(* ---------------------------------------------------------------- find_label *)
Lemma find_label_sound l i n : find_label l i = Some n -> nth_error l n = Some (Some i).
Proof.
  revert n; induction l as [|[x|] t IH]; simpl; intros n H; try discriminate.
  - destruct (Nat.eqb_spec x i) as [->|Hx].
    + inversion H; auto.
    + destruct (find_label t i) as [m|]; simpl in H; inversion H. simpl. auto.
  - destruct (find_label t i) as [m|]; simpl in H; inversion H. simpl. auto.
Qed.
Lemma find_label_complete l i n : nth_error l n = Some (Some i) -> exists m, find_label l i = Some m.
Proof.
  revert n; induction l as [|[x|] t IH]; simpl; intros [|n] H; simpl in H; try discriminate.
  - inversion H. rewrite Nat.eqb_refl. eauto.
  - destruct (Nat.eqb x i); eauto. apply IH in H as [m ->]. simpl; eauto.
  - apply IH in H as [m ->]. simpl; eauto.
Qed.

(* ---------------------------------------------------------------- alen *)
Lemma alen_aremove (a : arena nat) i c : aget a i = Some c -> alen a = S (alen (aremove a i)).
Proof.
  unfold aremove, alen, aget. revert i; induction a as [|x t IH]; intros [|i] H; simpl in *; try discriminate.
  - destruct x; [auto | discriminate].
  - destruct x; simpl; [f_equal|]; apply IH; auto.
Qed.

(* ---------------------------------------------------------------- akeys *)
Lemma akeys_shift {V} (a : arena V) s :
  map fst (filter (fun p : nat * option (cell V) => match snd p with Some _ => true | None => false end) (combine (seq (S s) (length a)) a)) =
  map S (map fst (filter (fun p : nat * option (cell V) => match snd p with Some _ => true | None => false end) (combine (seq s (length a)) a))).
Proof.
  revert s; induction a as [|x t IH]; intros s; simpl; auto.
  destruct x; simpl; [f_equal|]; apply IH.
Qed.

Lemma akeys_cons {V} (x : option (cell V)) (t : arena V) :
  akeys (x :: t) = (match x with Some _ => [0] | None => [] end) ++ map S (akeys t).
Proof.
  unfold akeys. destruct x; simpl; rewrite akeys_shift; auto.
Qed.

Lemma In_akeys (a : arena nat) i : In i (akeys a) <-> exists c, aget a i = Some c.
Proof.
  revert i; induction a as [|x t IH]; intros i.
  - unfold akeys; simpl. rewrite aget_nil. split; [tauto | intros [c H]; discriminate].
  - rewrite akeys_cons, in_app_iff, in_map_iff. unfold aget in *. destruct i as [|i]; simpl.
    + destruct x as [c0|]; simpl.
      * split; [eauto | intros _; left; left; auto].
      * split; [intros [[]|[k [H _]]]; discriminate | intros [c H]; discriminate].
    + split.
      * intros [H|[k [Hk H]]]; [destruct x; simpl in H; intuition discriminate|].
        inversion Hk; subst k. apply IH in H. auto.
      * intros H. right. exists i. split; auto. apply IH. auto.
Qed.

Lemma NoDup_akeys {V} (a : arena V) : NoDup (akeys a).
Proof.
  induction a as [|x t IH].
  - unfold akeys; simpl; constructor.
  - rewrite akeys_cons.
    assert (HS : NoDup (map S (akeys t))).
    { apply FinFun.Injective_map_NoDup; auto. intros p q; lia. }
    destruct x; simpl; auto. constructor; auto.
    rewrite in_map_iff. intros [k [H _]]; discriminate.
Qed.

Lemma length_akeys {V} (a : arena V) : length (akeys a) = alen a.
Proof.
  induction a as [|x t IH].
  - reflexivity.
  - rewrite akeys_cons, app_length, map_length, IH. unfold alen. simpl. destruct x; simpl; auto.
Qed.

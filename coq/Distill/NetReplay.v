(* Distill/NetReplay.v -- replay oracle for a whole distillation: the logged LP and mirror_points answers keyed by
   their query (the hook's log runs across all layers of one afftree_from_layers call, so call numbers of the
   per-operation models do not line up with it; the queries do). *)
From AT Require Import Num Vec Aff PTree Cells Abs Cache Elim CPrune.

Definition pts_eqb (a b : list vec) : bool :=
  Nat.eqb (length a) (length b) && forallb (fun p => veqb (fst p) (snd p)) (combine a b).
Fixpoint lookup_mir (log : list (rows * list vec * option (list vec))) (q : rows) (ws : list vec) : option (list vec) :=
  match log with
  | [] => None
  | (r, w, a) :: rest => if rows_eqb r q && pts_eqb w ws then a else lookup_mir rest q ws
  end.
Definition oracle_by_query (lps : list (rows * lpans)) (mirs : list (rows * list vec * option (list vec))) : oracle :=
  {| o_lp := fun _ q => lookup_rows lps q; o_mir := fun _ q ws => lookup_mir mirs q ws |}.

(* Distill/SchemaProofs.v -- the predefined trees denote their textbook definitions, for every dimension, row,
   parameter value and input (breakpoints and ties are ordinary cases of the case analyses below). *)
From AT Require Import Num Vec Aff PTree Schema.

(* order goals over Qc that mention the constants 1/2, 1/6, 3 *)
Ltac sq := qc2q; change (this half) with (1#2)%Q in *; change (this sixth) with (1#6)%Q in *;
           change (this three) with (3#1)%Q in *; lra.
Ltac qdone := first [reflexivity | ring | sq].

(* case analysis on every comparison of the goal, innermost first *)
Ltac act_cases :=
  repeat match goal with
  | |- context [qleb ?a ?b] =>
      lazymatch a with context [qleb _ _] => fail | _ => idtac end;
      lazymatch b with context [qleb _ _] => fail | _ => idtac end;
      let E := fresh "E" in destruct (qleb a b) eqn:E; [apply qleb_spec in E | apply qleb_false in E]
  end.

(* ---------------------------------------------------------------- lists over seq *)
Lemma vzip_map {A} f (g h : A -> Qc) l : vzip f (map g l) (map h l) = map (fun j => f (g j) (h j)) l.
Proof. induction l as [|a l IH]; cbn [map vzip]; auto. rewrite IH. reflexivity. Qed.

Lemma map_seq_S {B} (f : nat -> B) n : map f (seq 1 n) = map (fun j => f (S j)) (seq 0 n).
Proof. rewrite <- seq_shift, map_map. reflexivity. Qed.

Lemma map_nth_seq (x : vec) : map (fun j => nth j x 0) (seq 0 (length x)) = x.
Proof.
  induction x as [|a x IH]; auto. cbn [length seq map]. rewrite map_seq_S. cbn [nth]. rewrite IH. reflexivity.
Qed.

Lemma upd_vset n i v x : length x = n ->
  map (fun j => if Nat.eqb j i then v else nth j x 0) (seq 0 n) = vset x i v.
Proof.
  intros <-. revert i; induction x as [|a x IH]; intros i; auto.
  cbn [length seq map]. rewrite map_seq_S. destruct i as [|i]; cbn [Nat.eqb nth vset].
  - rewrite map_nth_seq. reflexivity.
  - rewrite IH. reflexivity.
Qed.

Lemma vset_same x i : vset x i (nth i x 0) = x.
Proof. revert i; induction x as [|a x IH]; intros [|i]; cbn [vset nth]; auto. rewrite IH. reflexivity. Qed.
Lemma length_vset x i v : length (vset x i v) = length x.
Proof. revert i; induction x as [|a x IH]; intros [|i]; cbn [vset length]; auto. Qed.
Lemma nth_vset x i v k : (i < length x)%nat -> nth k (vset x i v) 0 = if Nat.eqb k i then v else nth k x 0.
Proof.
  revert i k; induction x as [|a x IH]; intros i k H; cbn [length] in H; try lia.
  destruct i as [|i], k as [|k]; cbn [vset nth Nat.eqb]; auto. apply IH. lia.
Qed.

Lemma vadd_vzero x : vadd x (vzero (length x)) = x.
Proof. unfold vadd, vzero. induction x as [|a x IH]; cbn [length repeat vzip]; auto. rewrite IH. f_equal. ring. Qed.

(* ---------------------------------------------------------------- the affine constructors *)
Lemma apply_seq n (R : nat -> vec) (B : nat -> Qc) x :
  apply {| a_in := n; a_mat := map R (seq 0 n); a_bias := map B (seq 0 n) |} x =
  map (fun j => dot (R j) x + B j) (seq 0 n).
Proof. unfold apply, matvec, vadd. cbn [a_mat a_bias]. rewrite map_map. apply vzip_map. Qed.

Lemma apply_patch n i r b x : length x = n -> (i < n)%nat ->
  apply (sc_patch n i r b) x = vset x i (dot r x + b).
Proof.
  intros Hx Hi. unfold sc_patch. rewrite apply_seq. rewrite <- (upd_vset n) by auto.
  apply map_ext_in. intros j Hj. apply in_seq in Hj. destruct (Nat.eqb j i); auto.
  rewrite dot_unitv by lia. ring.
Qed.

Lemma apply_identity n x : length x = n -> apply (sc_identity n) x = x.
Proof.
  intros Hx. unfold apply, sc_identity. cbn [a_mat a_bias]. rewrite matvec_eye by auto. subst n. apply vadd_vzero.
Qed.
Lemma apply_identity_row n i x : length x = n -> apply (sc_identity n) x = vset x i (nth i x 0).
Proof. intros Hx. rewrite apply_identity by auto. symmetry. apply vset_same. Qed.

Lemma apply_constant n v x : apply (sc_constant n v) x = [v].
Proof.
  unfold apply, sc_constant, sc_rowf, matvec, vadd. cbn [a_mat a_bias map vzip]. rewrite dot_vzero. f_equal. ring.
Qed.

Lemma sc_subrow_vsub n l r : sc_subrow n l r = vsub (unitv n l) (unitv n r).
Proof. unfold sc_subrow, unitv, vsub. rewrite vzip_map. reflexivity. Qed.
Lemma dot_subrow n l r x : (l < n)%nat -> (r < n)%nat ->
  dot (sc_subrow n l r) x = nth l x 0 - nth r x 0.
Proof.
  intros Hl Hr. rewrite sc_subrow_vsub.
  rewrite dot_vsub by (rewrite !length_unitv; auto). rewrite !dot_unitv by auto. reflexivity.
Qed.

(* ---------------------------------------------------------------- binary decisions *)
Lemma eval_D2 n r b t0 t1 x :
  eval (D (sc_rowf n r b) [t0; t1]) x = if qleb (dot r x) b then eval t1 x else eval t0 x.
Proof.
  cbn [eval]. unfold decide, sc_rowf. cbn [a_mat a_bias bits label_of]. destruct (qleb (dot r x) b); reflexivity.
Qed.

Lemma qleb_opp a b : qleb (- a) (- b) = qleb b a.
Proof.
  destruct (qleb (- a) (- b)) eqn:E1, (qleb b a) eqn:E2; auto.
  - apply qleb_spec in E1. apply qleb_false in E2. exfalso. qlra.
  - apply qleb_spec in E2. apply qleb_false in E1. exfalso. qlra.
Qed.

(* ---------------------------------------------------------------- activation functions *)
Theorem eval_partial_relu n i x : length x = n -> (i < n)%nat ->
  eval (partial_relu n i) x = Some (relu_def i x).
Proof.
  intros Hx Hi. unfold partial_relu, sc_unit, sc_zero_idx, relu_def, on_row. rewrite eval_D2. cbn [eval].
  rewrite (apply_identity_row n i), apply_patch, dot_unitv, dot_vzero by auto.
  unfold qmax. act_cases; f_equal; f_equal; qdone.
Qed.

Theorem eval_partial_leaky_relu n i alpha x : length x = n -> (i < n)%nat ->
  eval (partial_leaky_relu n i alpha) x = Some (leaky_relu_def alpha i x).
Proof.
  intros Hx Hi. unfold partial_leaky_relu, sc_unit, leaky_relu_def, on_row. rewrite eval_D2. cbn [eval].
  rewrite (apply_identity_row n i), apply_patch, dot_vscale, dot_unitv by auto.
  unfold qltb. act_cases; cbn [negb]; f_equal; f_equal; qdone.
Qed.

Theorem eval_partial_hard_tanh n i lo hi x : length x = n -> (i < n)%nat -> lo <= hi ->
  eval (partial_hard_tanh n i lo hi) x = Some (hard_tanh_def lo hi i x).
Proof.
  intros Hx Hi Hlh. unfold partial_hard_tanh, hard_tanh_def, on_row. rewrite !eval_D2. cbn [eval].
  rewrite (apply_identity_row n i), !apply_patch, dot_vopp, dot_unitv, dot_vzero by auto.
  unfold qmax, qmin. act_cases; f_equal; f_equal; qdone.
Qed.

Theorem eval_partial_hard_shrink n i lam x : length x = n -> (i < n)%nat ->
  eval (partial_hard_shrink n i lam) x = Some (hard_shrink_def lam i x).
Proof.
  intros Hx Hi. unfold partial_hard_shrink, sc_zero_idx, hard_shrink_def, on_row. rewrite !eval_D2. cbn [eval].
  rewrite (apply_identity_row n i), !apply_patch, dot_vopp, dot_unitv, dot_vzero by auto.
  unfold qltb, qabs. act_cases; cbn [negb]; f_equal; f_equal; qdone.
Qed.

(* D9: the tree as originally coded keeps x at the closed ends x = lambda and x = -lambda *)
Theorem hard_shrink_closed_refuted :
  exists n i lam x, length x = n /\ (i < n)%nat /\
    eval (partial_hard_shrink_closed n i lam) x <> Some (hard_shrink_def lam i x).
Proof.
  exists 1%nat, 0%nat, 1, [1]. repeat split; auto. intros H.
  pose proof (proj2 (veqb_spec _ _) (f_equal (fun o => match o with Some v => v | None => [] end) H)) as E.
  vm_compute in E. discriminate.
Qed.
Theorem hard_shrink_closed_refuted_neg :
  exists n i lam x, length x = n /\ (i < n)%nat /\
    eval (partial_hard_shrink_closed n i lam) x <> Some (hard_shrink_def lam i x).
Proof.
  exists 2%nat, 1%nat, 1, [0; - (1)]. repeat split; auto. intros H.
  pose proof (proj2 (veqb_spec _ _) (f_equal (fun o => match o with Some v => v | None => [] end) H)) as E.
  vm_compute in E. discriminate.
Qed.
(* away from the two closed ends the original tree was right *)
Theorem eval_partial_hard_shrink_closed n i lam x : length x = n -> (i < n)%nat ->
  nth i x 0 <> lam -> nth i x 0 <> - lam ->
  eval (partial_hard_shrink_closed n i lam) x = Some (hard_shrink_def lam i x).
Proof.
  intros Hx Hi H1 H2. unfold partial_hard_shrink_closed, sc_zero_idx, hard_shrink_def, on_row. rewrite !eval_D2. cbn [eval].
  rewrite (apply_identity_row n i), !apply_patch, dot_vopp, dot_unitv, dot_vzero by auto.
  unfold qltb, qabs. act_cases; cbn [negb]; f_equal; f_equal; try qdone.
  all: exfalso; first [apply H1; sq | apply H2; sq].
Qed.

Theorem eval_partial_hard_sigmoid n i s x : length x = n -> (i < n)%nat ->
  eval (partial_hard_sigmoid n i s) x = Some (hard_sigmoid_def s i x).
Proof.
  intros Hx Hi. unfold partial_hard_sigmoid, hard_sigmoid_def, on_row. rewrite !eval_D2. cbn [eval].
  rewrite !apply_patch, dot_vopp, dot_vscale, dot_unitv, dot_vzero by auto.
  act_cases; f_equal; f_equal; qdone.
Qed.
(* with slope 1/6 this is the textbook hard sigmoid max(0, min(1, x/6 + 1/2)) *)
Theorem hard_sigmoid_def_textbook i x : hard_sigmoid_def sixth i x = hard_sigmoid_textbook i x.
Proof.
  unfold hard_sigmoid_def, hard_sigmoid_textbook, on_row. f_equal. unfold qmax, qmin.
  act_cases; qdone.
Qed.
Theorem eval_partial_hard_sigmoid_textbook n i x : length x = n -> (i < n)%nat ->
  eval (partial_hard_sigmoid n i sixth) x = Some (hard_sigmoid_textbook i x).
Proof. intros. rewrite <- hard_sigmoid_def_textbook. apply eval_partial_hard_sigmoid; auto. Qed.

Theorem eval_partial_threshold n i theta v x : length x = n -> (i < n)%nat ->
  eval (partial_threshold n i theta v) x = Some (threshold_def theta v i x).
Proof.
  intros Hx Hi. unfold partial_threshold, threshold_def, on_row. rewrite eval_D2. cbn [eval].
  rewrite (apply_identity_row n i), apply_patch, dot_unitv, dot_vzero by auto.
  unfold qltb. act_cases; cbn [negb]; f_equal; f_equal; qdone.
Qed.

(* the other components stay untouched, the named one is replaced *)
Lemma on_row_other h i x k : k <> i -> nth k (on_row h i x) 0 = nth k x 0.
Proof.
  intros Hk. unfold on_row. destruct (Nat.lt_ge_cases i (length x)) as [Hi|Hi].
  - rewrite nth_vset by auto. apply Nat.eqb_neq in Hk. rewrite Hk. reflexivity.
  - f_equal. clear Hk. revert i Hi; induction x as [|a x IH]; intros [|i] Hi; cbn [vset length] in *; auto; try lia.
    rewrite IH by lia. reflexivity.
Qed.
Lemma on_row_same h i x : (i < length x)%nat -> nth i (on_row h i x) 0 = h (nth i x 0).
Proof. intros Hi. unfold on_row. rewrite nth_vset by auto. rewrite Nat.eqb_refl. reflexivity. Qed.
Lemma on_row_length h i x : length (on_row h i x) = length x.
Proof. apply length_vset. Qed.

(* ---------------------------------------------------------------- argmax *)
Fixpoint scan (x : vec) (fuel j c : nat) : nat :=
  match fuel with
  | O => c
  | S f => if qleb (nth j x 0 - nth c x 0) 0 then scan x f (S j) c else scan x f (S j) j
  end.

Lemma eval_argmax_node n x : length x = n -> forall f j c, (j + f = n)%nat -> (c < j)%nat ->
  eval (argmax_node n f j c) x = Some [qnat (scan x f j c)].
Proof.
  intros Hx. induction f as [|f IH]; intros j c Hj Hc; cbn [argmax_node scan].
  - cbn [eval]. rewrite apply_constant. reflexivity.
  - unfold sc_subtraction. rewrite eval_D2. rewrite dot_subrow by lia.
    destruct (qleb (nth j x 0 - nth c x 0) 0); apply IH; lia.
Qed.

Lemma scan_spec x : forall f j c, (j + f = length x)%nat -> (c < j)%nat ->
  (forall k, (k < j)%nat -> nth k x 0 <= nth c x 0) ->
  (forall k, (k < c)%nat -> nth k x 0 < nth c x 0) ->
  is_first_max x (scan x f j c).
Proof.
  induction f as [|f IH]; intros j c Hj Hc Hle Hlt; cbn [scan].
  - repeat split; auto; try lia. intros k Hk. apply Hle. lia.
  - destruct (qleb (nth j x 0 - nth c x 0) 0) eqn:E.
    + apply qleb_spec in E. apply IH; auto; try lia. intros k Hk.
      destruct (Nat.eq_dec k j) as [->|Hne]; [qlra | apply Hle; lia].
    + apply qleb_false in E. apply IH; auto; try lia.
      * intros k Hk. destruct (Nat.eq_dec k j) as [->|Hne]; [apply Qcle_refl|].
        assert (H := Hle k ltac:(lia)). qlra.
      * intros k Hk. assert (H := Hle k Hk). qlra.
Qed.

Lemma is_first_max_unique x r r' : is_first_max x r -> is_first_max x r' -> r = r'.
Proof.
  intros [H1 [H2 H3]] [H1' [H2' H3']].
  destruct (Nat.lt_trichotomy r r') as [H|[H|H]]; auto; exfalso.
  - assert (A := H3' r H). assert (B := H2 r' H1'). qlra.
  - assert (A := H3 r' H). assert (B := H2' r H1). qlra.
Qed.

Theorem eval_argmax n x : (2 <= n)%nat -> length x = n ->
  exists r, eval (argmax n) x = Some [qnat r] /\ is_first_max x r.
Proof.
  intros Hn Hx. exists (scan x (n - 1) 1 0). split.
  - apply eval_argmax_node; auto; lia.
  - apply scan_spec; try lia.
    intros k Hk. assert (k = 0)%nat by lia. subst. apply Qcle_refl.
Qed.

(* the executable textbook definition: position of the first component equal to the maximum *)
Lemma qmax_ge_l a b : a <= qmax a b.
Proof. unfold qmax. destruct (qleb a b) eqn:E; [apply qleb_spec in E; auto | apply Qcle_refl]. Qed.
Lemma qmax_ge_r a b : b <= qmax a b.
Proof. unfold qmax. destruct (qleb a b) eqn:E; [apply Qcle_refl | apply qleb_false in E; qlra]. Qed.
Lemma qmax_cases a b : qmax a b = a \/ qmax a b = b.
Proof. unfold qmax. destruct (qleb a b); auto. Qed.
Lemma fold_qmax_ge d l : d <= fold_right qmax d l /\ forall a, In a l -> a <= fold_right qmax d l.
Proof.
  induction l as [|b l [IH1 IH2]]; cbn [fold_right].
  - split; [apply Qcle_refl | intros a []].
  - split.
    + pose proof (qmax_ge_r b (fold_right qmax d l)). qlra.
    + intros a [->|Ha]; [apply qmax_ge_l|]. pose proof (qmax_ge_r b (fold_right qmax d l)). pose proof (IH2 a Ha). qlra.
Qed.
Lemma fold_qmax_in d l : fold_right qmax d l = d \/ In (fold_right qmax d l) l.
Proof.
  induction l as [|b l IH]; cbn [fold_right]; auto.
  destruct (qmax_cases b (fold_right qmax d l)) as [->| ->]; [right; left; auto|].
  destruct IH as [->|IH]; auto. right; right; auto.
Qed.
Lemma vmax_in x : x <> [] -> In (vmax x) x.
Proof.
  intros Hx. unfold vmax. destruct (fold_qmax_in (hd 0 x) x) as [->|H]; auto.
  destruct x; [congruence | left; reflexivity].
Qed.
Lemma vmax_ge x a : In a x -> a <= vmax x.
Proof. apply fold_qmax_ge. Qed.
Lemma first_idx_spec m x : In m x ->
  (first_idx m x < length x)%nat /\ nth (first_idx m x) x 0 = m /\
  forall k, (k < first_idx m x)%nat -> nth k x 0 <> m.
Proof.
  induction x as [|a x IH]; intros Hin; [destruct Hin|]. cbn [first_idx].
  destruct (qeqb a m) eqn:E.
  - apply qeqb_spec in E. cbn [length nth]. repeat split; auto; try lia.
  - apply qeqb_false in E. destruct Hin as [->|Hin]; [congruence|].
    destruct (IH Hin) as [H1 [H2 H3]]. cbn [length nth]. repeat split; auto; try lia.
    intros [|k] Hk; cbn [nth]; auto. apply H3. lia.
Qed.
Theorem argmax_def_spec x : x <> [] -> is_first_max x (argmax_def x).
Proof.
  intros Hx. unfold argmax_def. destruct (first_idx_spec _ _ (vmax_in x Hx)) as [H1 [H2 H3]].
  unfold is_first_max. rewrite H2. repeat split; auto.
  - intros k Hk. apply vmax_ge. apply nth_In. auto.
  - intros k Hk. assert (A : nth k x 0 <= vmax x) by (apply vmax_ge; apply nth_In; lia).
    pose proof (H3 k Hk) as B. destruct (Qcle_lt_or_eq _ _ A) as [C|C]; auto. contradiction.
Qed.
Theorem eval_argmax_def n x : (2 <= n)%nat -> length x = n ->
  eval (argmax n) x = Some [qnat (argmax_def x)].
Proof.
  intros Hn Hx. destruct (eval_argmax n x Hn Hx) as [r [He Hr]]. rewrite He. do 3 f_equal.
  apply (is_first_max_unique x); auto. apply argmax_def_spec. intros ->. cbn [length] in Hx. lia.
Qed.

(* ---------------------------------------------------------------- conjunction chains *)
Definition row_holds (x : vec) (rb : vec * Qc) : bool := qleb (dot (fst rb) x) (snd rb).
Lemma eval_chain n rows no yes x :
  eval (chain n rows no yes) x = if forallb (row_holds x) rows then eval yes x else eval no x.
Proof.
  induction rows as [|rb rows IH]; cbn [chain forallb]; auto.
  rewrite eval_D2. unfold row_holds at 1. destruct (qleb (dot (fst rb) x) (snd rb)); cbn [andb]; auto.
Qed.

Lemma forallb_map {A B} (f : B -> bool) (g : A -> B) l : forallb f (map g l) = forallb (fun a => f (g a)) l.
Proof. induction l as [|a l IH]; cbn [map forallb]; auto. rewrite IH. reflexivity. Qed.
Lemma forallb_ext_in {A} (f g : A -> bool) l : (forall a, In a l -> f a = g a) -> forallb f l = forallb g l.
Proof.
  induction l as [|a l IH]; intros H; cbn [forallb]; auto. rewrite (H a) by (left; auto).
  rewrite IH; auto. intros b Hb. apply H. right; auto.
Qed.
Lemma forallb_andb {A} (f g : A -> bool) l : forallb (fun a => f a && g a) l = forallb f l && forallb g l.
Proof.
  induction l as [|a l IH]; cbn [forallb]; auto. rewrite IH.
  destruct (f a), (g a), (forallb f l), (forallb g l); reflexivity.
Qed.
Lemma forallb_rows_seq n x (R : nat -> vec * Qc) (h : Qc -> bool) : length x = n ->
  (forall k, (k < n)%nat -> row_holds x (R k) = h (nth k x 0)) ->
  forallb (row_holds x) (map R (seq 0 n)) = forallb h x.
Proof.
  intros Hx H. rewrite forallb_map.
  replace (forallb h x) with (forallb h (map (fun j => nth j x 0) (seq 0 (length x)))) by (rewrite map_nth_seq; reflexivity).
  rewrite forallb_map. rewrite Hx.
  apply forallb_ext_in. intros k Hk. apply in_seq in Hk. apply H. lia.
Qed.

(* class_characterization *)
Theorem eval_class_characterization n c x : length x = n -> (c < n)%nat ->
  eval (class_characterization n c) x = Some [class_def c x].
Proof.
  intros Hx Hc. unfold class_characterization. rewrite eval_chain. cbn [eval]. rewrite !apply_constant.
  unfold class_def.
  assert (E : forallb (row_holds x) (class_rows n c) = forallb (fun a => qleb a (nth c x 0)) x).
  { apply eq_iff_eq_true. rewrite !forallb_forall. unfold class_rows. split.
    - intros H a Ha. destruct (In_nth _ _ 0 Ha) as [k [Hk <-]].
      destruct (Nat.eq_dec k c) as [->|Hne]; [apply qleb_spec; apply Qcle_refl|].
      assert (Hin : In (sc_subrow n k c, 0) (map (fun k => (sc_subrow n k c, 0)) (filter (fun k => negb (Nat.eqb k c)) (seq 0 n)))).
      { apply in_map_iff. exists k. split; auto. apply filter_In. split; [apply in_seq; lia|].
        apply negb_true_iff. apply Nat.eqb_neq. auto. }
      apply H in Hin. unfold row_holds in Hin. cbn [fst snd] in Hin. rewrite dot_subrow in Hin by lia.
      apply qleb_spec in Hin. apply qleb_spec. qlra.
    - intros H rb Hrb. apply in_map_iff in Hrb as [k [<- Hk]]. apply filter_In in Hk as [Hk1 Hk2].
      apply in_seq in Hk1. apply negb_true_iff in Hk2. apply Nat.eqb_neq in Hk2.
      unfold row_holds. cbn [fst snd]. rewrite dot_subrow by lia.
      assert (A : qleb (nth k x 0) (nth c x 0) = true) by (apply H; apply nth_In; lia).
      apply qleb_spec in A. apply qleb_spec. qlra. }
  rewrite E. destruct (forallb _ x); reflexivity.
Qed.

Lemma class_def_one c x : (forall k, (k < length x)%nat -> nth k x 0 <= nth c x 0) -> class_def c x = 1.
Proof.
  intros H. unfold class_def. replace (forallb _ x) with true; auto. symmetry. apply forallb_forall.
  intros a Ha. destruct (In_nth _ _ 0 Ha) as [k [Hk <-]]. apply qleb_spec. auto.
Qed.
Lemma class_def_zero c x : (exists k, (k < length x)%nat /\ nth c x 0 < nth k x 0) -> class_def c x = 0.
Proof.
  intros [k [Hk Hlt]]. unfold class_def. destruct (forallb _ x) eqn:E; auto.
  rewrite forallb_forall in E. assert (A := E (nth k x 0) (nth_In _ _ Hk)). apply qleb_spec in A. exfalso. qlra.
Qed.

(* inf_norm *)
Lemma in_bounds_spec lo hi a : in_bounds lo hi a = true <->
  (forall l, lo = Some l -> l <= a) /\ (forall h, hi = Some h -> a <= h).
Proof.
  unfold in_bounds. rewrite andb_true_iff. destruct lo as [l|], hi as [h|]; rewrite ?qleb_spec; split.
  all: try (intros [H1 H2]; split; intros ? E; inversion E; subst; auto).
  all: try (intros [H1 H2]; split; auto).
  all: try discriminate.
Qed.

Theorem eval_inf_norm n lo hi x : length x = n ->
  eval (inf_norm n lo hi) x = Some [inf_norm_def lo hi x].
Proof.
  intros Hx. unfold inf_norm. rewrite eval_chain. cbn [eval]. rewrite !apply_constant. unfold inf_norm_def.
  assert (E : forallb (row_holds x) (inf_norm_rows n lo hi) = forallb (in_bounds lo hi) x).
  { unfold inf_norm_rows, in_bounds. rewrite forallb_app, forallb_andb. f_equal.
    - destruct lo as [l|]; cbn [forallb].
      + unfold min_rows. apply forallb_rows_seq; auto. intros k Hk. unfold row_holds. cbn [fst snd].
        rewrite dot_vopp, dot_unitv by auto. apply qleb_opp.
      + symmetry. apply forallb_forall. auto.
    - destruct hi as [h|]; cbn [forallb].
      + unfold max_rows. apply forallb_rows_seq; auto. intros k Hk. unfold row_holds. cbn [fst snd].
        rewrite dot_unitv by auto. reflexivity.
      + symmetry. apply forallb_forall. auto. }
  rewrite E. destruct (forallb _ x); reflexivity.
Qed.
Lemma inf_norm_def_one lo hi x : (forall k, (k < length x)%nat -> in_bounds lo hi (nth k x 0) = true) ->
  inf_norm_def lo hi x = 1.
Proof.
  intros H. unfold inf_norm_def. replace (forallb _ x) with true; auto. symmetry. apply forallb_forall.
  intros a Ha. destruct (In_nth _ _ 0 Ha) as [k [Hk <-]]. auto.
Qed.
Lemma inf_norm_def_zero lo hi x : (exists k, (k < length x)%nat /\ in_bounds lo hi (nth k x 0) = false) ->
  inf_norm_def lo hi x = 0.
Proof.
  intros [k [Hk Hf]]. unfold inf_norm_def. destruct (forallb _ x) eqn:E; auto.
  rewrite forallb_forall in E. rewrite (E (nth k x 0) (nth_In _ _ Hk)) in Hf. discriminate.
Qed.

(* ---------------------------------------------------------------- from_poly *)
Lemma in_polyb_spec P x : in_polyb P x = true <-> in_poly P x.
Proof.
  unfold in_polyb, in_poly. rewrite forallb_forall, Forall_forall.
  split; intros H rb Hrb; apply qleb_spec; apply H; auto.
Qed.
Theorem eval_from_poly P f g x : eval (from_poly P f g) x = from_poly_def P f g x.
Proof.
  unfold from_poly, from_poly_def, in_polyb. rewrite eval_chain. unfold row_holds.
  destruct (forallb _ (poly_rows P)); auto. destruct g; reflexivity.
Qed.
Theorem eval_from_poly_in P f g x : in_poly P x -> eval (from_poly P f g) x = Some (apply f x).
Proof. intros H. rewrite eval_from_poly. unfold from_poly_def. apply in_polyb_spec in H. rewrite H. reflexivity. Qed.
Theorem eval_from_poly_out P f g x : ~ in_poly P x ->
  eval (from_poly P f g) x = option_map (fun g' => apply g' x) g.
Proof.
  intros H. rewrite eval_from_poly. unfold from_poly_def. destruct (in_polyb P x) eqn:E; auto.
  apply in_polyb_spec in E. contradiction.
Qed.

(* ---------------------------------------------------------------- remove_axes and slicing *)
Lemma dot_keepcols mask r y : dot (keepcols mask r) y = dot r (expand mask y).
Proof.
  revert r y; induction mask as [|m mask IH]; intros r y; cbn [keepcols expand].
  - rewrite dot_nil_r. reflexivity.
  - destruct r as [|a r]; [destruct m; reflexivity|]. destruct m.
    + destruct y as [|b y]; cbn [dot]; auto. rewrite IH. reflexivity.
    + cbn [dot]. rewrite IH. ring.
Qed.
Lemma apply_ra_aff mask f y : apply (ra_aff mask f) y = apply f (expand mask y).
Proof.
  unfold apply, ra_aff, matvec. cbn [a_mat a_bias]. rewrite map_map. f_equal.
  apply map_ext. intros r. apply dot_keepcols.
Qed.
Lemma decide_ra_aff mask p y : decide (ra_aff mask p) y = decide p (expand mask y).
Proof.
  unfold decide, ra_aff. cbn [a_mat a_bias]. f_equal. generalize (a_bias p). induction (a_mat p) as [|r A IH]; intros [|b0 b];
    cbn [map bits]; auto. rewrite dot_keepcols, IH. reflexivity.
Qed.
(* dropping axes = evaluating with those coordinates set to 0 *)
Theorem eval_ra_tree mask t y : eval (ra_tree mask t) y = eval t (expand mask y).
Proof.
  induction t as [| f | p ch IH] using ptree_ind'; cbn [ra_tree eval]; auto.
  - rewrite apply_ra_aff. reflexivity.
  - rewrite decide_ra_aff, map_map. generalize (decide p (expand mask y)). intros k. revert k.
    induction ch as [|c ch IHch]; intros [|k]; cbn [map nth]; auto.
    + apply Forall_cons_iff in IH as [H _]; auto.
    + apply Forall_cons_iff in IH as [_ H]; auto.
Qed.
Theorem eval_remove_axes n mask t t' y : remove_axes n mask t = SOk t' -> eval t' y = eval t (expand mask y).
Proof.
  unfold remove_axes. destruct (negb _); try discriminate.
  intros H; inversion H; subst. apply eval_ra_tree.
Qed.
Theorem remove_axes_total n mask t : length mask = n -> remove_axes n mask t = SOk (ra_tree mask t).
Proof. intros <-. unfold remove_axes. rewrite Nat.eqb_refl. reflexivity. Qed.
(* the code as found panicked on the slice that fixes every axis, where the restriction is the constant t(r) *)
Theorem remove_axes_found_refuted :
  exists n mask t, length mask = n /\ wf n t /\ remove_axes_found n mask t = SPanic.
Proof.
  exists 1%nat, [false], (compose (from_slice [Some 1]) (partial_relu 1 0)). repeat split.
  apply wfb_spec. vm_compute. reflexivity.
Qed.
Theorem remove_axes_found_elsewhere n mask t : existsb (fun b => b) mask = true ->
  remove_axes_found n mask t = remove_axes n mask t.
Proof. intros H. unfold remove_axes_found, remove_axes. rewrite H. reflexivity. Qed.

Lemma wf_sc_slice r : wf_aff (sc_slice r) /\ a_in (sc_slice r) = length r /\ outdim (sc_slice r) = length r.
Proof.
  unfold wf_aff, outdim, sc_slice. cbn [a_in a_mat a_bias]. rewrite !map_length, seq_length. repeat split; auto.
  apply Forall_forall. intros v Hv. apply in_map_iff in Hv as [j [<- _]].
  destruct (nth j r (Some 0)); [apply length_vzero | apply length_unitv].
Qed.

Definition slice_pt (r : list (option Qc)) (z : vec) : vec :=
  map (fun j => match nth j r (Some 0) with None => nth j z 0 | Some v => v end) (seq 0 (length r)).
Lemma apply_sc_slice r z : apply (sc_slice r) z = slice_pt r z.
Proof.
  unfold sc_slice, slice_pt. rewrite apply_seq. apply map_ext_in. intros j Hj. apply in_seq in Hj.
  destruct (nth j r (Some 0)).
  - rewrite dot_vzero. ring.
  - rewrite dot_unitv by lia. ring.
Qed.
Lemma slice_pt_embed r : forall y, length y = count_true (map sc_isfree r) ->
  slice_pt r (expand (map sc_isfree r) y) = embed r y.
Proof.
  unfold slice_pt, count_true. induction r as [|o r IH]; intros y Hy; auto.
  cbn [length seq map]. rewrite map_seq_S. destruct o as [v|]; cbn [sc_isfree map expand embed nth filter length] in *.
  - f_equal. apply IH. auto.
  - destruct y as [|a y]; cbn [length] in Hy; try discriminate. cbn [nth]. f_equal. apply IH. lia.
Qed.

(* from_slice, composition, remove_axes = restriction to the axis-aligned slice through the reference point *)
Theorem eval_slice_tree r t y : wf (length r) t -> length y = count_true (map sc_isfree r) ->
  eval (slice_tree r t) y = eval t (embed r y).
Proof.
  intros Hw Hy. unfold slice_tree, from_slice. rewrite eval_ra_tree.
  destruct (wf_sc_slice r) as [H1 [H2 H3]].
  rewrite (compose_eval (length r) (length r)); auto; try (constructor; auto).
  cbn [eval obind]. rewrite apply_sc_slice, slice_pt_embed by auto. reflexivity.
Qed.
Lemma length_embed r : forall y, length (embed r y) = length r.
Proof. induction r as [|[v|] r IH]; intros y; cbn [embed length]; auto. destruct y; cbn [length]; auto. Qed.
Lemma nth_embed_fixed r : forall y k v, nth k r None = Some v -> nth k (embed r y) 0 = v.
Proof.
  induction r as [|o r IH]; intros y k v H; [destruct k; discriminate|].
  destruct k as [|k]; cbn [nth] in H.
  - subst o. reflexivity.
  - destruct o as [w|]; cbn [embed]; [|destruct y]; cbn [nth]; eauto.
Qed.

(* ---------------------------------------------------------------- outcomes of from_poly *)
Theorem from_poly_res_total P f g : a_in P = a_in f -> a_mat P <> [] ->
  (forall g', g = Some g' -> a_in g' = a_in P) -> from_poly_res P f g = SOk (from_poly P f g).
Proof.
  intros H1 H2 H3. unfold from_poly_res. rewrite H1, Nat.eqb_refl. cbn [negb].
  destruct (a_mat P) as [|r A]; [congruence|]. cbn [length Nat.eqb].
  destruct g as [g'|]; auto. rewrite <- H1, (H3 g' eq_refl), Nat.eqb_refl. reflexivity.
Qed.
Theorem from_poly_res_inv P f g t : from_poly_res P f g = SOk t -> t = from_poly P f g.
Proof.
  unfold from_poly_res. destruct (negb _); try discriminate. destruct (Nat.eqb _ 0); try discriminate.
  destruct (match g with Some g' => _ | None => false end); try discriminate. intros H; inversion H; reflexivity.
Qed.

(* the pipeline as a user writes it: from_slice(r), compose(t), remove_axes(free axes of r) *)
Theorem eval_slice_pipeline r t t' y : wf (length r) t -> length y = count_true (map sc_isfree r) ->
  remove_axes (length r) (map sc_isfree r) (compose (from_slice r) t) = SOk t' ->
  eval t' y = eval t (embed r y).
Proof.
  intros Hw Hy H. rewrite remove_axes_total in H by (rewrite map_length; reflexivity).
  inversion H; subst. apply eval_slice_tree; auto.
Qed.

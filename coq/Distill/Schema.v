(* Distill/Schema.v -- the predefined trees of src/distill/schema.rs and AffTree::{from_poly, from_slice, remove_axes},
   built exactly as the code builds them (same predicates, same child order: list index = label, label 1 = predicate
   `a.x <= b` holds), and, independently, the executable textbook definitions they are supposed to denote. *)
From AT Require Import Num Vec Aff PTree.

(* ---------------------------------------------------------------- constants *)
Definition qnat (k : nat) : Qc := qz (Z.of_nat k).
Definition half : Qc := qfrac 1 2.
Definition sixth : Qc := qfrac 1 6.
Definition three : Qc := qz 3.
(* the f64 value of the Rust literal 1./6. = 6004799503160661 * 2^-55 *)
Definition sc_sixth_f64 : Qc := qc_of_float 6004799503160661 (-55).

(* ---------------------------------------------------------------- affine constructors (linalg/affine.rs) *)
Definition sc_rowf (n : nat) (r : vec) (b : Qc) : aff := {| a_in := n; a_mat := [r]; a_bias := [b] |}.
Definition sc_unit (n i : nat) : aff := sc_rowf n (unitv n i) 0.
Definition sc_identity (n : nat) : aff := {| a_in := n; a_mat := eye n; a_bias := vzero n |}.
(* identity with row i replaced by the row r and bias b *)
Definition sc_patch (n i : nat) (r : vec) (b : Qc) : aff :=
  {| a_in := n;
     a_mat := map (fun j => if Nat.eqb j i then r else unitv n j) (seq 0 n);
     a_bias := map (fun j => if Nat.eqb j i then b else 0) (seq 0 n) |}.
Definition sc_zero_idx (n i : nat) : aff := sc_patch n i (vzero n) 0.
Definition sc_constant (n : nat) (v : Qc) : aff := sc_rowf n (vzero n) v.
(* matrix[[0,left]] = 1; matrix[[0,right]] -= 1  (the zero row when left = right, since /repo 75c1cad) *)
Definition sc_subrow (n l r : nat) : vec :=
  map (fun j => (if Nat.eqb j l then 1 else 0) - (if Nat.eqb j r then 1 else 0)) (seq 0 n).
Definition sc_subtraction (n l r : nat) : aff := sc_rowf n (sc_subrow n l r) 0.
(* AffFunc::slice: None = NaN marker = free axis *)
Definition sc_isfree (o : option Qc) : bool := match o with None => true | Some _ => false end.
Definition sc_slice (r : list (option Qc)) : aff :=
  {| a_in := length r;
     a_mat := map (fun j => match nth j r (Some 0) with None => unitv (length r) j | Some _ => vzero (length r) end) (seq 0 (length r));
     a_bias := map (fun j => match nth j r (Some 0) with None => 0 | Some v => v end) (seq 0 (length r)) |}.

(* ---------------------------------------------------------------- activation functions on one component *)
(* every activation generator asserts row < dim; hard tanh additionally min_val <= max_val *)
Definition act_defined (n i : nat) : bool := Nat.ltb i n.
Definition hard_tanh_defined (n i : nat) (lo hi : Qc) : bool := Nat.ltb i n && qleb lo hi.
Definition partial_relu (n i : nat) : ptree :=
  D (sc_unit n i) [T (sc_identity n); T (sc_zero_idx n i)].
Definition partial_leaky_relu (n i : nat) (alpha : Qc) : ptree :=
  D (sc_unit n i) [T (sc_identity n); T (sc_patch n i (vscale alpha (unitv n i)) 0)].
Definition partial_hard_tanh (n i : nat) (lo hi : Qc) : ptree :=
  D (sc_rowf n (vopp (unitv n i)) (- hi))
    [D (sc_rowf n (unitv n i) lo) [T (sc_identity n); T (sc_patch n i (vzero n) lo)];
     T (sc_patch n i (vzero n) hi)].
(* the tree as coded before the repair of D9: closed tests  x >= lambda  and  x <= -lambda  keep x *)
Definition partial_hard_shrink_closed (n i : nat) (lam : Qc) : ptree :=
  D (sc_rowf n (vopp (unitv n i)) (- lam))
    [D (sc_rowf n (unitv n i) (- lam)) [T (sc_zero_idx n i); T (sc_identity n)];
     T (sc_identity n)].
(* the repaired tree: x <= lambda ? (-x <= lambda ? 0 : x) : x *)
Definition partial_hard_shrink (n i : nat) (lam : Qc) : ptree :=
  D (sc_rowf n (unitv n i) lam)
    [T (sc_identity n);
     D (sc_rowf n (vopp (unitv n i)) lam) [T (sc_identity n); T (sc_zero_idx n i)]].
Definition partial_hard_sigmoid (n i : nat) (s : Qc) : ptree :=
  D (sc_rowf n (vopp (unitv n i)) (- three))
    [D (sc_rowf n (unitv n i) (- three))
       [T (sc_patch n i (vscale s (unitv n i)) half); T (sc_patch n i (vzero n) 0)];
     T (sc_patch n i (vzero n) 1)].
Definition partial_threshold (n i : nat) (theta v : Qc) : ptree :=
  D (sc_rowf n (unitv n i) theta) [T (sc_identity n); T (sc_patch n i (vzero n) v)].

(* ---------------------------------------------------------------- argmax: the stack loop as the recursion it unfolds to.
   node (j, c) compares x_j with the current maximum x_c:  x_j - x_c <= 0 ?  label 1: keep c,  label 0: new maximum j *)
Fixpoint argmax_node (n fuel j c : nat) : ptree :=
  match fuel with
  | O => T (sc_constant n (qnat c))
  | S f => D (sc_subtraction n j c) [argmax_node n f (S j) j; argmax_node n f (S j) c]
  end.
Definition argmax (n : nat) : ptree := argmax_node n (n - 1) 1 0.
(* subtraction(dim, 1, 0) indexes out of bounds for dim < 2 *)
Definition argmax_defined (n : nat) : bool := Nat.leb 2 n.

(* ---------------------------------------------------------------- conjunction chains *)
Fixpoint chain (n : nat) (rows : list (vec * Qc)) (no yes : ptree) : ptree :=
  match rows with
  | [] => yes
  | rb :: rows' => D (sc_rowf n (fst rb) (snd rb)) [no; chain n rows' no yes]
  end.

Definition class_rows (n c : nat) : list (vec * Qc) :=
  map (fun k => (sc_subrow n k c, 0)) (filter (fun k => negb (Nat.eqb k c)) (seq 0 n)).
Definition class_characterization (n c : nat) : ptree :=
  chain n (class_rows n c) (T (sc_constant n 0)) (T (sc_constant n 1)).
Definition class_defined (n c : nat) : bool := Nat.ltb c n && Nat.leb 2 n.

Definition min_rows (n : nat) (lo : Qc) : list (vec * Qc) := map (fun k => (vopp (unitv n k), - lo)) (seq 0 n).
Definition max_rows (n : nat) (hi : Qc) : list (vec * Qc) := map (fun k => (unitv n k, hi)) (seq 0 n).
Definition inf_norm_rows (n : nat) (lo hi : option Qc) : list (vec * Qc) :=
  (match lo with Some l => min_rows n l | None => [] end) ++ (match hi with Some h => max_rows n h | None => [] end).
Definition inf_norm (n : nat) (lo hi : option Qc) : ptree :=
  chain n (inf_norm_rows n lo hi) (T (sc_constant n 0)) (T (sc_constant n 1)).
(* (None, None) panics explicitly; dim = 0 panics on the first row *)
Definition inf_norm_defined (n : nat) (lo hi : option Qc) : bool :=
  Nat.leb 1 n && match lo, hi with None, None => false | _, _ => true end.

(* ---------------------------------------------------------------- from_poly *)
Definition poly_rows (P : aff) : list (vec * Qc) := combine (a_mat P) (a_bias P).
Definition from_poly (P f : aff) (g : option aff) : ptree :=
  chain (a_in f) (poly_rows P) (match g with Some g' => T g' | None => U end) (T f).
Inductive sres := SOk (t : ptree) | SErr | SPanic.
Definition from_poly_res (P f : aff) (g : option aff) : sres :=
  if negb (Nat.eqb (a_in P) (a_in f)) then SErr
  else if Nat.eqb (length (a_mat P)) 0 then SPanic
  else if match g with Some g' => negb (Nat.eqb (a_in P) (a_in g')) | None => false end then SErr
  else SOk (from_poly P f g).

(* ---------------------------------------------------------------- from_slice / remove_axes *)
Definition from_slice (r : list (option Qc)) : ptree := T (sc_slice r).
Fixpoint keepcols {A} (mask : list bool) (r : list A) : list A :=
  match mask, r with
  | m :: mask', a :: r' => if m then a :: keepcols mask' r' else keepcols mask' r'
  | _, _ => []
  end.
Definition count_true (mask : list bool) : nat := length (filter (fun b => b) mask).
Definition ra_aff (mask : list bool) (f : aff) : aff :=
  {| a_in := count_true mask; a_mat := map (keepcols mask) (a_mat f); a_bias := a_bias f |}.
Fixpoint ra_tree (mask : list bool) (t : ptree) : ptree :=
  match t with
  | U => U
  | T f => T (ra_aff mask f)
  | D p ch => D (ra_aff mask p) (map (ra_tree mask) ch)
  end.
(* n = in_dim of the tree; a wrong mask length is an Err and leaves the tree unchanged.  An all-false mask (the slice
   that fixes every axis) yields the tree over R^0 (since the repair of /repo: Array::select instead of concatenate) *)
Definition remove_axes (n : nat) (mask : list bool) (t : ptree) : sres :=
  if negb (Nat.eqb n (length mask)) then SErr else SOk (ra_tree mask t).
(* the code as found: `concatenate(Axis(1), &[])` is an error in ndarray and the `unwrap` panics *)
Definition remove_axes_found (n : nat) (mask : list bool) (t : ptree) : sres :=
  if negb (Nat.eqb n (length mask)) then SErr
  else if existsb (fun b => b) mask then SOk (ra_tree mask t)
  else SPanic.
(* the slice of t at the reference point r, as a tree over the free axes *)
Definition slice_tree (r : list (option Qc)) (t : ptree) : ptree :=
  ra_tree (map sc_isfree r) (compose (from_slice r) t).
(* the point of R^n that the free coordinates y denote *)
Fixpoint embed (r : list (option Qc)) (y : vec) : vec :=
  match r with
  | [] => []
  | Some v :: r' => v :: embed r' y
  | None :: r' => match y with a :: y' => a :: embed r' y' | [] => 0 :: embed r' [] end
  end.
(* the free coordinates, zero elsewhere *)
Fixpoint expand (mask : list bool) (y : vec) : vec :=
  match mask with
  | [] => []
  | true :: m => match y with a :: y' => a :: expand m y' | [] => [] end
  | false :: m => 0 :: expand m y
  end.

(* ================================================================ textbook definitions (executable, independent of the trees) *)
Fixpoint vset (x : vec) (i : nat) (v : Qc) : vec :=
  match x, i with
  | [], _ => []
  | _ :: x', O => v :: x'
  | a :: x', S i' => a :: vset x' i' v
  end.
Definition on_row (h : Qc -> Qc) (i : nat) (x : vec) : vec := vset x i (h (nth i x 0)).

Definition relu_def : nat -> vec -> vec := on_row (fun v => qmax 0 v).
Definition leaky_relu_def (alpha : Qc) := on_row (fun v => if qltb 0 v then v else alpha * v).
Definition hard_tanh_def (lo hi : Qc) := on_row (fun v => qmax lo (qmin hi v)).
Definition hard_shrink_def (lam : Qc) := on_row (fun v => if qltb lam (qabs v) then v else 0).
Definition hard_sigmoid_def (s : Qc) := on_row (fun v => if qleb three v then 1 else if qleb v (- three) then 0 else s * v + half).
Definition hard_sigmoid_textbook := on_row (fun v => qmax 0 (qmin 1 (sixth * v + half))).
Definition threshold_def (theta value : Qc) := on_row (fun v => if qltb theta v then v else value).

(* first index of a maximal component *)
Definition vmax (x : vec) : Qc := fold_right qmax (hd 0 x) x.
Fixpoint first_idx (m : Qc) (x : vec) : nat :=
  match x with [] => O | a :: x' => if qeqb a m then O else S (first_idx m x') end.
Definition argmax_def (x : vec) : nat := first_idx (vmax x) x.
Definition is_first_max (x : vec) (r : nat) : Prop :=
  (r < length x)%nat /\ (forall k, (k < length x)%nat -> nth k x 0 <= nth r x 0) /\
  (forall k, (k < r)%nat -> nth k x 0 < nth r x 0).

Definition class_def (c : nat) (x : vec) : Qc := if forallb (fun a => qleb a (nth c x 0)) x then 1 else 0.
Definition in_bounds (lo hi : option Qc) (a : Qc) : bool :=
  (match lo with Some l => qleb l a | None => true end) && (match hi with Some h => qleb a h | None => true end).
Definition inf_norm_def (lo hi : option Qc) (x : vec) : Qc := if forallb (in_bounds lo hi) x then 1 else 0.

Definition in_polyb (P : aff) (x : vec) : bool := forallb (fun rb => qleb (dot (fst rb) x) (snd rb)) (poly_rows P).
Definition in_poly (P : aff) (x : vec) : Prop := Forall (fun rb => dot (fst rb) x <= snd rb) (poly_rows P).
Definition from_poly_def (P f : aff) (g : option aff) (x : vec) : option vec :=
  if in_polyb P x then Some (apply f x) else option_map (fun g' => apply g' x) g.

(* Distill/NetExample.v -- the certified solver as an LP oracle (sound for every input of the right length), and a
   concrete network + precondition on which the faithfulness theorem's hypotheses hold (non-vacuity of C01). *)
From AT Require Import Num Vec Aff AffOps Farkas FM Equiv PTree Cells Abs Cache Elim ElimEval CPrune.
From AT Require Import WfC Schema SchemaSpec Arch ArchProofs Net NetProofs.

(* an oracle that never lies: Infeasible only with a checked Farkas certificate *)
Definition solver_oracle (n : nat) : oracle :=
  {| o_lp := fun _ q => match solve n (constrs_of q) with
                        | Unsat _ => LInf
                        | Sat w => LOpt w
                        | Unknown => LErr
                        end;
     o_mir := fun _ _ _ => None |}.
Lemma solver_oracle_sound n x : length x = n -> osound (solver_oracle n) x.
Proof.
  intros Hx k q H. cbn [solver_oracle o_lp] in H. destruct (solve n (constrs_of q)) as [w|l|] eqn:E; try discriminate.
  intros Hin. apply (solve_unsat n (constrs_of q) l E x Hx). apply all_hold_constrs_of. exact Hin.
Qed.

(* network R^1 -> R^1:  x |-> relu(2x - 1),  precondition  -3 <= x <= 3  (undefined outside) *)
Definition nx_lin : aff := {| a_in := 1; a_mat := [[1 + 1]]; a_bias := [- (1)] |}.
Definition nx_layers : list layer := [LLinear nx_lin; LReLU 0].
Definition nx_row (a b : Qc) : aff := {| a_in := 1; a_mat := [[a]]; a_bias := [b] |}.
Definition nx_pre : ctree :=
  CN 0 false (nx_row 1 (1 + 1 + 1)) Indet CU
     (CN 1 false (nx_row (- (1)) (1 + 1 + 1)) Indet CU
         (CN 2 true (sc_identity 1) Indet CU CU)).
Definition nx_os : nat -> oracle := fun _ => solver_oracle 1.

Lemma nx_pre_wf : cwft 1 1 nx_pre.
Proof. apply cwftb_spec. vm_compute. reflexivity. Qed.
Lemma nx_layers_ok : layers_out_dim 1 nx_layers = Some 1%nat /\ Forall layer_wf nx_layers.
Proof.
  split; [vm_compute; reflexivity|]. constructor; [|constructor; [exact I | constructor]].
  cbn [layer_wf]. apply wf_affb_spec. vm_compute. reflexivity.
Qed.
Lemma nx_marks x : marks_kids x [] nx_pre.
Proof. cbn. repeat split; discriminate. Qed.

Lemma nx_faithful : forall x, length x = 1%nat ->
  exists r, distill_from nx_os 0 0 0 1 nx_pre nx_layers = Some r /\ cwft 1 1 r /\
            cev r x = net_sem 0 nx_pre nx_layers x.
Proof.
  intros x Hx. destruct nx_layers_ok as [H1 H2].
  apply (distill_faithful nx_os 0 0 1 1 1 nx_pre nx_layers x nx_pre_wf); auto.
  - discriminate.
  - apply nx_marks.
  - intros j. apply solver_oracle_sound. exact Hx.
Qed.
(* and what it computes: inside the precondition relu(2x-1), outside undefined *)
Lemma nx_values :
  option_map (fun r => (cev r [1 + 1], cev r [0], cev r [1 + 1 + 1 + 1])) (distill_from nx_os 0 0 0 1 nx_pre nx_layers)
  = Some (Some [1 + 1 + 1], Some [0], None).
Proof. vm_compute. reflexivity. Qed.

(* Distill/ArgmaxLoop.v -- schema::argmax AS CODED: the explicit stack of (parent, max_when_false, max_when_true)
   entries, popped last-in-first-out, two add_child_node calls per pop.  Parents are named by their path from the root
   (the arena index of the code is a name for the same node; slab hands out fresh keys, C12).  A node that has no
   children yet is a leaf holding its function; add_child_node turns it into a decision.  The theorem says that for
   every dim >= 2 the loop terminates without a failing add_child_node and leaves exactly the tree `argmax dim` of
   Schema.v (the recursion the loop unfolds to), about which C17_argmax is proved. *)
From AT Require Import Num Vec Aff PTree Schema.

Inductive btree := BN (f : aff) (c0 c1 : option btree).

Fixpoint to_ptree (b : btree) : ptree :=
  match b with
  | BN f None None => T f
  | BN f c0 c1 => D f [match c0 with Some c => to_ptree c | None => U end;
                       match c1 with Some c => to_ptree c | None => U end]
  end.

Definition bleaf (f : aff) : btree := BN f None None.

(* Tree::add_child_node(parent = node at `path`, label, value): fails (ChildExists / missing parent) with None *)
Fixpoint add_at (b : btree) (path : list bool) (lab : bool) (new : aff) : option btree :=
  match b with
  | BN f c0 c1 =>
      match path with
      | [] => if lab
              then match c1 with None => Some (BN f c0 (Some (bleaf new))) | Some _ => None end
              else match c0 with None => Some (BN f (Some (bleaf new)) c1) | Some _ => None end
      | d :: path' =>
          if d
          then match c1 with Some c => option_map (fun c' => BN f c0 (Some c')) (add_at c path' lab new) | None => None end
          else match c0 with Some c => option_map (fun c' => BN f (Some c') c1) (add_at c path' lab new) | None => None end
      end
  end.

Definition entry := (list bool * nat * nat)%type.
Definition astate := (btree * list entry)%type.

(* one iteration of `while let Some((parent_idx, max_when_false, max_when_true)) = stack.pop()`; head of the list =
   top of the stack; None = an `unwrap` on a failed add_child_node *)
Definition am_step (n : nat) (t : btree) (e : entry) (rest : list entry) : option astate :=
  let '(path, mf, mt) := e in
  if Nat.ltb mf (n - 1)%nat then
    match add_at t path false (sc_subtraction n (mf + 1)%nat mf) with
    | Some t1 =>
        match add_at t1 path true (sc_subtraction n (mf + 1)%nat mt) with
        | Some t2 => Some (t2, (path ++ [true], (mf + 1)%nat, mt) :: (path ++ [false], (mf + 1)%nat, mf) :: rest)
        | None => None
        end
    | None => None
    end
  else
    match add_at t path false (sc_constant n (qnat mf)) with
    | Some t1 =>
        match add_at t1 path true (sc_constant n (qnat mt)) with
        | Some t2 => Some (t2, rest)
        | None => None
        end
    | None => None
    end.

Fixpoint am_run (n fuel : nat) (st : astate) : option btree :=
  match snd st with
  | [] => Some (fst st)
  | e :: rest =>
      match fuel with
      | O => None
      | S fuel' => match am_step n (fst st) e rest with Some st' => am_run n fuel' st' | None => None end
      end
  end.

Definition argmax_loop (n fuel : nat) : option btree :=
  am_run n fuel (bleaf (sc_subtraction n 1 0), [([], 1%nat, 0%nat)]).

(* ---------------------------------------------------------------- one-hole contexts *)
Inductive frame := F0 (f : aff) (c1 : option btree) | F1 (f : aff) (c0 : option btree).
Fixpoint plug (ctx : list frame) (b : btree) : btree :=
  match ctx with
  | [] => b
  | F0 f c1 :: ctx' => BN f (Some (plug ctx' b)) c1
  | F1 f c0 :: ctx' => BN f c0 (Some (plug ctx' b))
  end.
Definition dir (fr : frame) : bool := match fr with F0 _ _ => false | F1 _ _ => true end.
Definition path_of (ctx : list frame) : list bool := map dir ctx.

Lemma plug_app ctx1 ctx2 b : plug (ctx1 ++ ctx2) b = plug ctx1 (plug ctx2 b).
Proof. induction ctx1 as [|[f c|f c] ctx1 IH]; cbn [app plug]; auto; rewrite IH; reflexivity. Qed.
Lemma path_of_app ctx fr : path_of (ctx ++ [fr]) = path_of ctx ++ [dir fr].
Proof. unfold path_of. rewrite map_app. reflexivity. Qed.

Lemma add_at_plug ctx b lab new :
  add_at (plug ctx b) (path_of ctx) lab new = option_map (plug ctx) (add_at b [] lab new).
Proof.
  induction ctx as [|[f c|f c] ctx IH]; cbn [plug path_of map dir add_at].
  - destruct (add_at b [] lab new); reflexivity.
  - fold (path_of ctx). rewrite IH. destruct (add_at b [] lab new); reflexivity.
  - fold (path_of ctx). rewrite IH. destruct (add_at b [] lab new); reflexivity.
Qed.

Lemma to_ptree_full f a b : to_ptree (BN f (Some a) (Some b)) = D f [to_ptree a; to_ptree b].
Proof. reflexivity. Qed.

(* ---------------------------------------------------------------- the loop builds the unfolded recursion *)
Lemma am_run_entry n : forall f j c ctx rest, (j + f = n)%nat -> (1 <= f)%nat ->
  exists k B, to_ptree B = argmax_node n f j c /\
    forall fuel, am_run n (k + fuel) (plug ctx (bleaf (sc_subtraction n j c)), (path_of ctx, j, c) :: rest) =
                 am_run n fuel (plug ctx B, rest).
Proof.
  induction f as [|f IH]; intros j c ctx rest Hj Hf; try lia.
  destruct f as [|f'].
  - (* last level: two constant terminals *)
    exists 1%nat, (BN (sc_subtraction n j c) (Some (bleaf (sc_constant n (qnat j)))) (Some (bleaf (sc_constant n (qnat c))))).
    split; [reflexivity|]. intros fuel. cbn [Nat.add am_run snd fst am_step].
    replace (Nat.ltb j (n - 1)) with false by (symmetry; apply Nat.ltb_ge; lia).
    rewrite add_at_plug. cbn [add_at bleaf option_map]. rewrite add_at_plug. cbn [add_at option_map]. reflexivity.
  - (* inner level: two decisions, the label-1 child is processed first *)
    set (pred := sc_subtraction n j c).
    set (L := bleaf (sc_subtraction n (j + 1) j)). set (R := bleaf (sc_subtraction n (j + 1) c)).
    destruct (IH (j + 1)%nat c (ctx ++ [F1 pred (Some L)]) ((path_of ctx ++ [false], (j + 1)%nat, j) :: rest)
                ltac:(lia) ltac:(lia)) as [k1 [BR [HR E1]]].
    destruct (IH (j + 1)%nat j (ctx ++ [F0 pred (Some BR)]) rest ltac:(lia) ltac:(lia)) as [k2 [BL [HL E2]]].
    exists (1 + (k1 + k2))%nat, (BN pred (Some BL) (Some BR)). split.
    + rewrite to_ptree_full, HL, HR. cbn [argmax_node]. replace (S j) with (j + 1)%nat by lia. reflexivity.
    + intros fuel. cbn [Nat.add am_run snd fst am_step].
      replace (Nat.ltb j (n - 1)) with true by (symmetry; apply Nat.ltb_lt; lia).
      rewrite add_at_plug. cbn [add_at bleaf option_map]. rewrite add_at_plug. cbn [add_at option_map].
      fold pred L R.
      replace (plug ctx (BN pred (Some L) (Some R))) with (plug (ctx ++ [F1 pred (Some L)]) R)
        by (rewrite plug_app; reflexivity).
      replace (path_of ctx ++ [true]) with (path_of (ctx ++ [F1 pred (Some L)])) by (rewrite path_of_app; reflexivity).
      rewrite <- Nat.add_assoc. unfold R. rewrite E1.
      replace (plug (ctx ++ [F1 pred (Some L)]) BR) with (plug (ctx ++ [F0 pred (Some BR)]) L)
        by (rewrite !plug_app; reflexivity).
      replace (path_of ctx ++ [false]) with (path_of (ctx ++ [F0 pred (Some BR)])) by (rewrite path_of_app; reflexivity).
      unfold L. rewrite E2. rewrite plug_app. reflexivity.
Qed.

Theorem argmax_loop_correct n : (2 <= n)%nat ->
  exists fuel B, argmax_loop n fuel = Some B /\ to_ptree B = argmax n.
Proof.
  intros Hn. destruct (am_run_entry n (n - 1) 1 0 [] [] ltac:(lia) ltac:(lia)) as [k [B [HB E]]].
  exists (k + 0)%nat, B. split; auto. unfold argmax_loop. exact (E 0%nat).
Qed.

(* more fuel never hurts, so any sufficiently large bound works (2^dim pops suffice: one per decision node) *)
Lemma am_run_mono n : forall fuel st B, am_run n fuel st = Some B -> am_run n (S fuel) st = Some B.
Proof.
  induction fuel as [|fuel IH]; intros [t stack] B H.
  - destruct stack; cbn [am_run snd fst] in *; auto. discriminate.
  - destruct stack as [|e rest]; [exact H|]. cbn [am_run snd fst] in H. cbn [am_run snd fst].
    destruct (am_step n t e rest) as [st'|]; try discriminate. apply IH. exact H.
Qed.

(* Distill/SchemaSpec.v -- the textbook definitions in TREE FORM, written independently of how schema.rs builds its
   trees (other predicates, other nesting order, other row order), each proved to denote the executable definition of
   Schema.v for every dimension, parameter and input.  The runner compares the implementation's dumped tree with these
   trees for all inputs (certified tree_equiv), so a wrong branch at a breakpoint or tie cannot hide behind the model. *)
From AT Require Import Num Vec Aff PTree Schema SchemaProofs.

(* ---------------------------------------------------------------- scalar piece-wise linear functions, textbook style *)
Inductive hspec :=
| HLin (s b : Qc)                       (* v |-> s*v + b *)
| HLe (theta : Qc) (le gt : hspec)      (* v <= theta ? le : gt *)
| HLt (theta : Qc) (lt ge : hspec).     (* v <  theta ? lt : ge *)
Fixpoint hsem (h : hspec) (v : Qc) : Qc :=
  match h with
  | HLin s b => s * v + b
  | HLe th a b => if qleb v th then hsem a v else hsem b v
  | HLt th a b => if qltb v th then hsem a v else hsem b v
  end.
(* the tree that applies h to component i: `v <= theta` is the predicate e_i.x <= theta (label 1 = holds),
   `v < theta` is the negation of -e_i.x <= -theta *)
Fixpoint htree (n i : nat) (h : hspec) : ptree :=
  match h with
  | HLin s b => T (sc_patch n i (vscale s (unitv n i)) b)
  | HLe th a b => D (sc_rowf n (unitv n i) th) [htree n i b; htree n i a]
  | HLt th a b => D (sc_rowf n (vopp (unitv n i)) (- th)) [htree n i a; htree n i b]
  end.

Theorem eval_htree n i h x : length x = n -> (i < n)%nat ->
  eval (htree n i h) x = Some (on_row (hsem h) i x).
Proof.
  intros Hx Hi. unfold on_row. induction h as [s b | th a IHa b IHb | th a IHa b IHb]; cbn [htree hsem].
  - cbn [eval]. rewrite apply_patch, dot_vscale, dot_unitv by auto. reflexivity.
  - rewrite eval_D2, dot_unitv by auto. destruct (qleb (nth i x 0) th); auto.
  - rewrite eval_D2, dot_vopp, dot_unitv, qleb_opp by auto. unfold qltb.
    destruct (qleb th (nth i x 0)); cbn [negb]; auto.
Qed.

Definition h_id : hspec := HLin 1 0.
Definition h_const (c : Qc) : hspec := HLin 0 c.

Definition relu_h : hspec := HLt 0 (h_const 0) h_id.                                   (* v < 0 ? 0 : v *)
Definition leaky_relu_h (alpha : Qc) : hspec := HLt 0 (HLin alpha 0) h_id.             (* v < 0 ? alpha v : v *)
Definition hard_tanh_h (lo hi : Qc) : hspec := HLt lo (h_const lo) (HLe hi h_id (h_const hi)).
Definition hard_shrink_h (lam : Qc) : hspec := HLt (- lam) h_id (HLe lam (h_const 0) h_id).
Definition hard_sigmoid_h (s : Qc) : hspec := HLe (- three) (h_const 0) (HLt three (HLin s half) (h_const 1)).
Definition threshold_h (theta value : Qc) : hspec := HLe theta (h_const value) h_id.

(* two opposite bounds pin a variable (the tie cases, e.g. v = 0 for the leaky ReLU) *)
Ltac pin_var := match goal with E1 : ?a <= ?v, E2 : ?v <= ?a |- _ => is_var v; assert (v = a) by qlra; subst v end.
Ltac h_cases := cbn [hsem]; unfold h_id, h_const, qmax, qmin, qabs, qltb; cbn [hsem]; act_cases; cbn [negb];
  first [qdone | pin_var; qdone].

Lemma relu_h_sem v : hsem relu_h v = qmax 0 v.
Proof. unfold relu_h. h_cases. Qed.
Lemma leaky_relu_h_sem alpha v : hsem (leaky_relu_h alpha) v = if qltb 0 v then v else alpha * v.
Proof. unfold leaky_relu_h. h_cases. Qed.
Lemma hard_tanh_h_sem lo hi v : lo <= hi -> hsem (hard_tanh_h lo hi) v = qmax lo (qmin hi v).
Proof. intros H. unfold hard_tanh_h. h_cases. Qed.
Lemma hard_shrink_h_sem lam v : hsem (hard_shrink_h lam) v = if qltb lam (qabs v) then v else 0.
Proof. unfold hard_shrink_h. h_cases. Qed.
Lemma hard_sigmoid_h_sem s v :
  hsem (hard_sigmoid_h s) v = if qleb three v then 1 else if qleb v (- three) then 0 else s * v + half.
Proof. unfold hard_sigmoid_h. h_cases. Qed.
Lemma threshold_h_sem theta value v : hsem (threshold_h theta value) v = if qltb theta v then v else value.
Proof. unfold threshold_h. h_cases. Qed.

Lemma on_row_ext h h' i x : (forall v, h v = h' v) -> on_row h i x = on_row h' i x.
Proof. intros H. unfold on_row. rewrite H. reflexivity. Qed.

Theorem spec_relu n i x : length x = n -> (i < n)%nat -> eval (htree n i relu_h) x = Some (relu_def i x).
Proof. intros. rewrite eval_htree by auto. f_equal. apply on_row_ext, relu_h_sem. Qed.
Theorem spec_leaky_relu n i alpha x : length x = n -> (i < n)%nat ->
  eval (htree n i (leaky_relu_h alpha)) x = Some (leaky_relu_def alpha i x).
Proof. intros. rewrite eval_htree by auto. f_equal. apply on_row_ext, leaky_relu_h_sem. Qed.
Theorem spec_hard_tanh n i lo hi x : length x = n -> (i < n)%nat -> lo <= hi ->
  eval (htree n i (hard_tanh_h lo hi)) x = Some (hard_tanh_def lo hi i x).
Proof. intros. rewrite eval_htree by auto. f_equal. apply on_row_ext. intros v. apply hard_tanh_h_sem; auto. Qed.
Theorem spec_hard_shrink n i lam x : length x = n -> (i < n)%nat ->
  eval (htree n i (hard_shrink_h lam)) x = Some (hard_shrink_def lam i x).
Proof. intros. rewrite eval_htree by auto. f_equal. apply on_row_ext, hard_shrink_h_sem. Qed.
Theorem spec_hard_sigmoid n i s x : length x = n -> (i < n)%nat ->
  eval (htree n i (hard_sigmoid_h s)) x = Some (hard_sigmoid_def s i x).
Proof. intros. rewrite eval_htree by auto. f_equal. apply on_row_ext, hard_sigmoid_h_sem. Qed.
Theorem spec_threshold n i theta value x : length x = n -> (i < n)%nat ->
  eval (htree n i (threshold_h theta value)) x = Some (threshold_def theta value i x).
Proof. intros. rewrite eval_htree by auto. f_equal. apply on_row_ext, threshold_h_sem. Qed.

(* ---------------------------------------------------------------- the slope constant of the hard sigmoid.
   1./6. in f64 is m * 2^-55 with 2^52 <= m < 2^53; it is the double nearest to 1/6: the distance is at most half a
   unit in the last place (2^-56), and the error it causes in the hard sigmoid is at most 3 * 2^-56 everywhere *)
Lemma sixth_f64_nearest :
  sc_sixth_f64 = qc_of_float 6004799503160661 (-55) /\
  (4503599627370496 <= 6004799503160661 < 9007199254740992)%Z /\
  qabs (sc_sixth_f64 - sixth) <= qc_of_float 1 (-56).
Proof.
  split; [reflexivity|]. split; [lia|]. apply qleb_spec. vm_compute. reflexivity.
Qed.

Definition hsig (s v : Qc) : Qc := if qleb three v then 1 else if qleb v (- three) then 0 else s * v + half.
Lemma hsig_slope_error s s' v : qabs (hsig s v - hsig s' v) <= three * qabs (s - s').
Proof.
  unfold hsig.
  assert (P : 0 <= three * qabs (s - s')).
  { pose proof (qabs_nonneg (s - s')) as H. revert H. generalize (qabs (s - s')). intros a H. sq. }
  destruct (qleb three v) eqn:E1.
  - replace (1 - 1) with 0 by ring. unfold qabs at 1. cbn. exact P.
  - destruct (qleb v (- three)) eqn:E2.
    + replace (0 - 0) with 0 by ring. unfold qabs at 1. cbn. exact P.
    + apply qleb_false in E1, E2. clear P.
      replace (s * v + half - (s' * v + half)) with ((s - s') * v) by ring.
      generalize (s - s'). intros d. unfold qabs.
      destruct (qleb 0 (d * v)) eqn:E3, (qleb 0 d) eqn:E4;
        [apply qleb_spec in E3 | apply qleb_spec in E3 | apply qleb_false in E3 | apply qleb_false in E3];
        [apply qleb_spec in E4 | apply qleb_false in E4 | apply qleb_spec in E4 | apply qleb_false in E4];
        qc2q; change (this three) with (3#1)%Q in *; nra.
Qed.

(* ---------------------------------------------------------------- argmax / class: "component c is maximal" as a
   conjunction over ALL k (the row for k = c is the zero row 0 <= 0), rows written as e_k - e_c *)
Definition all_le_rows (n c : nat) : list (vec * Qc) := map (fun k => (vsub (unitv n k) (unitv n c), 0)) (seq 0 n).
Definition ismaxb (c : nat) (x : vec) : bool := forallb (fun a => qleb a (nth c x 0)) x.

Lemma qleb_sub0 a b : qleb (a - b) 0 = qleb a b.
Proof.
  destruct (qleb (a - b) 0) eqn:E1, (qleb a b) eqn:E2; auto.
  - apply qleb_spec in E1. apply qleb_false in E2. exfalso. qlra.
  - apply qleb_spec in E2. apply qleb_false in E1. exfalso. qlra.
Qed.

Lemma all_le_rows_holds n c x : length x = n -> (c < n)%nat ->
  forallb (row_holds x) (all_le_rows n c) = ismaxb c x.
Proof.
  intros Hx Hc. unfold all_le_rows, ismaxb. apply forallb_rows_seq; auto.
  intros k Hk. unfold row_holds. cbn [fst snd].
  rewrite dot_vsub by (rewrite !length_unitv; auto). rewrite !dot_unitv by auto. apply qleb_sub0.
Qed.

Lemma ismaxb_spec c x : ismaxb c x = true <-> forall k, (k < length x)%nat -> nth k x 0 <= nth c x 0.
Proof.
  unfold ismaxb. rewrite forallb_forall. split.
  - intros H k Hk. apply qleb_spec. apply H. apply nth_In. auto.
  - intros H a Ha. destruct (In_nth _ _ 0 Ha) as [k [Hk <-]]. apply qleb_spec. auto.
Qed.

Definition class_spec (n c : nat) : ptree :=
  chain n (all_le_rows n c) (T (sc_constant n 0)) (T (sc_constant n 1)).
Theorem spec_class n c x : length x = n -> (c < n)%nat -> eval (class_spec n c) x = Some [class_def c x].
Proof.
  intros Hx Hc. unfold class_spec. rewrite eval_chain, all_le_rows_holds by auto. cbn [eval].
  rewrite !apply_constant. unfold class_def. fold (ismaxb c x). destruct (ismaxb c x); reflexivity.
Qed.

(* argmax, textbook reading: the first r = 0, 1, 2, ... whose component is maximal; the last index needs no test *)
Fixpoint argmax_spec_from (n fuel r : nat) : ptree :=
  match fuel with
  | O => T (sc_constant n (qnat r))
  | S f => chain n (all_le_rows n r) (argmax_spec_from n f (S r)) (T (sc_constant n (qnat r)))
  end.
Definition argmax_spec (n : nat) : ptree := argmax_spec_from n (n - 1) 0.

Fixpoint search (x : vec) (fuel r : nat) : nat :=
  match fuel with
  | O => r
  | S f => if ismaxb r x then r else search x f (S r)
  end.
Lemma eval_argmax_spec_from n x : length x = n -> forall f r, (r + f < n)%nat ->
  eval (argmax_spec_from n f r) x = Some [qnat (search x f r)].
Proof.
  intros Hx. induction f as [|f IH]; intros r Hr; cbn [argmax_spec_from search].
  - cbn [eval]. rewrite apply_constant. reflexivity.
  - rewrite eval_chain, all_le_rows_holds by (auto; lia). destruct (ismaxb r x).
    + cbn [eval]. rewrite apply_constant. reflexivity.
    + apply IH. lia.
Qed.
Lemma search_first_max x m : is_first_max x m -> forall f r, (r + f + 1 = length x)%nat -> (r <= m)%nat ->
  search x f r = m.
Proof.
  intros [M1 [M2 M3]]. induction f as [|f IH]; intros r Hr Hm; cbn [search]; try lia.
  destruct (ismaxb r x) eqn:E.
  - destruct (Nat.eq_dec r m) as [|Hne]; auto. exfalso.
    assert (A := M3 r ltac:(lia)). rewrite ismaxb_spec in E. assert (B := E m M1). qlra.
  - apply IH; try lia. destruct (Nat.eq_dec r m) as [->|Hne]; try lia. exfalso.
    assert (T : ismaxb m x = true) by (apply ismaxb_spec; auto). congruence.
Qed.
Theorem spec_argmax n x : (1 <= n)%nat -> length x = n -> eval (argmax_spec n) x = Some [qnat (argmax_def x)].
Proof.
  intros Hn Hx. unfold argmax_spec. rewrite eval_argmax_spec_from by (auto; lia). do 3 f_equal.
  apply search_first_max; try lia. apply argmax_def_spec. intros ->. cbn [length] in Hx. lia.
Qed.

(* ---------------------------------------------------------------- inf_norm: both bounds component by component *)
Definition bound_rows (n : nat) (lo hi : option Qc) (k : nat) : list (vec * Qc) :=
  (match lo with Some l => [(vopp (unitv n k), - l)] | None => [] end) ++
  (match hi with Some h => [(unitv n k, h)] | None => [] end).
Definition inf_norm_spec (n : nat) (lo hi : option Qc) : ptree :=
  chain n (flat_map (bound_rows n lo hi) (seq 0 n)) (T (sc_constant n 0)) (T (sc_constant n 1)).

Lemma forallb_flat_map {A B} (f : B -> bool) (g : A -> list B) l :
  forallb f (flat_map g l) = forallb (fun a => forallb f (g a)) l.
Proof. induction l as [|a l IH]; cbn [flat_map forallb]; auto. rewrite forallb_app, IH. reflexivity. Qed.

Theorem spec_inf_norm n lo hi x : length x = n -> eval (inf_norm_spec n lo hi) x = Some [inf_norm_def lo hi x].
Proof.
  intros Hx. unfold inf_norm_spec. rewrite eval_chain. cbn [eval]. rewrite !apply_constant. unfold inf_norm_def.
  assert (E : forallb (row_holds x) (flat_map (bound_rows n lo hi) (seq 0 n)) = forallb (in_bounds lo hi) x).
  { rewrite forallb_flat_map.
    replace (forallb (in_bounds lo hi) x)
      with (forallb (in_bounds lo hi) (map (fun j => nth j x 0) (seq 0 (length x)))) by (rewrite map_nth_seq; reflexivity).
    rewrite forallb_map, Hx. apply forallb_ext_in. intros k Hk. apply in_seq in Hk.
    unfold bound_rows, in_bounds, row_holds. rewrite forallb_app. f_equal.
    - destruct lo as [l|]; cbn [forallb fst snd]; auto.
      rewrite dot_vopp, dot_unitv, qleb_opp by lia. apply andb_true_r.
    - destruct hi as [h|]; cbn [forallb fst snd]; auto.
      rewrite dot_unitv by lia. apply andb_true_r. }
  rewrite E. destruct (forallb _ x); reflexivity.
Qed.

(* ---------------------------------------------------------------- from_poly: membership tested in the opposite row order *)
Definition from_poly_spec (P f : aff) (g : option aff) : ptree :=
  chain (a_in f) (rev (poly_rows P)) (match g with Some g' => T g' | None => U end) (T f).
Lemma forallb_rev {A} (f : A -> bool) l : forallb f (rev l) = forallb f l.
Proof.
  induction l as [|a l IH]; cbn [rev forallb]; auto. rewrite forallb_app, IH. cbn [forallb].
  destruct (f a), (forallb f l); reflexivity.
Qed.
Theorem spec_from_poly P f g x : eval (from_poly_spec P f g) x = from_poly_def P f g x.
Proof.
  unfold from_poly_spec, from_poly_def, in_polyb. rewrite eval_chain, forallb_rev. unfold row_holds.
  destruct (forallb _ (poly_rows P)); auto. destruct g; reflexivity.
Qed.

(* ---------------------------------------------------------------- slicing: substitute the fixed coordinates into every
   node (a . embed r y = a_free . y + a . fixedpt r), instead of composing with the slice function and dropping axes *)
Definition fixedpt (r : list (option Qc)) : vec := map (fun o => match o with Some v => v | None => 0 end) r.
Definition rs_fun (r : list (option Qc)) (f : aff) : aff :=
  {| a_in := count_true (map sc_isfree r);
     a_mat := map (keepcols (map sc_isfree r)) (a_mat f);
     a_bias := vadd (matvec (a_mat f) (fixedpt r)) (a_bias f) |}.
Definition rs_pred (r : list (option Qc)) (p : aff) : aff :=
  {| a_in := count_true (map sc_isfree r);
     a_mat := map (keepcols (map sc_isfree r)) (a_mat p);
     a_bias := vsub (a_bias p) (matvec (a_mat p) (fixedpt r)) |}.
Fixpoint restrict_tree (r : list (option Qc)) (t : ptree) : ptree :=
  match t with
  | U => U
  | T f => T (rs_fun r f)
  | D p ch => D (rs_pred r p) (map (restrict_tree r) ch)
  end.

Lemma dot_embed r : forall a y,
  dot a (embed r y) = dot (keepcols (map sc_isfree r) a) y + dot a (fixedpt r).
Proof.
  induction r as [|o r IH]; intros a y.
  - cbn [embed map keepcols fixedpt]. rewrite !dot_nil_r. destruct y; cbn [dot]; ring.
  - destruct a as [|a0 a].
    + cbn [map sc_isfree keepcols dot]. destruct o; cbn [keepcols dot]; ring.
    + destruct o as [v|]; cbn [embed map sc_isfree keepcols fixedpt].
      * cbn [dot]. fold (fixedpt r). rewrite IH. ring.
      * destruct y as [|b y]; cbn [dot]; fold (fixedpt r); rewrite IH.
        -- rewrite dot_nil_r. ring.
        -- ring.
Qed.

Lemma apply_rs_fun r f y : apply (rs_fun r f) y = apply f (embed r y).
Proof.
  unfold apply, rs_fun, matvec. cbn [a_mat a_bias]. rewrite map_map. rewrite <- vadd_assoc. f_equal.
  unfold vadd. rewrite vzip_map. apply map_ext. intros a. symmetry. apply dot_embed.
Qed.

Lemma qleb_sub_r a b c : qleb a (b - c) = qleb (a + c) b.
Proof.
  destruct (qleb a (b - c)) eqn:E1, (qleb (a + c) b) eqn:E2; auto.
  - apply qleb_spec in E1. apply qleb_false in E2. exfalso. qlra.
  - apply qleb_spec in E2. apply qleb_false in E1. exfalso. qlra.
Qed.
Lemma decide_rs_pred r p y : decide (rs_pred r p) y = decide p (embed r y).
Proof.
  unfold decide, rs_pred, matvec. cbn [a_mat a_bias]. f_equal. generalize (a_bias p).
  induction (a_mat p) as [|a A IH]; intros [|b0 b]; cbn [map bits vsub vzip]; auto.
  fold (vsub b (map (fun r0 => dot r0 (fixedpt r)) A)). rewrite IH. f_equal.
  rewrite qleb_sub_r, <- dot_embed. reflexivity.
Qed.

Theorem eval_restrict_tree r t y : eval (restrict_tree r t) y = eval t (embed r y).
Proof.
  induction t as [| f | p ch IH] using ptree_ind'; cbn [restrict_tree eval]; auto.
  - rewrite apply_rs_fun. reflexivity.
  - rewrite decide_rs_pred, map_map. generalize (decide p (embed r y)). intros k. revert k.
    induction ch as [|c ch IHch]; intros [|k]; cbn [map nth]; auto.
    + apply Forall_cons_iff in IH as [H _]; auto.
    + apply Forall_cons_iff in IH as [_ H]; auto.
Qed.

(* Distill/NpzProofs.v -- read_layers on files of the documented dialect returns the expanded layer list (C18). *)
From Coq Require Import String Ascii Sorted Permutation.
From AT Require Import Num Vec Aff Arch Npz.

(* ================================================================ the order on names *)
Definition str_le (a b : string) : Prop := str_leb a b = true.

Lemma nat_of_ascii_inj x y : nat_of_ascii x = nat_of_ascii y -> x = y.
Proof. intros H. rewrite <- (ascii_nat_embedding x), <- (ascii_nat_embedding y), H. reflexivity. Qed.

Lemma str_leb_refl a : str_leb a a = true.
Proof. induction a as [|x a IH]; cbn [str_leb]; auto. rewrite Nat.ltb_irrefl, Nat.eqb_refl. exact IH. Qed.
Lemma str_leb_total a : forall b, str_leb a b = true \/ str_leb b a = true.
Proof.
  induction a as [|x a IH]; intros [|y b]; cbn [str_leb]; auto.
  destruct (Nat.ltb_spec (nat_of_ascii x) (nat_of_ascii y)) as [H|H]; auto.
  destruct (Nat.ltb_spec (nat_of_ascii y) (nat_of_ascii x)) as [H'|H']; auto.
  assert (E : nat_of_ascii x = nat_of_ascii y) by lia. rewrite E, Nat.eqb_refl. apply IH.
Qed.
Lemma str_leb_trans a : forall b c, str_leb a b = true -> str_leb b c = true -> str_leb a c = true.
Proof.
  induction a as [|x a IH]; intros [|y b] [|z c]; cbn [str_leb]; auto; try discriminate.
  destruct (Nat.ltb_spec (nat_of_ascii x) (nat_of_ascii y)) as [H1|H1];
  destruct (Nat.ltb_spec (nat_of_ascii y) (nat_of_ascii z)) as [H2|H2];
  destruct (Nat.ltb_spec (nat_of_ascii x) (nat_of_ascii z)) as [H3|H3]; auto; try lia.
  - destruct (Nat.eqb_spec (nat_of_ascii y) (nat_of_ascii z)); try discriminate. lia.
  - destruct (Nat.eqb_spec (nat_of_ascii x) (nat_of_ascii y)); try discriminate. lia.
  - destruct (Nat.eqb_spec (nat_of_ascii x) (nat_of_ascii y)) as [E1|]; try discriminate.
    destruct (Nat.eqb_spec (nat_of_ascii y) (nat_of_ascii z)) as [E2|]; try discriminate.
    replace (Nat.eqb (nat_of_ascii x) (nat_of_ascii z)) with true by (symmetry; apply Nat.eqb_eq; lia).
    apply IH.
Qed.
Lemma str_leb_antisym a : forall b, str_leb a b = true -> str_leb b a = true -> a = b.
Proof.
  induction a as [|x a IH]; intros [|y b]; cbn [str_leb]; auto; try discriminate.
  destruct (Nat.ltb_spec (nat_of_ascii x) (nat_of_ascii y)) as [H1|H1];
  destruct (Nat.ltb_spec (nat_of_ascii y) (nat_of_ascii x)) as [H2|H2]; try lia.
  - destruct (Nat.eqb_spec (nat_of_ascii y) (nat_of_ascii x)); try discriminate. lia.
  - destruct (Nat.eqb_spec (nat_of_ascii x) (nat_of_ascii y)); try discriminate. lia.
  - destruct (Nat.eqb_spec (nat_of_ascii x) (nat_of_ascii y)) as [E|]; try discriminate.
    rewrite E, Nat.eqb_refl. intros Ha Hb. apply nat_of_ascii_inj in E. subst y. f_equal. apply IH; auto.
Qed.

(* ---------------------------------------------------------------- insertion sort *)
Lemma ins_perm x l : Permutation (ins_name x l) (x :: l).
Proof.
  induction l as [|y l IH]; cbn [ins_name]; auto. destruct (str_leb x y); auto.
  eapply perm_trans; [apply perm_skip, IH | apply perm_swap].
Qed.
Lemma sort_perm l : Permutation (sort_names l) l.
Proof.
  induction l as [|x l IH]; cbn [sort_names fold_right]; auto.
  eapply perm_trans; [apply ins_perm | apply perm_skip, IH].
Qed.
Lemma ins_sorted x l : StronglySorted str_le l -> StronglySorted str_le (ins_name x l).
Proof.
  induction l as [|y l IH]; intros H; cbn [ins_name].
  - repeat constructor.
  - apply StronglySorted_inv in H as [Hl Hy]. destruct (str_leb x y) eqn:E.
    + constructor; [constructor; auto|]. constructor; auto.
      eapply Forall_impl; [|exact Hy]. intros z Hz. eapply str_leb_trans; eauto.
    + constructor; auto.
      assert (Hyx : str_le y x) by (destruct (str_leb_total x y); congruence).
      eapply Permutation_Forall; [apply Permutation_sym, ins_perm|]. constructor; auto.
Qed.
Lemma sort_sorted l : StronglySorted str_le (sort_names l).
Proof. induction l as [|x l IH]; cbn [sort_names fold_right]; [constructor | apply ins_sorted, IH]. Qed.

(* a sorted list is determined by its elements *)
Lemma sorted_perm_eq l1 : forall l2, StronglySorted str_le l1 -> StronglySorted str_le l2 -> Permutation l1 l2 -> l1 = l2.
Proof.
  induction l1 as [|a l1 IH]; intros l2 H1 H2 HP.
  - apply Permutation_nil in HP. auto.
  - destruct l2 as [|b l2]; [apply Permutation_sym, Permutation_nil in HP; discriminate|].
    apply StronglySorted_inv in H1 as [S1 F1]. apply StronglySorted_inv in H2 as [S2 F2].
    assert (Hab : a = b).
    { assert (Ha : In a (b :: l2)) by (eapply Permutation_in; [exact HP | left; auto]).
      assert (Hb : In b (a :: l1)) by (eapply Permutation_in; [apply Permutation_sym; exact HP | left; auto]).
      destruct Ha as [->|Ha]; auto. destruct Hb as [->|Hb]; auto.
      rewrite Forall_forall in F1, F2. apply str_leb_antisym; [apply F1 | apply F2]; auto. }
    subst b. f_equal. apply IH; auto. eapply Permutation_cons_inv; eauto.
Qed.

Lemma filter_sorted (f : string -> bool) l : StronglySorted str_le l -> StronglySorted str_le (filter f l).
Proof.
  induction l as [|a l IH]; intros H; cbn [filter]; [constructor|].
  apply StronglySorted_inv in H as [S F]. destruct (f a); auto. constructor; auto.
  rewrite Forall_forall in *. intros z Hz. apply filter_In in Hz as [Hz _]. auto.
Qed.
Lemma filter_perm {A} (f : A -> bool) l l' : Permutation l l' -> Permutation (filter f l) (filter f l').
Proof.
  intros H. induction H as [| x l l' H IH | x y l | l l' l'' H1 IH1 H2 IH2]; cbn [filter]; auto.
  - destruct (f x); auto.
  - destruct (f x), (f y); auto. apply perm_swap.
  - eapply perm_trans; eauto.
Qed.

Ltac eqb_compute :=
  repeat match goal with
  | |- context [String.eqb ?a ?b] =>
      let v := eval vm_compute in (String.eqb a b) in
      lazymatch v with true => idtac | false => idtac end; change (String.eqb a b) with v
  end; cbv iota.

(* ================================================================ ignored entries *)
Definition relevant (nm : string) : bool := negb (ignorable nm).

(* entries that do not match the pattern (and `layers` / `linear.bias` entries) have no influence *)
Theorem process_filter ar names : forall dim acc,
  rl_process ar names dim acc = rl_process ar (filter relevant names) dim acc.
Proof.
  induction names as [|nm names IH]; intros dim acc; cbn [filter]; auto.
  unfold relevant at 1, ignorable. cbn [rl_process].
  destruct (parse_name nm) as [[idx kind]|] eqn:E; cbn [negb]; auto.
  destruct (String.eqb kind "layers") eqn:E1.
  - apply String.eqb_eq in E1. subst kind. cbn [orb negb]. eqb_compute. apply IH.
  - destruct (String.eqb kind "linear.bias") eqn:E2.
    + apply String.eqb_eq in E2. subst kind. cbn [orb negb]. eqb_compute. apply IH.
    + cbn [orb negb rl_process]. rewrite E, E1, E2.
      destruct (String.eqb kind "relu"); auto. destruct (String.eqb kind "hard_tanh"); auto.
      destruct (String.eqb kind "hard_sigmoid"); auto. destruct (String.eqb kind "linear.weights"); auto.
      destruct (find_entry ar (idx ++ ".linear.weights.npy")) as [[c m| |]|]; auto.
      destruct (find_entry ar (idx ++ ".linear.bias.npy")) as [[| b |]|]; auto.
      destruct (Nat.eqb (length m) (length b)); auto.
Qed.

(* an entry whose name matches the pattern with a kind outside the six known ones makes read_layers panic *)
Theorem unknown_kind_panics ar nm rest dim acc idx kind : parse_name nm = Some (idx, kind) ->
  kind <> "relu"%string -> kind <> "hard_tanh"%string -> kind <> "hard_sigmoid"%string ->
  kind <> "linear.weights"%string -> kind <> "linear.bias"%string -> kind <> "layers"%string ->
  rl_process ar (nm :: rest) dim acc = RPanic.
Proof.
  intros E H1 H2 H3 H4 H5 H6. cbn [rl_process]. rewrite E.
  apply String.eqb_neq in H1, H2, H3, H4, H5, H6. rewrite H1, H2, H3, H4, H5, H6. reflexivity.
Qed.

(* ================================================================ names of the dialect *)
Lemma nat_of_digit k : (k < 10)%nat -> nat_of_ascii (digit_char k) = (48 + k)%nat.
Proof. intros H. unfold digit_char. apply nat_ascii_embedding. lia. Qed.
Lemma is_digit_digit k : (k < 10)%nat -> is_digit (digit_char k) = true.
Proof.
  intros H. unfold is_digit. rewrite nat_of_digit by auto. cbv zeta.
  apply andb_true_iff. split; apply Nat.leb_le; lia.
Qed.

Lemma dec3 i : (i < 1000)%nat -> exists a b c, (a < 10 /\ b < 10 /\ c < 10 /\ i = 100 * a + 10 * b + c)%nat /\
  pad3 i = String (digit_char a) (String (digit_char b) (String (digit_char c) EmptyString)).
Proof.
  intros H. exists (i / 100)%nat, ((i mod 100) / 10)%nat, ((i mod 100) mod 10)%nat.
  pose proof (Nat.div_mod i 100 ltac:(lia)) as H1. pose proof (Nat.mod_upper_bound i 100 ltac:(lia)) as H2.
  pose proof (Nat.div_mod (i mod 100) 10 ltac:(lia)) as H3.
  pose proof (Nat.mod_upper_bound (i mod 100) 10 ltac:(lia)) as H4.
  split; [|reflexivity]. repeat split; try lia; apply Nat.div_lt_upper_bound; lia.
Qed.

(* zero-padded three-digit indices below 1000 sort like the numbers *)
Lemma pad3_lt i k r r' : (i < k)%nat -> (k < 1000)%nat -> str_leb (pad3 i ++ r) (pad3 k ++ r') = true.
Proof.
  intros Hik Hk.
  destruct (dec3 i ltac:(lia)) as [a [b [c [[Ha [Hb [Hc Hi]]] ->]]]].
  destruct (dec3 k Hk) as [a' [b' [c' [[Ha' [Hb' [Hc' Hk']]] ->]]]].
  cbn [append str_leb]. rewrite !nat_of_digit by auto.
  destruct (Nat.ltb_spec (48 + a) (48 + a')); auto. destruct (Nat.eqb_spec (48 + a) (48 + a')); [|lia].
  destruct (Nat.ltb_spec (48 + b) (48 + b')); auto. destruct (Nat.eqb_spec (48 + b) (48 + b')); [|lia].
  destruct (Nat.ltb_spec (48 + c) (48 + c')); auto. lia.
Qed.

Lemma parse_pad3 i r : (i < 1000)%nat ->
  parse_name (pad3 i ++ String "." r) = if all_kind_chars r then Some (pad3 i, strip_npy r) else None.
Proof.
  intros Hi. destruct (dec3 i Hi) as [a [b [c [[Ha [Hb [Hc _]]] ->]]]].
  unfold parse_name. cbn [append span_digits]. rewrite !is_digit_digit by auto.
  replace (is_digit ".") with false by reflexivity.
  replace (Nat.eqb (nat_of_ascii ".") 46) with true by reflexivity. cbn [andb]. reflexivity.
Qed.

(* the names read_layers acts on, in index order *)
Definition wname (sfx : bool) (i : nat) (f : flayer) : string :=
  match f with
  | FLinear _ => pad3 i ++ ".linear.weights.npy"
  | _ => pad3 i ++ "." ++ act_kind f ++ (if sfx then ".npy" else "")
  end.
Fixpoint wnames (sfx : nat -> bool) (i : nat) (fl : list flayer) : list string :=
  match fl with [] => [] | f :: fl' => wname (sfx i) i f :: wnames sfx (S i) fl' end.

Lemma wname_pad sfx i f : exists r, wname sfx i f = (pad3 i ++ r)%string.
Proof. destruct f; cbn [wname]; eauto. Qed.

Lemma wnames_ge sfx fl : forall i, (i + length fl <= 1000)%nat ->
  forall j r, (j < i)%nat -> Forall (fun nm => str_le (pad3 j ++ r) nm) (wnames sfx i fl).
Proof.
  induction fl as [|f fl IH]; intros i Hb j r Hj; cbn [wnames length] in *; constructor.
  - destruct (wname_pad (sfx i) i f) as [r' ->]. apply pad3_lt; lia.
  - apply IH; lia.
Qed.
Lemma wnames_sorted sfx fl : forall i, (i + length fl <= 1000)%nat -> StronglySorted str_le (wnames sfx i fl).
Proof.
  induction fl as [|f fl IH]; intros i Hb; cbn [wnames length] in *; constructor.
  - apply IH; lia.
  - destruct (wname_pad (sfx i) i f) as [r ->]. apply wnames_ge; lia.
Qed.

Lemma parse_wname sfx i f : (i < 1000)%nat -> parse_name (wname sfx i f) = Some (pad3 i, act_kind f).
Proof.
  intros Hi. destruct f, sfx; cbn [wname act_kind append];
    match goal with |- parse_name (pad3 i ++ String "." ?r)%string = _ => rewrite (parse_pad3 i r Hi) end; reflexivity.
Qed.
Lemma parse_bias i : (i < 1000)%nat -> parse_name (pad3 i ++ ".linear.bias.npy") = Some (pad3 i, "linear.bias"%string).
Proof. intros Hi. rewrite (parse_pad3 i "linear.bias.npy" Hi). reflexivity. Qed.

Lemma relevant_wname sfx i f : (i < 1000)%nat -> relevant (wname sfx i f) = true.
Proof. intros Hi. unfold relevant, ignorable. rewrite parse_wname by auto. destruct f; reflexivity. Qed.
Lemma relevant_bias i : (i < 1000)%nat -> relevant (pad3 i ++ ".linear.bias.npy") = false.
Proof. intros Hi. unfold relevant, ignorable. rewrite parse_bias by auto. reflexivity. Qed.

Lemma filter_encode sfx pay fl : forall i, (i + length fl <= 1000)%nat ->
  filter relevant (map fst (encode_from sfx pay i fl)) = wnames sfx i fl.
Proof.
  induction fl as [|f fl IH]; intros i Hb; cbn [encode_from wnames length] in *; auto.
  rewrite map_app, filter_app, IH by lia.
  destruct f as [a| | |]; cbn [encode_one map fst filter app].
  - change (pad3 i ++ ".linear.weights.npy")%string with (wname (sfx i) i (FLinear a)).
    rewrite relevant_wname, relevant_bias by lia. reflexivity.
  - change (pad3 i ++ "." ++ act_kind FRelu ++ (if sfx i then ".npy" else ""))%string with (wname (sfx i) i FRelu).
    rewrite relevant_wname by lia. reflexivity.
  - change (pad3 i ++ "." ++ act_kind FHardTanh ++ (if sfx i then ".npy" else ""))%string with (wname (sfx i) i FHardTanh).
    rewrite relevant_wname by lia. reflexivity.
  - change (pad3 i ++ "." ++ act_kind FHardSigmoid ++ (if sfx i then ".npy" else ""))%string
      with (wname (sfx i) i FHardSigmoid).
    rewrite relevant_wname by lia. reflexivity.
Qed.

(* ================================================================ the loop on the names of the dialect *)
Lemma find_entry_in ar : forall n p, NoDup (map fst ar) -> In (n, p) ar -> find_entry ar n = Some p.
Proof.
  induction ar as [|[n0 p0] ar IH]; intros n p Hnd Hin; cbn [find_entry map fst] in *; [contradiction|].
  apply NoDup_cons_iff in Hnd as [Hn0 Hnd]. destruct Hin as [E|Hin].
  - inversion E; subst. rewrite String.eqb_refl. reflexivity.
  - destruct (String.eqb_spec n0 n) as [->|]; auto.
    exfalso. apply Hn0. apply in_map_iff. exists (n, p). auto.
Qed.

Lemma process_wnames ar sfx pay fl : forall i dim acc, (i + length fl <= 1000)%nat -> Forall flayer_ok fl ->
  (forall e, In e (encode_from sfx pay i fl) -> find_entry ar (fst e) = Some (snd e)) ->
  rl_process ar (wnames sfx i fl) dim acc = ROk (acc ++ expand_from dim fl).
Proof.
  induction fl as [|f fl IH]; intros i dim acc Hb Hok Hfind; cbn [wnames rl_process expand_from length] in *.
  - rewrite app_nil_r. reflexivity.
  - apply Forall_cons_iff in Hok as [Hf Hok]. rewrite parse_wname by lia.
    assert (Hrest : forall e, In e (encode_from sfx pay (S i) fl) -> find_entry ar (fst e) = Some (snd e)).
    { intros e He. apply Hfind. cbn [encode_from]. apply in_or_app. right. exact He. }
    destruct f as [a| | |]; cbn [act_kind].
    + eqb_compute.
      pose proof (Hfind ((pad3 i ++ ".linear.weights.npy")%string, PMat (a_in a) (a_mat a))) as HW.
      pose proof (Hfind ((pad3 i ++ ".linear.bias.npy")%string, PVec (a_bias a))) as HB.
      cbn [fst snd encode_from encode_one app In] in HW, HB. rewrite HW, HB by auto.
      cbn [flayer_ok] in Hf. rewrite (proj2 (Nat.eqb_eq _ _) Hf).
      rewrite IH by (auto; lia). rewrite <- app_assoc. destruct a; reflexivity.
    + eqb_compute. rewrite IH by (auto; lia). rewrite <- app_assoc. reflexivity.
    + eqb_compute. rewrite IH by (auto; lia). rewrite <- app_assoc. reflexivity.
    + eqb_compute. rewrite IH by (auto; lia). rewrite <- app_assoc. reflexivity.
Qed.

(* ================================================================ read_layers on the documented dialect.
   For every layer list fl with fewer than 1000 file-level layers (indices 000..999 sort like numbers; beyond that the
   three-digit dialect has no names), stored in any order, marker entries with or without `.npy`, together with any
   entries that read_layers passes over (e.g. `000.layers.npy` of the shipped files, or names outside the pattern):
   the result is the layer list in index order with the stored weights and one activation entry per neuron of the
   preceding linear layer. *)
Theorem read_layers_dialect fl sfx pay junk ar :
  (length fl <= 1000)%nat -> Forall flayer_ok fl ->
  Permutation ar (encode sfx pay fl ++ junk) -> NoDup (map fst ar) ->
  Forall (fun e => ignorable (fst e) = true) junk ->
  read_layers_model ar = ROk (expand fl).
Proof.
  intros Hlen Hok HP Hnd Hjunk. unfold read_layers_model, expand, encode in *.
  rewrite process_filter.
  assert (HW : filter relevant (sort_names (map fst ar)) = wnames sfx 0 fl).
  { apply sorted_perm_eq.
    - apply filter_sorted, sort_sorted.
    - apply wnames_sorted. lia.
    - eapply perm_trans; [apply filter_perm, sort_perm|].
      eapply perm_trans; [apply filter_perm, Permutation_map, HP|].
      rewrite map_app, filter_app, filter_encode by lia.
      replace (filter relevant (map fst junk)) with (@nil string); [rewrite app_nil_r; auto|].
      clear -Hjunk. induction junk as [|e junk IH]; cbn [map filter]; auto.
      apply Forall_cons_iff in Hjunk as [He Hjunk]. unfold relevant at 1. rewrite He. cbn [negb]. auto. }
  rewrite HW. rewrite (process_wnames ar sfx pay fl 0 0 []); auto; try lia.
  intros [n p] He. cbn [fst snd]. apply find_entry_in; auto.
  eapply Permutation_in; [apply Permutation_sym, HP|]. apply in_or_app. left. exact He.
Qed.

(* index order = lexicographic order only for zero-padded indices: an unpadded file is read in another order
   (`10.relu` sorts before `2.linear...`, its expansion happens with the dimension 0 known at that point) *)
Definition unpadded_ar : archive :=
  [("2.linear.weights.npy", PMat 1 [[1]; [1]]); ("2.linear.bias.npy", PVec [0; 0]); ("10.relu.npy", PVec [])]%string.
Example unpadded_is_outside_the_dialect :
  read_layers_model unpadded_ar = ROk [LLinear {| a_in := 1; a_mat := [[1]; [1]]; a_bias := [0; 0] |}].
Proof. vm_compute. reflexivity. Qed.

Definition ex_aff : aff := {| a_in := 1; a_mat := [[1]; [1 + 1]]; a_bias := [0; 1] |}.
Definition ex_fl : list flayer := [FLinear ex_aff; FRelu; FHardTanh; FLinear ex_aff; FHardSigmoid].
Definition ex_ar : archive :=
  (("README", POther) :: ("000.layers.npy", PVec [1]) :: rev (encode (fun i => Nat.even i) (fun _ => PVec []) ex_fl))%string.
Example read_layers_example :
  read_layers_model ex_ar = ROk (expand ex_fl) /\
  expand ex_fl = [LLinear ex_aff; LReLU 0; LReLU 1; LHardTanh 0; LHardTanh 1; LLinear ex_aff; LHardSigmoid 0; LHardSigmoid 1].
Proof. split; vm_compute; reflexivity. Qed.

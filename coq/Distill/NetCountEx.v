(* Distill/NetCountEx.v -- non-vacuity of Distill/NetCount.v, with a CERTIFIED LP oracle.
   lp_oracle n answers a query with the Fourier-Motzkin solver of Cert/FM.v: Infeasible only with a checked Farkas
   certificate, a point only if the point was checked against the rows, an error otherwise -- so it never lies, and it is
   EXACT at every row system on which it does not answer with an error (decidable: lpo_answers).  The oracle hypothesis
   exact_hist of a pipeline is then decided by running the pipeline (exact_histb).
   Network R^1 -> R^1:   x |-> relu (relu (x) - 1)      (Linear id, ReLU, Linear y - 1, ReLU)
   activation patterns, depth-first (row (r, b) reads r.x <= b):
     x >= 0, x >= 1      x >= 0, x <= 1      x <= 0, 0 <= -1  (DEAD)      x <= 0, 0 <= 1
   the distilled tree has 3 terminals = the number of non-empty closed activation regions (all three full-dimensional). *)
From AT Require Import Num Vec Aff AffOps Farkas FM Equiv PTree Ops Reduce Cells Abs Cache Elim ElimEval ElimCache ElimEff CPrune CPruneEval CPruneCache.
From AT Require Import WfC OpsWf ElimWf CPruneWf Schema SchemaSpec SchemaProofs History CacheHistory CacheHistoryRun ElimExample EffHistory EffHistoryEx
  ElimCount ElimCountRoot ElimCountNet Arch ArchProofs Net NetProofs NetCount.

(* ---------------------------------------------------------------- a point of any length, cut or zero-padded to length n *)
Fixpoint fit (n : nat) (x : vec) : vec :=
  match n with
  | O => []
  | S n' => match x with [] => 0 :: fit n' [] | x0 :: x' => x0 :: fit n' x' end
  end.
Lemma fit_length : forall n x, length (fit n x) = n.
Proof. induction n as [|n IH]; intros x; [reflexivity|]. destruct x; cbn [fit length]; rewrite IH; reflexivity. Qed.
Lemma dot_fit : forall a n x, (length a <= n)%nat -> dot a (fit n x) = dot a x.
Proof.
  induction a as [|a0 a IH]; intros n x H; [reflexivity|]. cbn [length] in H.
  destruct n as [|n]; [lia|]. destruct x as [|x0 x]; cbn [fit dot].
  - rewrite (IH n [] ltac:(lia)), dot_nil_r. qlra.
  - rewrite (IH n x ltac:(lia)). reflexivity.
Qed.
Definition rows_dimb (n : nat) (q : rows) : bool := forallb (fun rb : vec * Qc => Nat.leb (length (fst rb)) n) q.
Lemma in_rows_fit n q x : rows_dimb n q = true -> in_rows q x -> in_rows q (fit n x).
Proof.
  unfold rows_dimb, in_rows. rewrite forallb_forall, !Forall_forall. intros Hd H rb Hrb.
  rewrite dot_fit by (apply Nat.leb_le; apply Hd; exact Hrb). apply H. exact Hrb.
Qed.

(* ---------------------------------------------------------------- the certified LP oracle *)
Definition lpo_answer (n : nat) (q : rows) : lpans :=
  if rows_dimb n q then
    match solve n (constrs_of q) with
    | Unsat _ => LInf
    | Sat w => LOpt w
    | Unknown => LErr
    end
  else LErr.
Definition lp_oracle (n : nat) : oracle := {| o_lp := fun _ q => lpo_answer n q; o_mir := fun _ _ _ => None |}.
Definition lpo_answers (n : nat) (q : rows) : bool := match lpo_answer n q with LErr => false | _ => true end.

Lemma lp_oracle_mir n tol : mir_sound (lp_oracle n) tol.
Proof. intros k q ws pts H. discriminate. Qed.
(* it never lies ... *)
Lemma lpo_answer_sound n q :
  match lpo_answer n q with LInf => ~ ne q | LUnb => ne q | LOpt w => in_rows q w | LErr => True end.
Proof.
  unfold lpo_answer. destruct (rows_dimb n q) eqn:Ed; [|exact I].
  destruct (solve n (constrs_of q)) as [w|l|] eqn:E; [| |exact I].
  - destruct (solve_sat _ _ _ E) as [_ Hall]. apply all_hold_constrs_of. exact Hall.
  - intros [x Hx]. apply (solve_unsat _ _ _ E (fit n x) (fit_length n x)).
    apply all_hold_constrs_of. apply in_rows_fit; auto.
Qed.
(* ... hence it is exact wherever it answers *)
Lemma lp_oracle_exact_at n q : lpo_answers n q = true -> oexact_at (lp_oracle n) q.
Proof.
  unfold lpo_answers. intros H k. cbn [lp_oracle o_lp]. pose proof (lpo_answer_sound n q) as S.
  destruct (lpo_answer n q); auto. discriminate.
Qed.
Lemma lp_oracle_exact_on n t : forallb (lpo_answers n) (cpaths [] t) = true ->
  forall r, is_path [] t r -> oexact_at (lp_oracle n) r.
Proof.
  intros H r Hr. rewrite forallb_forall in H. apply lp_oracle_exact_at. apply H. apply is_path_in. exact Hr.
Qed.
Lemma lp_empty n q : lpo_answer n q = LInf -> ~ ne q.
Proof. intros E. pose proof (lpo_answer_sound n q) as S. rewrite E in S. exact S. Qed.

(* the oracle hypothesis of a pipeline whose oracles are all lp_oracle n, decided by running the pipeline *)
Fixpoint exact_histb (n : nat) (tol : Qc) (init : ctree) (ops : list (oracle * History.op)) : bool :=
  match ops with
  | [] => true
  | ox :: rest =>
      (match snd ox with OElim => forallb (lpo_answers n) (cpaths [] init) | _ => true end) &&
      match step tol (fst ox) (snd ox) init with HOk t1 => exact_histb n tol t1 rest | HPanic => true end
  end.
Theorem lp_exact_hist n tol : forall ops init, (forall ox, In ox ops -> fst ox = lp_oracle n) ->
  exact_histb n tol init ops = true -> exact_hist tol init ops.
Proof.
  induction ops as [|ox ops IH]; intros init Ho H; cbn [exact_hist exact_histb] in *; [exact I|].
  apply andb_true_iff in H as [H1 H2]. split.
  - intros E. rewrite E in H1. rewrite (Ho ox (or_introl eq_refl)). split; [apply lp_oracle_exact_on; exact H1 | apply lp_oracle_mir].
  - intros t1 Es. rewrite Es in H2. apply IH; [|exact H2]. intros oy Hin. apply Ho. right. exact Hin.
Qed.
Corollary lp_net_exact_hist n tol s ls j d t :
  exact_histb n tol t (net_ops (fun _ => lp_oracle n) s j d ls) = true ->
  exact_hist tol t (net_ops (fun _ => lp_oracle n) s j d ls).
Proof.
  apply lp_exact_hist. intros ox Hin. destruct (net_ops_oracles _ s ls j d ox Hin) as [k E]. exact E.
Qed.

(* ---------------------------------------------------------------- the network *)
Definition dn_a1 : aff := {| a_in := 1; a_mat := [[1]]; a_bias := [0] |}.
Definition dn_a2 : aff := {| a_in := 1; a_mat := [[1]]; a_bias := [- (1)] |}.
Definition dn_layers : list layer := [LLinear dn_a1; LReLU 0; LLinear dn_a2] ++ [LReLU 0].
Definition dn_os : nat -> oracle := fun _ => lp_oracle 1.
Definition dn_closed : list bool := [true; true; false; true].
Definition dn_dead : rows := [([1], 0); ([0], - (1))].

Lemma dn_head_free : head_free dn_layers = true.
Proof. reflexivity. Qed.
Lemma dn_dims : layers_out_dim 1 dn_layers = Some 1%nat.
Proof. vm_compute. reflexivity. Qed.
Lemma dn_wf : Forall layer_wf dn_layers.
Proof.
  repeat constructor; cbn [layer_wf]; apply wf_affb_spec; vm_compute; reflexivity.
Qed.
Lemma dn_exact : exact_hist 0 (id_tree 1) (net_ops dn_os 0 0 1 dn_layers).
Proof. apply (lp_net_exact_hist 1 0 0 dn_layers 0 1 (id_tree 1)). vm_compute. reflexivity. Qed.

Example dn_net :
  exists r U : ctree,
    (* the hypotheses of distilled_count_mask / _lower / _exact_tol0 hold *)
    (head_free dn_layers = true /\ layers_out_dim 1 dn_layers = Some 1%nat /\ Forall layer_wf dn_layers /\
     exact_hist 0 (id_tree 1) (net_ops dn_os 0 0 1 dn_layers) /\
     distill dn_os 0 0 1 dn_layers = Some r /\ distill_unpruned 0 1 dn_layers = Some U) /\
    (* four activation patterns, one dead; three terminals are left: exactly the non-empty ones *)
    length (leaf_regions [] U) = 4%nat /\ nleaves r = 3%nat /\ count dn_closed = 3%nat /\
    leaf_funcs r = select dn_closed (leaf_funcs U) /\
    nth 2 (leaf_regions [] U) [] = dn_dead /\
    Forall2 (fun (b : bool) (Rg : rows) => b = true <-> ne Rg) dn_closed (leaf_regions [] U) /\
    Forall2 (fun (b : bool) (Rg : rows) => b = true -> interior Rg) dn_closed (leaf_regions [] U).
Proof.
  destruct (distill dn_os 0 0 1 dn_layers) as [r|] eqn:ER; [|vm_compute in ER; discriminate].
  destruct (distill_unpruned 0 1 dn_layers) as [U|] eqn:EU; [|vm_compute in EU; discriminate].
  exists r, U.
  split; [split; [exact dn_head_free|]; split; [exact dn_dims|]; split; [exact dn_wf|]; split; [exact dn_exact|]; split; reflexivity|].
  vm_compute in ER. inversion ER; subst r. vm_compute in EU. inversion EU; subst U. clear ER EU.
  split; [reflexivity|]. split; [reflexivity|]. split; [reflexivity|].
  split; [vm_compute; reflexivity|]. split; [vm_compute; reflexivity|]. split.
  - cbn [leaf_regions app dn_closed]. repeat constructor; try (intros _; reflexivity); try discriminate.
    + intros _. apply (ne_of _ [1 + 1]). vm_compute. reflexivity.
    + intros _. apply (ne_of _ [0]). vm_compute. reflexivity.
    + intros C. exfalso. revert C. apply (lp_empty 1). vm_compute. reflexivity.
    + intros _. apply (ne_of _ [0]). vm_compute. reflexivity.
  - cbn [leaf_regions app dn_closed]. repeat constructor; try discriminate.
    + intros _. apply (interior_of _ [1 + 1]). vm_compute. reflexivity.
    + intros _. apply (interior_of _ [1 / (1 + 1)]). vm_compute. reflexivity.
    + intros _. apply (interior_of _ [- (1)]). vm_compute. reflexivity.
Qed.

(* the general theorems of NetCount.v, instantiated for this network *)
Example dn_theorems :
  forall r U, distill dn_os 0 0 1 dn_layers = Some r -> distill_unpruned 0 1 dn_layers = Some U ->
  run 0 (id_tree 1) (net_ops dn_os 0 0 1 dn_layers) = HOk r /\
  (exists m : list bool, length m = length (leaf_regions [] U) /\ leaf_funcs r = select m (leaf_funcs U) /\
     Forall2 (fun (b : bool) (Rg : rows) => ne Rg -> b = true) m (leaf_regions [] U)) /\
  (forall full, Forall2 (fun (b : bool) (Rg : rows) => b = true -> interior Rg) full (leaf_regions [] U) ->
     (count full <= nleaves r)%nat) /\
  (forall closed, Forall2 (fun (b : bool) (Rg : rows) => b = true <-> ne Rg) closed (leaf_regions [] U) ->
     nleaves r = count closed).
Proof.
  intros r U ER EU. split; [|split; [|split]].
  - apply (distill_from_run dn_os 0 0 1 dn_layers 0 1 1 (id_tree 1) r dn_head_free dn_dims dn_wf (id_tree_cwft 1) ER).
  - exact (distilled_count_mask dn_os 0 0 1 dn_layers 1 r U (Qcle_refl 0) dn_head_free dn_dims dn_wf dn_exact ER EU).
  - intros full. exact (distilled_count_lower dn_os 0 0 1 dn_layers 1 r U full (Qcle_refl 0) dn_head_free dn_dims dn_wf dn_exact ER EU).
  - intros closed.
    apply (distilled_count_exact_tol0 dn_os 0 1 [LLinear dn_a1; LReLU 0; LLinear dn_a2] (LReLU 0) 1 r U closed
             dn_head_free (fun a => ltac:(discriminate)) dn_dims dn_wf dn_exact ER EU).
Qed.

(* Distill/NetProofs.v -- C01: the distilled tree computes exactly the network, for every dimension-consistent layer
   list, every well-formed precondition tree (total or partial, any cached states with sound Infeasible marks), every
   oracle whose Infeasible answers exclude the input -- breakpoints, ties and inputs outside the precondition
   included.  Chains: C17 (each schema tree = its definition, through Arch.layer_tree_ok), C02 (composition law),
   C03 (elimination / pruned composition preserve the function), C04 (well-formedness is kept, so every next step
   is defined), C05 (marks stay sound, so the next pruning step may trust them). *)
From AT Require Import Num Vec Aff AffOps PTree Ops Reduce Cells Abs Cache Elim ElimEval ElimCache CPrune CPruneEval CPruneCache.
From AT Require Import WfC OpsWf ElimWf CPruneWf Schema SchemaSpec SchemaProofs History Arch ArchProofs Net.

(* the schema tree of a non-linear layer is a well-formed library tree *)
Lemma layer_tree_lib s d l d' : layer_out_dim d l = Some d' -> (forall a, l <> LLinear a) ->
  pwf d d' (layer_tree s d l) /\ pexists (layer_tree s d l) = true.
Proof.
  intros H Hn. destruct l as [a | i | i alpha | i | i | | c]; cbn [layer_out_dim layer_tree] in *.
  - exfalso. eapply Hn; reflexivity.
  - destruct (Nat.ltb i d) eqn:E; inversion H; subst d'. apply lib_tree_pwf. apply L_relu. exact E.
  - destruct (Nat.ltb i d) eqn:E; inversion H; subst d'. apply lib_tree_pwf. apply L_leaky_relu. exact E.
  - destruct (Nat.ltb i d) eqn:E; inversion H; subst d'. apply lib_tree_pwf. apply L_hard_tanh.
    unfold hard_tanh_defined. rewrite E. cbn [andb]. apply qleb_spec. apply neg1_le_1.
  - destruct (Nat.ltb i d) eqn:E; inversion H; subst d'. apply lib_tree_pwf. apply L_hard_sigmoid. exact E.
  - destruct (Nat.leb 2 d) eqn:E; inversion H; subst d'. apply lib_tree_pwf. apply L_argmax. exact E.
  - destruct (Nat.ltb c d && Nat.leb 2 d) eqn:E; inversion H; subst d'. apply lib_tree_pwf. apply L_class. exact E.
Qed.

Lemma eval_length n m t x y : wf n t -> outs m t -> eval t x = Some y -> length y = m.
Proof.
  intros Hw Ho H. rewrite eval_term in H. destruct (term t x) as [f|] eqn:E; [|discriminate].
  inversion H; subst y. destruct (term_wf _ _ _ _ Hw E) as [Hf _]. rewrite length_apply by exact Hf.
  exact (term_outs _ _ _ _ Ho E).
Qed.

(* composing with a schema tree, at the level of evaluation *)
Lemma compose_layer_eval s n d d' l t x : layer_out_dim d l = Some d' -> layer_wf l ->
  wf n t -> outs d t ->
  eval (compose t (layer_tree s d l)) x = option_map (layer_eval s l) (eval t x).
Proof.
  intros Hl Hw Wt Ot. destruct (layer_tree_ok s d l d' Hl Hw) as [WS [OS ES]].
  rewrite (compose_eval n d t (layer_tree s d l) x Wt Ot WS).
  destruct (eval t x) as [y|] eqn:E; [|reflexivity]. cbn [obind option_map].
  apply ES. exact (eval_length n d t x y Wt Ot E).
Qed.

(* ---------------------------------------------------------------- one layer *)
Record inv (n d : nat) (x : vec) (t : ctree) : Prop :=
  { inv_wf : cwft n d t; inv_root : root_live t; inv_marks : marks_kids x [] t }.

Theorem distill_step_ok o tol s n d d' l t x :
  layer_out_dim d l = Some d' -> layer_wf l -> osound o x -> inv n d x t ->
  inv n d' x (distill_step o tol s d l t) /\
  cev (distill_step o tol s d l t) x = option_map (layer_eval s l) (cev t x).
Proof.
  intros Hl Hw Ho [[He Hc] Hr Hm].
  pose proof (cwf_erase_wf n d t Hc) as [Wt [Ot Bt]].
  pose proof (marks_ok_root x t Hr Hm) as Hmo.
  assert (LIN : forall a, l = LLinear a ->
            inv n d' x (capply_func a t) /\ cev (capply_func a t) x = option_map (apply a) (cev t x)).
  { intros a ->. cbn [layer_out_dim] in Hl. destruct (Nat.eqb (a_in a) d) eqn:Ea; [|discriminate].
    apply Nat.eqb_eq in Ea. inversion Hl; subst d'. cbn [layer_wf] in Hw.
    pose proof (capply_func_cwft n d a t Hw Ea (conj He Hc)) as W'.
    split.
    - constructor; [exact W' | apply root_live_cmap; exact Hr |].
      apply marks_ok_kids. apply (cmap_marks (acompose a) x n d t Hc). exact Hmo.
    - rewrite (cev_erase n (outdim a) _ x (proj2 W')). rewrite erase_capply_func.
      rewrite (apply_func_eval n d a (erase t) x Wt Ot Hw Ea). rewrite <- (cev_erase n d t x Hc). reflexivity. }
  destruct l as [a | i | i alpha | i | i | | c];
    try (cbn [distill_step layer_eval]; exact (LIN a eq_refl)).
  all: match goal with |- context [distill_step _ _ _ _ ?L _] => set (l := L) in * end.
  all: assert (Hnl : forall a, l <> LLinear a) by (intros a; unfold l; discriminate).
  all: destruct (layer_tree_lib s d l d' Hl Hnl) as [PS XS].
  (* activations: compose::<false> then infeasible_elimination *)
  1-4: assert (W1 : cwft n d' (ccompose t (layer_tree s d l))) by (apply (ccompose_cwft n d d'); auto; split; auto).
  1-4: assert (M1 : marks_ok x [] (ccompose t (layer_tree s d l))) by (apply clift_marks; exact Hmo).
  1-4: assert (E1 : cev (ccompose t (layer_tree s d l)) x = option_map (layer_eval s l) (cev t x))
        by (rewrite (cev_erase n d' _ x (proj2 W1)); unfold ccompose; rewrite erase_clift by apply PS;
            rewrite (cev_erase n d t x Hc); apply (compose_layer_eval s n d d'); auto).
  1-4: (split;
        [ constructor;
          [ apply elim_cwft; exact W1
          | apply root_live_elim; apply root_live_clift; exact Hr
          | apply elim_marks; [exact Ho | apply marks_ok_kids; exact M1] ]
        | change (distill_step o tol s d l t) with (fst (elim o tol (ccompose t (layer_tree s d l))));
          rewrite (elim_cev o tol _ x Ho (marks_ok_kids _ _ _ M1)); exact E1 ]).
  (* heads: compose::<true> *)
  all: assert (W2 : cwft n d' (fst (compose_prune o tol t (layer_tree s d l))))
        by (apply (compose_prune_cwft o tol n d d'); auto; split; auto).
  all: (split;
        [ constructor;
          [ exact W2
          | apply root_live_cprune; exact Hr
          | apply marks_ok_kids; apply cprune_marks; exact Hmo ]
        | change (distill_step o tol s d l t) with (fst (compose_prune o tol t (layer_tree s d l)));
          rewrite (compose_prune_eval o tol t (layer_tree s d l) x Ho (pwf_bin2 _ _ _ PS)
                     (cwf_cbin _ _ _ Hc) (cwf_terms_ok _ _ _ Hc) Hmo);
          rewrite (cev_erase n d t x Hc); apply (compose_layer_eval s n d d'); auto ]).
Qed.

(* ---------------------------------------------------------------- all layers *)
Theorem distill_from_ok os tol s n x : (forall j, osound (os j) x) ->
  forall ls j d dout t, layers_out_dim d ls = Some dout -> Forall layer_wf ls -> inv n d x t ->
  exists r, distill_from os tol s j d t ls = Some r /\ inv n dout x r /\
            cev r x = option_map (net_eval s ls) (cev t x).
Proof.
  intros Ho. induction ls as [|l ls IH]; intros j d dout t Hd Hw Hi.
  - cbn [layers_out_dim] in Hd. inversion Hd; subst dout. exists t. split; [reflexivity|]. split; [exact Hi|].
    unfold net_eval; cbn [fold_left]. destruct (cev t x); reflexivity.
  - cbn [layers_out_dim] in Hd. destruct (layer_out_dim d l) as [d1|] eqn:El; [|discriminate].
    apply Forall_cons_iff in Hw as [Hwl Hw].
    destruct (distill_step_ok (os j) tol s n d d1 l t x El Hwl (Ho j) Hi) as [Hi1 E1].
    destruct (IH (S j) d1 dout _ Hd Hw Hi1) as [r [Er [Hir Ecr]]].
    exists r. split; [cbn [distill_from]; rewrite El; exact Er|]. split; [exact Hir|].
    rewrite Ecr, E1. destruct (cev t x) as [y|]; reflexivity.
Qed.

(* with a precondition tree *)
Theorem distill_faithful os tol s n d0 dout pre ls x :
  cwft n d0 pre -> root_live pre -> marks_kids x [] pre ->
  layers_out_dim d0 ls = Some dout -> Forall layer_wf ls -> (forall j, osound (os j) x) ->
  exists r, distill_from os tol s 0 d0 pre ls = Some r /\ cwft n dout r /\ cev r x = net_sem s pre ls x.
Proof.
  intros Hw Hr Hm Hd Hl Ho.
  destruct (distill_from_ok os tol s n x Ho ls 0%nat d0 dout pre Hd Hl (Build_inv n d0 x pre Hw Hr Hm)) as [r [E [Hi Ec]]].
  exists r. split; [exact E|]. split; [apply Hi | exact Ec].
Qed.

(* without a precondition: defined everywhere, equal to the network *)
Lemma id_tree_inv n x : inv n n x (id_tree n).
Proof.
  destruct (wf_identity n) as [H1 [H2 H3]]. constructor.
  - split; [reflexivity | constructor; auto].
  - discriminate.
  - cbn. auto.
Qed.
Theorem distill_faithful_total os tol s n dout ls x :
  layers_out_dim n ls = Some dout -> Forall layer_wf ls -> (forall j, osound (os j) x) -> length x = n ->
  exists r, distill os tol s n ls = Some r /\ cwft n dout r /\ cev r x = Some (net_eval s ls x).
Proof.
  intros Hd Hl Ho Hx. unfold distill.
  destruct (distill_from_ok os tol s n x Ho ls 0%nat n dout (id_tree n) Hd Hl (id_tree_inv n x)) as [r [E [Hi Ec]]].
  exists r. split; [exact E|]. split; [apply Hi|]. rewrite Ec. cbn [id_tree cev option_map].
  f_equal. f_equal. apply SchemaProofs.apply_identity. exact Hx.
Qed.

(* a dimension-inconsistent layer list is rejected (the code panics) *)
Theorem distill_rejects os tol s : forall ls j d t, layers_out_dim d ls = None -> distill_from os tol s j d t ls = None.
Proof.
  induction ls as [|l ls IH]; intros j d t H; cbn [layers_out_dim distill_from] in *; [discriminate|].
  destruct (layer_out_dim d l); auto.
Qed.

(* the model distillation returns a tree exactly for the dimension-consistent layer lists *)
Theorem distill_defined_iff os tol s : forall ls j d t,
  (exists r, distill_from os tol s j d t ls = Some r) <-> layers_ok d ls = true.
Proof.
  unfold layers_ok. induction ls as [|l ls IH]; intros j d t; cbn [distill_from layers_out_dim].
  - split; eauto.
  - destruct (layer_out_dim d l) as [d'|]; [apply IH|]. split; [intros [r H]; discriminate | discriminate].
Qed.
(* hence every architecture the builder accepts distills (no dimension panic), whatever the oracles answer *)
Theorem accepted_architecture_distills os tol s n cs :
  exists r, distill os tol s n (arch_layers (arch_run false (arch_new n) cs)) = Some r.
Proof. unfold distill. apply distill_defined_iff. apply run_layers_ok. Qed.

(* ---------------------------------------------------------------- split points (C18, at the level of the distilled trees) *)
(* the tree distilled from the first k layers, composed with the tree distilled from the rest, denotes what the
   tree distilled from the whole list denotes -- for oracles that are sound on every input *)
Theorem distilled_split os1 os2 os tol s n d1 dout l1 l2 x :
  layers_out_dim n l1 = Some d1 -> layers_out_dim d1 l2 = Some dout -> Forall layer_wf l1 -> Forall layer_wf l2 ->
  (forall j z, osound (os1 j) z) -> (forall j z, osound (os2 j) z) -> (forall j z, osound (os j) z) -> length x = n ->
  exists r1 r2 r, distill os1 tol s n l1 = Some r1 /\ distill os2 tol s d1 l2 = Some r2 /\
                  distill os tol s n (l1 ++ l2) = Some r /\
                  eval (compose (erase r1) (erase r2)) x = cev r x.
Proof.
  intros H1 H2 W1 W2 O1 O2 O Hx.
  destruct (distill_faithful_total os1 tol s n d1 l1 x H1 W1 (fun j => O1 j x) Hx) as [r1 [E1 [[X1 C1] V1]]].
  set (y := net_eval s l1 x) in *.
  assert (Hy : length y = d1) by (unfold y; eapply net_eval_length; eauto).
  destruct (distill_faithful_total os2 tol s d1 dout l2 y H2 W2 (fun j => O2 j y) Hy) as [r2 [E2 [[X2 C2] V2]]].
  assert (H12 : layers_out_dim n (l1 ++ l2) = Some dout) by (rewrite layers_out_dim_app, H1; exact H2).
  assert (W12 : Forall layer_wf (l1 ++ l2)) by (apply Forall_app; auto).
  destruct (distill_faithful_total os tol s n dout (l1 ++ l2) x H12 W12 (fun j => O j x) Hx) as [r [E [[X C] V]]].
  exists r1, r2, r. repeat split; auto.
  destruct (cwf_erase_wf n d1 r1 C1) as [Wa [Oa _]]. destruct (cwf_erase_wf d1 dout r2 C2) as [Wb _].
  rewrite (compose_eval n d1 (erase r1) (erase r2) x Wa Oa Wb).
  rewrite <- (cev_erase n d1 r1 x C1), V1. cbn [obind].
  rewrite <- (cev_erase d1 dout r2 y C2), V2, V. unfold y. rewrite net_eval_app. reflexivity.
Qed.

(* Distill/NetCount.v -- C01 x C06: the counting sentence for networks AS DISTILLED BY THE BUILDER MODEL (Net.v).
   For a head-free layer list (Linear / ReLU / LeakyReLU / HardTanh / HardSigmoid; no Argmax / ClassChar, whose
   composition prunes on the fly and is not an operation of a C06 pipeline) the builder loop distill_from IS a pipeline
   of EffHistory.v:
       Linear a          ->  (os j, OApply a)
       activation layer  ->  (os j, OCompose false (layer_tree s d l)); (os j, OElim)
   (net_ops; oracle os j during layer j, exactly as in distill_from).  Every schema tree of these four activation kinds
   is total (ptotal), the identity start tree is a legal start (pinv), so the network-level counting theorems of
   Pwl/ElimCountNet.v apply to the tree the builder returns.  The reference ("the activation regions of the network")
   is the same loop without the eliminations: distill_unpruned_from = run of strip (net_ops ..); its erasure is the
   un-pruned reference tree Arch.distill_ref_from. *)
From AT Require Import Num Vec Aff AffOps PTree Ops Reduce Cells Abs Cache Elim ElimEval ElimCache ElimEff CPrune CPruneEval CPruneCache.
From AT Require Import WfC OpsWf ElimWf CPruneWf Schema SchemaSpec SchemaProofs History CacheHistory CacheHistoryRun EffHistory
  ElimCount ElimCountNet Arch ArchProofs Net NetProofs.

Definition head_free (ls : list layer) : bool := forallb (fun l => negb (is_head l)) ls.

(* the operations of one layer, all with the oracle of that layer *)
Definition layer_ops (os : nat -> oracle) (s : Qc) (j d : nat) (l : layer) : list (oracle * History.op) :=
  match l with
  | LLinear a => [(os j, OApply a)]
  | _ => [(os j, OCompose false (layer_tree s d l)); (os j, OElim)]
  end.
Fixpoint net_ops (os : nat -> oracle) (s : Qc) (j d : nat) (ls : list layer) : list (oracle * History.op) :=
  match ls with
  | [] => []
  | l :: ls' =>
      match layer_out_dim d l with
      | Some d' => layer_ops os s j d l ++ net_ops os s (S j) d' ls'
      | None => []
      end
  end.

(* the reference: the builder loop without infeasible_elimination *)
Definition unpruned_step (s : Qc) (d : nat) (l : layer) (t : ctree) : ctree :=
  match l with
  | LLinear a => capply_func a t
  | _ => ccompose t (layer_tree s d l)
  end.
Fixpoint distill_unpruned_from (s : Qc) (d : nat) (t : ctree) (ls : list layer) : option ctree :=
  match ls with
  | [] => Some t
  | l :: ls' =>
      match layer_out_dim d l with
      | Some d' => distill_unpruned_from s d' (unpruned_step s d l t) ls'
      | None => None
      end
  end.
Definition distill_unpruned (s : Qc) (n : nat) (ls : list layer) : option ctree := distill_unpruned_from s n (id_tree n) ls.

(* ---------------------------------------------------------------- the schema trees of the activation layers are total *)
Lemma layer_tree_total s d l : is_head l = false -> (forall a, l <> LLinear a) -> ptotal (layer_tree s d l).
Proof.
  intros Hh Hn. destruct l as [a | i | i alpha | i | i | | c]; cbn [is_head] in Hh; try discriminate; cbn [layer_tree].
  - exfalso. eapply Hn; reflexivity.
  - unfold partial_relu. repeat constructor.
  - unfold partial_leaky_relu. repeat constructor.
  - unfold partial_hard_tanh. repeat constructor.
  - unfold partial_hard_sigmoid. repeat constructor.
Qed.

Lemma layer_ops_eff os s j d l : is_head l = false -> forall ox, In ox (layer_ops os s j d l) -> eff_op (snd ox).
Proof.
  intros Hh ox Hin.
  destruct l as [a | i | i alpha | i | i | | c]; cbn [is_head] in Hh; try discriminate; cbn [layer_ops In] in Hin.
  1: destruct Hin as [<-|[]]; exact I.
  all: destruct Hin as [<-|[<-|[]]]; cbn [snd eff_op]; [|exact I].
  all: apply layer_tree_total; [reflexivity | intros a; discriminate].
Qed.
Theorem net_ops_eff os s : forall ls j d, head_free ls = true ->
  forall ox, In ox (net_ops os s j d ls) -> eff_op (snd ox).
Proof.
  induction ls as [|l ls IH]; intros j d Hh ox Hin; cbn [net_ops] in Hin; [contradiction|].
  cbn [head_free forallb] in Hh. apply andb_true_iff in Hh as [Hl Hh]. apply negb_true_iff in Hl.
  destruct (layer_out_dim d l) as [d'|]; [|contradiction].
  apply in_app_or in Hin as [Hin|Hin]; [eapply layer_ops_eff; eauto | eapply IH; eauto].
Qed.

(* the identity terminal is a legal start of a pipeline *)
Lemma id_tree_pinv tol n : pinv tol (id_tree n).
Proof.
  unfold id_tree. split; [reflexivity|]. split; [|exact I]. cbn [okc_root]. discriminate.
Qed.

(* ---------------------------------------------------------------- one layer of the builder = its operations *)
Lemma layer_ops_run os tol s n j d d' l t :
  is_head l = false -> layer_out_dim d l = Some d' -> layer_wf l -> cwft n d t ->
  run tol t (layer_ops os s j d l) = HOk (distill_step (os j) tol s d l t) /\
  cwft n d' (distill_step (os j) tol s d l t) /\
  run tol t (strip (layer_ops os s j d l)) = HOk (unpruned_step s d l t) /\
  cwft n d' (unpruned_step s d l t).
Proof.
  intros Hh Hl Hw Ht. pose proof Ht as [He Hc].
  destruct l as [a | i | i alpha | i | i | | c]; cbn [is_head] in Hh; try discriminate.
  1: { (* Linear *)
    cbn [layer_out_dim] in Hl. destruct (Nat.eqb (a_in a) d) eqn:Ea; [|discriminate].
    apply Nat.eqb_eq in Ea. inversion Hl; subst d'. cbn [layer_wf] in Hw.
    cbn [layer_ops distill_step unpruned_step]. unfold strip. cbn [filter keep_op snd].
    rewrite run_cons. cbn [fst snd step].
    rewrite (terms_all_cwf _ n d t Hc). 2:{ intros f _ _ Ho. apply Nat.eqb_eq. congruence. }
    rewrite run_nil.
    pose proof (capply_func_cwft n d a t Hw Ea Ht) as W. auto. }
  all: match goal with |- context [distill_step _ _ _ _ ?L _] => set (l := L) in * end.
  all: assert (Hnl : forall a, l <> LLinear a) by (intros a; unfold l; discriminate).
  all: destruct (layer_tree_lib s d l d' Hl Hnl) as [PS XS].
  all: assert (W1 : cwft n d' (ccompose t (layer_tree s d l))) by (apply (ccompose_cwft n d d'); auto).
  all: assert (ES : forall o, step tol o (OCompose false (layer_tree s d l)) t = HOk (ccompose t (layer_tree s d l))).
  all: try (intros o; cbn [step]; rewrite (pwf_shape _ _ _ PS); cbn [negb];
            rewrite (terms_all_cwf _ n d t Hc);
            [reflexivity | intros f _ _ Ho; apply Nat.eqb_eq; rewrite (pin_pwf _ _ _ PS XS); exact Ho]).
  all: change (distill_step (os j) tol s d l t) with (fst (elim (os j) tol (ccompose t (layer_tree s d l)))).
  all: change (unpruned_step s d l t) with (ccompose t (layer_tree s d l)).
  all: change (layer_ops os s j d l) with [(os j, OCompose false (layer_tree s d l)); (os j, OElim)].
  all: unfold strip; cbn [filter keep_op snd].
  all: rewrite !run_cons; cbn [fst snd]; rewrite ES; rewrite run_cons; cbn [fst snd step]; rewrite !run_nil.
  all: split; [reflexivity|]; split; [apply elim_cwft; exact W1|]; split; [reflexivity | exact W1].
Qed.

Lemma strip_app a b : strip (a ++ b) = strip a ++ strip b.
Proof. unfold strip. apply filter_app. Qed.

(* ---------------------------------------------------------------- all layers *)
Theorem distill_from_is_run os tol s n : forall ls j d dout t,
  head_free ls = true -> layers_out_dim d ls = Some dout -> Forall layer_wf ls -> cwft n d t ->
  exists r U, distill_from os tol s j d t ls = Some r /\ run tol t (net_ops os s j d ls) = HOk r /\ cwft n dout r /\
              distill_unpruned_from s d t ls = Some U /\ run tol t (strip (net_ops os s j d ls)) = HOk U /\ cwft n dout U.
Proof.
  induction ls as [|l ls IH]; intros j d dout t Hh Hd Hw Ht.
  - cbn [layers_out_dim] in Hd. inversion Hd; subst dout. exists t, t. repeat split; auto; apply Ht.
  - cbn [layers_out_dim] in Hd. destruct (layer_out_dim d l) as [d1|] eqn:El; [|discriminate].
    apply Forall_cons_iff in Hw as [Hwl Hw].
    cbn [head_free forallb] in Hh. apply andb_true_iff in Hh as [Hl Hh]. apply negb_true_iff in Hl.
    destruct (layer_ops_run os tol s n j d d1 l t Hl El Hwl Ht) as [R1 [W1 [R2 W2]]].
    destruct (IH (S j) d1 dout _ Hh Hd Hw W1) as [r [_ [Er [Rr [Wr _]]]]].
    destruct (IH (S j) d1 dout _ Hh Hd Hw W2) as [_ [U [_ [_ [_ [EU [RU WU]]]]]]].
    exists r, U. cbn [distill_from distill_unpruned_from net_ops]. rewrite El.
    rewrite strip_app, !run_app, R1, R2. auto 10.
Qed.
(* conversely: whatever the builder model returns on a head-free list is the result of the pipeline *)
Corollary distill_from_run os tol s n ls j d dout t r :
  head_free ls = true -> layers_out_dim d ls = Some dout -> Forall layer_wf ls -> cwft n d t ->
  distill_from os tol s j d t ls = Some r -> run tol t (net_ops os s j d ls) = HOk r.
Proof.
  intros Hh Hd Hw Ht E. destruct (distill_from_is_run os tol s n ls j d dout t Hh Hd Hw Ht) as [r' [U [E' [R _]]]].
  rewrite E in E'. inversion E'; subst r'. exact R.
Qed.
Corollary distill_unpruned_run os tol s n ls j d dout t U :
  head_free ls = true -> layers_out_dim d ls = Some dout -> Forall layer_wf ls -> cwft n d t ->
  distill_unpruned_from s d t ls = Some U -> run tol t (strip (net_ops os s j d ls)) = HOk U.
Proof.
  intros Hh Hd Hw Ht E. destruct (distill_from_is_run os tol s n ls j d dout t Hh Hd Hw Ht) as [r' [U' [_ [_ [_ [E' [R _]]]]]]].
  rewrite E in E'. inversion E'; subst U'. exact R.
Qed.

(* the builder without a precondition tree *)
Lemma id_tree_cwft n : cwft n n (id_tree n).
Proof. apply (inv_wf n n [] (id_tree n)). apply id_tree_inv. Qed.

Theorem distilled_is_pipeline os tol s n dout ls :
  head_free ls = true -> layers_out_dim n ls = Some dout -> Forall layer_wf ls ->
  (exists r U, distill os tol s n ls = Some r /\ run tol (id_tree n) (net_ops os s 0 n ls) = HOk r /\
               distill_unpruned s n ls = Some U /\ run tol (id_tree n) (strip (net_ops os s 0 n ls)) = HOk U) /\
  (forall ox, In ox (net_ops os s 0 n ls) -> eff_op (snd ox)) /\ pinv tol (id_tree n).
Proof.
  intros Hh Hd Hw. split; [|split; [apply net_ops_eff; exact Hh | apply id_tree_pinv]].
  destruct (distill_from_is_run os tol s n ls 0%nat n dout (id_tree n) Hh Hd Hw (id_tree_cwft n))
    as [r [U [E [R [_ [EU [RU _]]]]]]].
  exists r, U. auto.
Qed.

(* ---------------------------------------------------------------- the counting sentence, any legal start tree *)
(* 1. mask: the terminals of the distilled tree are the terminals of the un-pruned reference selected by a mask that
      selects every non-empty activation region (never reordered, duplicated or altered); any tol >= 0 *)
Theorem distilled_from_count_mask os tol s n ls j d dout t r U : 0 <= tol ->
  head_free ls = true -> layers_out_dim d ls = Some dout -> Forall layer_wf ls -> cwft n d t -> pinv tol t ->
  exact_hist tol t (net_ops os s j d ls) ->
  distill_from os tol s j d t ls = Some r -> distill_unpruned_from s d t ls = Some U ->
  exists m : list bool,
    length m = length (leaf_regions [] U) /\
    leaf_funcs r = select m (leaf_funcs U) /\
    Forall2 (fun (b : bool) (Rg : rows) => ne Rg -> b = true) m (leaf_regions [] U).
Proof.
  intros Htol Hh Hd Hw Ht Hp Hex Er EU.
  apply (net_mask tol (net_ops os s j d ls) t r U Htol (net_ops_eff os s ls j d Hh) Hex Hp).
  - eapply distill_from_run; eauto.
  - eapply distill_unpruned_run; eauto.
Qed.
(* 2. lower bound: at least as many terminals as activation regions known to be non-empty (e.g. full-dimensional) *)
Theorem distilled_from_count_lower os tol s n ls j d dout t r U (full : list bool) : 0 <= tol ->
  head_free ls = true -> layers_out_dim d ls = Some dout -> Forall layer_wf ls -> cwft n d t -> pinv tol t ->
  exact_hist tol t (net_ops os s j d ls) ->
  distill_from os tol s j d t ls = Some r -> distill_unpruned_from s d t ls = Some U ->
  Forall2 (fun (b : bool) (Rg : rows) => b = true -> interior Rg) full (leaf_regions [] U) ->
  (count full <= nleaves r)%nat.
Proof.
  intros Htol Hh Hd Hw Ht Hp Hex Er EU.
  apply (net_lower_bound_interior tol (net_ops os s j d ls) t r U full Htol (net_ops_eff os s ls j d Hh) Hex Hp).
  - eapply distill_from_run; eauto.
  - eapply distill_unpruned_run; eauto.
Qed.

(* the operations of a layer list that ends with an activation layer end with an elimination *)
Lemma net_ops_app os s : forall l1 j d d1 l2, layers_out_dim d l1 = Some d1 ->
  net_ops os s j d (l1 ++ l2) = net_ops os s j d l1 ++ net_ops os s (length l1 + j) d1 l2.
Proof.
  induction l1 as [|l l1 IH]; intros j d d1 l2 Hd; cbn [layers_out_dim] in Hd.
  - inversion Hd; subst. reflexivity.
  - cbn [app net_ops length]. destruct (layer_out_dim d l) as [d'|]; [|discriminate].
    rewrite (IH (S j) d' d1 l2 Hd), <- app_assoc, <- plus_n_Sm. reflexivity.
Qed.
Lemma net_ops_last_elim os s ls l j d dout : is_head l = false -> (forall a, l <> LLinear a) ->
  layers_out_dim d (ls ++ [l]) = Some dout ->
  exists pre o, net_ops os s j d (ls ++ [l]) = pre ++ [(o, OElim)].
Proof.
  intros Hh Hn Hd. rewrite layers_out_dim_app in Hd.
  destruct (layers_out_dim d ls) as [d1|] eqn:E1; cbn [obind] in Hd; [|discriminate].
  rewrite (net_ops_app os s ls j d d1 [l] E1). cbn [net_ops layers_out_dim] in *.
  destruct (layer_out_dim d1 l) as [d2|]; [|discriminate]. rewrite app_nil_r.
  exists (net_ops os s j d ls ++ [(os (length ls + j)%nat, OCompose false (layer_tree s d1 l))]), (os (length ls + j)%nat).
  rewrite <- app_assoc. f_equal.
  destruct l as [a | i | i alpha | i | i | | c]; cbn [is_head] in Hh; try discriminate; try reflexivity.
  exfalso. eapply Hn; reflexivity.
Qed.

(* 3. tol = 0, the last layer is an activation layer (so the last operation is an elimination):
      #terminals of the distilled tree = #non-empty closed activation regions of the network *)
Theorem distilled_from_count_exact_tol0 os s n ls l j d dout t r U (closed : list bool) :
  head_free (ls ++ [l]) = true -> (forall a, l <> LLinear a) ->
  layers_out_dim d (ls ++ [l]) = Some dout -> Forall layer_wf (ls ++ [l]) -> cwft n d t -> pinv 0 t ->
  exact_hist 0 t (net_ops os s j d (ls ++ [l])) ->
  distill_from os 0 s j d t (ls ++ [l]) = Some r -> distill_unpruned_from s d t (ls ++ [l]) = Some U ->
  Forall2 (fun (b : bool) (Rg : rows) => b = true <-> ne Rg) closed (leaf_regions [] U) ->
  nleaves r = count closed.
Proof.
  intros Hh Hn Hd Hw Ht Hp Hex Er EU Hc.
  assert (Hl : is_head l = false).
  { unfold head_free in Hh. rewrite forallb_app in Hh. apply andb_true_iff in Hh as [_ Hh].
    cbn [forallb] in Hh. rewrite andb_true_r in Hh. apply negb_true_iff in Hh. exact Hh. }
  pose proof (distill_from_run os 0 s n _ j d dout t r Hh Hd Hw Ht Er) as R.
  pose proof (distill_unpruned_run os 0 s n _ j d dout t U Hh Hd Hw Ht EU) as RU.
  pose proof (net_ops_eff os s _ j d Hh) as Heff.
  destruct (net_ops_last_elim os s ls l j d dout Hl Hn Hd) as [pre [o Eo]].
  rewrite Eo in *.
  apply (net_exact_tol0_last pre t r U o closed); auto.
  intros ox Hin. apply Heff. apply in_or_app. left. exact Hin.
Qed.

(* ---------------------------------------------------------------- without a precondition tree: distill *)
Theorem distilled_count_mask os tol s n ls dout r U : 0 <= tol ->
  head_free ls = true -> layers_out_dim n ls = Some dout -> Forall layer_wf ls ->
  exact_hist tol (id_tree n) (net_ops os s 0 n ls) ->
  distill os tol s n ls = Some r -> distill_unpruned s n ls = Some U ->
  exists m : list bool,
    length m = length (leaf_regions [] U) /\
    leaf_funcs r = select m (leaf_funcs U) /\
    Forall2 (fun (b : bool) (Rg : rows) => ne Rg -> b = true) m (leaf_regions [] U).
Proof.
  intros Htol Hh Hd Hw. apply (distilled_from_count_mask os tol s n ls 0%nat n dout); auto.
  - apply id_tree_cwft.
  - apply id_tree_pinv.
Qed.
Theorem distilled_count_lower os tol s n ls dout r U (full : list bool) : 0 <= tol ->
  head_free ls = true -> layers_out_dim n ls = Some dout -> Forall layer_wf ls ->
  exact_hist tol (id_tree n) (net_ops os s 0 n ls) ->
  distill os tol s n ls = Some r -> distill_unpruned s n ls = Some U ->
  Forall2 (fun (b : bool) (Rg : rows) => b = true -> interior Rg) full (leaf_regions [] U) ->
  (count full <= nleaves r)%nat.
Proof.
  intros Htol Hh Hd Hw. apply (distilled_from_count_lower os tol s n ls 0%nat n dout); auto.
  - apply id_tree_cwft.
  - apply id_tree_pinv.
Qed.
Theorem distilled_count_exact_tol0 os s n ls l dout r U (closed : list bool) :
  head_free (ls ++ [l]) = true -> (forall a, l <> LLinear a) ->
  layers_out_dim n (ls ++ [l]) = Some dout -> Forall layer_wf (ls ++ [l]) ->
  exact_hist 0 (id_tree n) (net_ops os s 0 n (ls ++ [l])) ->
  distill os 0 s n (ls ++ [l]) = Some r -> distill_unpruned s n (ls ++ [l]) = Some U ->
  Forall2 (fun (b : bool) (Rg : rows) => b = true <-> ne Rg) closed (leaf_regions [] U) ->
  nleaves r = count closed.
Proof.
  intros Hh Hn Hd Hw. apply (distilled_from_count_exact_tol0 os s n ls l 0%nat n dout); auto.
  - apply id_tree_cwft.
  - apply id_tree_pinv.
Qed.

(* oracles that are exact everywhere (an exact LP solver) satisfy the oracle hypothesis of every pipeline *)
Lemma exact_hist_of_oexact tol : forall ops init,
  (forall ox, In ox ops -> snd ox = OElim -> oexact (fst ox) /\ mir_sound (fst ox) tol) -> exact_hist tol init ops.
Proof.
  induction ops as [|ox ops IH]; intros init H; cbn [exact_hist]; [exact I|]. split.
  - intros E. destruct (H ox (or_introl eq_refl) E) as [A B]. split; [intros r _; apply A | exact B].
  - intros t1 _. apply IH. intros oy Hin. apply H. right. exact Hin.
Qed.
Lemma net_ops_oracles os s : forall ls j d ox, In ox (net_ops os s j d ls) -> exists k, fst ox = os k.
Proof.
  induction ls as [|l ls IH]; intros j d ox Hin; cbn [net_ops] in Hin; [contradiction|].
  destruct (layer_out_dim d l) as [d'|]; [|contradiction].
  apply in_app_or in Hin as [Hin|Hin]; [|eapply IH; eauto]. exists j.
  destruct l; cbn [layer_ops In] in Hin; repeat (destruct Hin as [<-|Hin]; [reflexivity|]); contradiction.
Qed.
Theorem net_ops_exact_hist os tol s ls j d t :
  (forall k, oexact (os k) /\ mir_sound (os k) tol) -> exact_hist tol t (net_ops os s j d ls).
Proof.
  intros H. apply exact_hist_of_oexact. intros ox Hin _.
  destruct (net_ops_oracles os s ls j d ox Hin) as [k ->]. apply H.
Qed.

(* the un-pruned reference of this file is, as a structural tree, the reference tree of Arch.v *)
Theorem distill_unpruned_erase s : forall ls d dout t U,
  head_free ls = true -> layers_out_dim d ls = Some dout ->
  distill_unpruned_from s d t ls = Some U -> erase U = distill_ref_from s d (erase t) ls.
Proof.
  induction ls as [|l ls IH]; intros d dout t U Hh Hd E; cbn [distill_unpruned_from distill_ref_from layers_out_dim] in *.
  - inversion E; subst. reflexivity.
  - destruct (layer_out_dim d l) as [d1|] eqn:El; [|discriminate].
    cbn [head_free forallb] in Hh. apply andb_true_iff in Hh as [Hl Hh]. apply negb_true_iff in Hl.
    rewrite (IH d1 dout _ U Hh Hd E). f_equal.
    destruct l as [a | i | i alpha | i | i | | c]; cbn [is_head] in Hl; try discriminate.
    1: { cbn [unpruned_step layer_tree]. rewrite erase_capply_func. apply apply_func_as_compose. }
    all: match goal with |- context [unpruned_step _ _ ?L _] => set (l := L) in * end.
    all: assert (Hnl : forall a, l <> LLinear a) by (intros a; unfold l; discriminate).
    all: destruct (layer_tree_lib s d l d1 El Hnl) as [PS _].
    all: change (unpruned_step s d l t) with (ccompose t (layer_tree s d l)).
    all: unfold ccompose; rewrite erase_clift by apply PS; reflexivity.
Qed.
Corollary distill_unpruned_is_ref s n ls dout U :
  head_free ls = true -> layers_out_dim n ls = Some dout ->
  distill_unpruned s n ls = Some U -> erase U = distill_ref s n ls.
Proof. intros Hh Hd E. exact (distill_unpruned_erase s ls n dout (id_tree n) U Hh Hd E). Qed.

(* Distill/Npz.v -- builder.rs::read_layers on an abstract archive.
   An npz file is a zip archive of named arrays; what read_layers sees through ndarray-npy is (1) the list of entry names
   (`names()`, any order), (2) `by_name(name)` = the array stored under exactly that name, decoded as a 2-D resp. 1-D
   f64 array, an Err when the entry is missing or has another dimensionality / element type.  The byte level (zip
   directory, npy headers, element decoding) is ndarray-npy's and zip's and is not modelled.

   Names are byte strings (the model covers ASCII names; Rust's `\d` also matches non-ASCII decimal digits, which the
   documented dialect never uses). *)
From Coq Require Import String Ascii Sorted Permutation.
From AT Require Import Num Vec Aff Arch.

Inductive payload :=
| PMat (ncols : nat) (m : mat)     (* 2-D f64 array with ncols columns *)
| PVec (v : vec)                   (* 1-D f64 array *)
| POther.                          (* anything else (other rank / element type) *)
Definition archive := list (string * payload).
Inductive rres := ROk (ls : list layer) | RErr | RPanic.

(* ---------------------------------------------------------------- names.sort_unstable(): byte-wise lexicographic order *)
Fixpoint str_leb (a b : string) : bool :=
  match a, b with
  | EmptyString, _ => true
  | String _ _, EmptyString => false
  | String x a', String y b' =>
      if Nat.ltb (nat_of_ascii x) (nat_of_ascii y) then true
      else if Nat.eqb (nat_of_ascii x) (nat_of_ascii y) then str_leb a' b' else false
  end.
Fixpoint ins_name (x : string) (l : list string) : list string :=
  match l with
  | [] => [x]
  | y :: l' => if str_leb x y then x :: l else y :: ins_name x l'
  end.
Definition sort_names (l : list string) : list string := fold_right ins_name [] l.

(* ---------------------------------------------------------------- Regex ^(\d+)\.([A-Za-z._]*?)(\.npy)?$ *)
Definition is_digit (c : ascii) : bool :=
  let n := nat_of_ascii c in Nat.leb 48 n && Nat.leb n 57.
Definition is_kind_char (c : ascii) : bool :=
  let n := nat_of_ascii c in
  (Nat.leb 65 n && Nat.leb n 90) || (Nat.leb 97 n && Nat.leb n 122) || Nat.eqb n 46 || Nat.eqb n 95.
(* maximal prefix of digits, and the rest *)
Fixpoint span_digits (s : string) : string * string :=
  match s with
  | EmptyString => (EmptyString, EmptyString)
  | String c s' => if is_digit c then let (d, r) := span_digits s' in (String c d, r) else (EmptyString, s)
  end.
Fixpoint all_kind_chars (s : string) : bool :=
  match s with EmptyString => true | String c s' => is_kind_char c && all_kind_chars s' end.
(* the lazy group followed by the optional `.npy` and the end anchor: one trailing .npy is not part of the kind *)
Fixpoint strip_npy (r : string) : string :=
  if String.eqb r ".npy"%string then EmptyString
  else match r with EmptyString => EmptyString | String c r' => String c (strip_npy r') end.
(* Some (index digits, kind) when the name matches *)
Definition parse_name (s : string) : option (string * string) :=
  let (ds, rest) := span_digits s in
  match ds, rest with
  | String _ _, String dot r =>
      if Nat.eqb (nat_of_ascii dot) 46 && all_kind_chars r then Some (ds, strip_npy r) else None
  | _, _ => None
  end.

(* ---------------------------------------------------------------- the loop of read_layers *)
Fixpoint find_entry (ar : archive) (name : string) : option payload :=
  match ar with
  | [] => None
  | (n, p) :: ar' => if String.eqb n name then Some p else find_entry ar' name
  end.

Fixpoint rl_process (ar : archive) (names : list string) (dim : nat) (acc : list layer) : rres :=
  match names with
  | [] => ROk acc
  | nm :: rest =>
      match parse_name nm with
      | None => rl_process ar rest dim acc                       (* no match: continue *)
      | Some (idx, kind) =>
          if String.eqb kind "relu"%string then rl_process ar rest dim (acc ++ map LReLU (seq 0 dim))
          else if String.eqb kind "hard_tanh"%string then rl_process ar rest dim (acc ++ map LHardTanh (seq 0 dim))
          else if String.eqb kind "hard_sigmoid"%string then rl_process ar rest dim (acc ++ map LHardSigmoid (seq 0 dim))
          else if String.eqb kind "linear.weights"%string then
            match find_entry ar (idx ++ ".linear.weights.npy")%string with
            | Some (PMat c m) =>
                match find_entry ar (idx ++ ".linear.bias.npy")%string with
                | Some (PVec b) =>
                    (* AffFunc::from_mats asserts rows = len(bias) *)
                    if Nat.eqb (length m) (length b)
                    then rl_process ar rest (length m) (acc ++ [LLinear {| a_in := c; a_mat := m; a_bias := b |}])
                    else RPanic
                | _ => RErr
                end
            | _ => RErr
            end
          else if String.eqb kind "linear.bias"%string then rl_process ar rest dim acc
          else if String.eqb kind "layers"%string then rl_process ar rest dim acc
          else RPanic                                             (* panic!(Unknown layer type) *)
      end
  end.
Definition read_layers_model (ar : archive) : rres := rl_process ar (sort_names (map fst ar)) 0 [].

(* ================================================================ the documented dialect *)
Inductive flayer := FLinear (a : aff) | FRelu | FHardTanh | FHardSigmoid.

Definition digit_char (k : nat) : ascii := ascii_of_nat (48 + k).
(* zero-padded three-digit decimal index *)
Definition pad3 (i : nat) : string :=
  String (digit_char (i / 100)) (String (digit_char ((i mod 100) / 10)) (String (digit_char ((i mod 100) mod 10)) EmptyString)).

Definition act_kind (f : flayer) : string :=
  match f with FRelu => "relu"%string | FHardTanh => "hard_tanh"%string | FHardSigmoid => "hard_sigmoid"%string | FLinear _ => "linear.weights"%string end.
(* entries of layer number i; sfx: the activation marker is stored with (numpy) or without the .npy suffix;
   pay: the content of a marker entry (never read) *)
Definition encode_one (sfx : bool) (pay : payload) (i : nat) (f : flayer) : archive :=
  match f with
  | FLinear a => [((pad3 i ++ ".linear.weights.npy")%string, PMat (a_in a) (a_mat a));
                  ((pad3 i ++ ".linear.bias.npy")%string, PVec (a_bias a))]
  | _ => [((pad3 i ++ "." ++ act_kind f ++ (if sfx then ".npy" else ""))%string, pay)]
  end.
Fixpoint encode_from (sfx : nat -> bool) (pay : nat -> payload) (i : nat) (fl : list flayer) : archive :=
  match fl with
  | [] => []
  | f :: fl' => encode_one (sfx i) (pay i) i f ++ encode_from sfx pay (S i) fl'
  end.
Definition encode (sfx : nat -> bool) (pay : nat -> payload) (fl : list flayer) : archive := encode_from sfx pay 0 fl.

(* what the file means: one activation entry per neuron of the preceding linear layer *)
Fixpoint expand_from (dim : nat) (fl : list flayer) : list layer :=
  match fl with
  | [] => []
  | FLinear a :: fl' => LLinear a :: expand_from (outdim a) fl'
  | FRelu :: fl' => map LReLU (seq 0 dim) ++ expand_from dim fl'
  | FHardTanh :: fl' => map LHardTanh (seq 0 dim) ++ expand_from dim fl'
  | FHardSigmoid :: fl' => map LHardSigmoid (seq 0 dim) ++ expand_from dim fl'
  end.
Definition expand (fl : list flayer) : list layer := expand_from 0 fl.

Definition flayer_ok (f : flayer) : Prop :=
  match f with FLinear a => length (a_mat a) = length (a_bias a) | _ => True end.

(* entries that read_layers passes over: names that do not match the pattern, and the kinds `layers`, `linear.bias` *)
Definition ignorable (nm : string) : bool :=
  match parse_name nm with
  | None => true
  | Some (_, kind) => String.eqb kind "layers"%string || String.eqb kind "linear.bias"%string
  end.

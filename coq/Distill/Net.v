(* Distill/Net.v -- afftree_from_layers_generic (distill/builder.rs:435-522) as a model on arena-shaped trees, with the
   LP solver / mirror heuristic as oracles (one per layer), and the theorem that the distilled tree computes exactly
   the network (C01).

   The model follows the code layer by layer:
     Linear a      -> apply_func(a)
     ReLU / LeakyReLU / HardTanh(-1,1) / HardSigmoid on neuron i
                   -> compose::<false>(schema tree); infeasible_elimination()
     Argmax / ClassChar c
                   -> compose::<true>(schema tree)            (pruning on the fly)
   with a dimension panic (None) exactly where layer_out_dim (Arch.v) says the layer does not fit.  The starting tree
   is the precondition tree if one is given (any well-formed tree on R^n, total or partial, with cached states),
   otherwise the identity terminal. *)
From AT Require Import Num Vec Aff AffOps PTree Ops Reduce Cells Abs Cache Elim ElimEval ElimCache CPrune CPruneEval CPruneCache.
From AT Require Import WfC OpsWf ElimWf CPruneWf Schema SchemaSpec Arch ArchProofs.

Definition is_head (l : layer) : bool := match l with LArgmax | LClassChar _ => true | _ => false end.

Definition distill_step (o : oracle) (tol s : Qc) (d : nat) (l : layer) (t : ctree) : ctree :=
  match l with
  | LLinear a => capply_func a t
  | LArgmax | LClassChar _ => fst (compose_prune o tol t (layer_tree s d l))
  | _ => fst (elim o tol (ccompose t (layer_tree s d l)))
  end.

(* os j: the oracle that answers during layer j *)
Fixpoint distill_from (os : nat -> oracle) (tol s : Qc) (j d : nat) (t : ctree) (ls : list layer) : option ctree :=
  match ls with
  | [] => Some t
  | l :: ls' =>
      match layer_out_dim d l with
      | Some d' => distill_from os tol s (S j) d' (distill_step (os j) tol s d l t) ls'
      | None => None
      end
  end.

(* no precondition: the identity terminal (AffTree::with_capacity(dim, _)) *)
Definition id_tree (n : nat) : ctree := CN 0 true (sc_identity n) Indet CU CU.
Definition distill (os : nat -> oracle) (tol s : Qc) (n : nat) (ls : list layer) : option ctree :=
  distill_from os tol s 0 n (id_tree n) ls.

(* reference semantics with a precondition tree: undefined where the precondition is *)
Definition net_sem (s : Qc) (pre : ctree) (ls : list layer) (x : vec) : option vec :=
  option_map (net_eval s ls) (cev pre x).

(* ---------------------------------------------------------------- invariants carried along the layers *)
Definition root_live (t : ctree) : Prop := c_state t <> Infeas.

Lemma marks_ok_root x t : root_live t -> marks_kids x [] t -> marks_ok x [] t.
Proof. destruct t as [|i l p st c0 c1]; simpl; [auto|]. unfold root_live; cbn [c_state]. intros Hr [H0 H1]. split; [intros E; contradiction | auto]. Qed.

(* new nodes are Indeterminate, old nodes keep state and path *)
Lemma cgraft_marks s tf x : forall L st i q, (st = Infeas -> ~ in_rows q x) -> marks_ok x q (cgraft s tf L st i).
Proof.
  induction L as [| f | p ch IH] using ptree_ind'; intros st i q Hst.
  - exact I.
  - cbn [cgraft marks_ok]. auto.
  - destruct ch as [|l0 [|l1 [|l2 ch]]]; try exact I.
    apply Forall_cons_iff in IH as [IH0 IH]. apply Forall_cons_iff in IH as [IH1 _].
    cbn [cgraft marks_ok]. split; [exact Hst|]. split; [apply IH0 | apply IH1]; discriminate.
Qed.
Lemma clift_marks s L x : forall t q, marks_ok x q t -> marks_ok x q (clift s L t).
Proof.
  induction t as [|i leaf f st c0 IH0 c1 IH1]; intros q H; [exact I|].
  destruct H as [Hs [H0 H1]]. cbn [clift]. destruct leaf.
  - apply cgraft_marks; auto.
  - cbn [marks_ok]. auto.
Qed.
Lemma cmap_marks h x n m : forall t, cwf n m t -> forall q, marks_ok x q t -> marks_ok x q (cmap_terms h t).
Proof.
  induction 1 as [| i f st Hw Hi Ho | i p st c0 c1 Hw Hi Ho He H0 IH0 H1 IH1]; intros q H; [exact I| |].
  - destruct H as [Hs _]. cbn [cmap_terms marks_ok]. auto.
  - destruct H as [Hs [M0 M1]]. cbn [cmap_terms marks_ok]. auto.
Qed.

(* the root keeps its state (or becomes a fresh node) *)
Lemma root_live_cmap h t : root_live t -> root_live (cmap_terms h t).
Proof. destruct t as [|i [|] f st c0 c1]; auto. Qed.
Lemma root_live_cgraft s tf L st i : st <> Infeas -> root_live (cgraft s tf L st i).
Proof.
  unfold root_live. destruct L as [| f | p [|l0 [|l1 [|l2 ch]]]]; cbn [cgraft c_state]; auto; discriminate.
Qed.
Lemma root_live_clift s L t : root_live t -> root_live (clift s L t).
Proof.
  destruct t as [|i [|] f st c0 c1]; auto. cbn [clift]. apply root_live_cgraft.
Qed.
Lemma root_live_elim o tol t : root_live t -> root_live (fst (elim o tol t)).
Proof.
  unfold root_live, elim. destruct t as [|i leaf p st c0 c1]; [auto|]. cbn [c_state]. intros H.
  destruct leaf; [exact H|]. rewrite elim_sub_unfold. cbv zeta.
  destruct (do_child0 o tol st ([] ++ [row0 p]) (row0 p) c0 k0) as [[sub0 k2] fresh0].
  destruct c1 as [|i1 l1 p1 s1' c10 c11]; [exact H|].
  destruct (visit o tol st ([] ++ [row1 p]) (row1 p) (CN i1 l1 p1 s1' c10 c11) k2) as [[[s1 k3] fr1] skip1].
  destruct (fr1 && c_exists sub0 && (is_feas (c_state sub0) && is_infeas s1 || is_infeas (c_state sub0) && is_feas s1)).
  - destruct (is_feas s1).
    + destruct (elim_sub o tol false ([] ++ [row1 p]) s1 (CN i1 l1 p1 s1' c10 c11) k3) as [r1 k4]. exact H.
    + exact H.
  - destruct (if skip1 then (set_st s1 (CN i1 l1 p1 s1' c10 c11), k3)
              else elim_sub o tol false ([] ++ [row1 p]) s1 (CN i1 l1 p1 s1' c10 c11) k3) as [sub1 k4]. exact H.
Qed.
Lemma root_live_graftp o tol s tf : forall L top st i q k, st <> Infeas ->
  root_live (fst (graftp o tol s tf L top st i q k)).
Proof.
  unfold root_live. induction L as [| f | p ch IH] using ptree_ind'; intros top st i q k Hst.
  - discriminate.
  - exact Hst.
  - destruct ch as [|l0 [|l1 [|l2 ch]]]; try discriminate.
    apply Forall_cons_iff in IH as [IH0 IH]. apply Forall_cons_iff in IH as [IH1 _].
    cbn [graftp].
    destruct (if pexists l0
              then let '(b, k') := explore o tol top st (q ++ [row0 (s_dec s p tf)]) k in (b || negb (pexists l1), k')
              else (false, k)) as [keep0 k1].
    destruct (if pexists l1
              then let '(b, k') := explore o tol top st (q ++ [row1 (s_dec s p tf)]) k1 in (b || negb keep0, k')
              else (false, k1)) as [keep1 k2].
    destruct (pexists l0 && pexists l1 && xorb keep0 keep1).
    + destruct keep1; [apply IH1 | apply IH0]; discriminate.
    + destruct (if keep1 then graftp o tol s tf l1 false Indet new_idx (q ++ [row1 (s_dec s p tf)]) k2 else (CU, k2)) as [c1 k3].
      destruct (if keep0 then graftp o tol s tf l0 false Indet new_idx (q ++ [row0 (s_dec s p tf)]) k3 else (CU, k3)) as [c0 k4].
      exact Hst.
Qed.
Lemma root_live_cprune o tol s L t : root_live t -> root_live (fst (cprune o tol s L t [] k0)).
Proof.
  destruct t as [|i leaf f st c0 c1]; [auto|]. intros H. cbn [cprune]. destruct leaf.
  - apply root_live_graftp. exact H.
  - destruct (cprune o tol s L c0 ([] ++ [row0 f]) k0) as [c0' k1].
    destruct (cprune o tol s L c1 ([] ++ [row1 f]) k1) as [c1' k2]. exact H.
Qed.

(* from cwf to the side conditions of the evaluation theorems *)
Lemma cwf_cbin n m t : cwf n m t -> cbin t.
Proof.
  induction 1 as [| i f st Hw Hi Ho | i p st c0 c1 Hw Hi Ho He H0 IH0 H1 IH1]; cbn [cbin]; auto.
  - split; [discriminate | auto].
  - split; [|auto]. intros _. destruct Hw as [_ Hl]. unfold outdim in Ho. split; [exact Ho | rewrite <- Hl; exact Ho].
Qed.
Lemma cwf_terms_ok n m t : cwf n m t -> terms_ok comp_schema t.
Proof.
  induction 1 as [| i f st Hw Hi Ho | i p st c0 c1 Hw Hi Ho He H0 IH0 H1 IH1]; cbn [terms_ok]; auto.
  - split; [|auto]. intros _. apply keeps_rows_comp. destruct Hw as [_ Hl]. symmetry. exact Hl.
  - split; [discriminate | auto].
Qed.
Lemma pwf_bin2 n m L : pwf n m L -> bin2 L.
Proof.
  intros [_ [_ [Hb Hs]]]. induction Hs as [| f | p l0 l1 He H0 IH0 H1 IH1]; try constructor.
  - inversion Hb as [| | p' ch' Ha Hbi Hch]; subst. split; auto.
  - inversion Hb as [| | p' ch' Ha Hbi Hch]; subst. apply Forall_cons_iff in Hch as [Hc _]. auto.
  - inversion Hb as [| | p' ch' Ha Hbi Hch]; subst. apply Forall_cons_iff in Hch as [_ Hch].
    apply Forall_cons_iff in Hch as [Hc _]. auto.
Qed.

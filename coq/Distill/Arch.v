(* Distill/Arch.v -- src/distill/arch.rs (Architecture: shape-tracking builder, extract_range) and the shape level of
   src/distill/builder.rs (Layer, afftree_from_layers_generic), modelled as coded; and, independently of the code,
   the reference notions the property C18 speaks about: output dimension of a layer list (dimension compatibility)
   and the reference semantics net_eval of a layer list over exact rationals.

   Two variants of the two places that were repaired in /repo are kept: `v0 = true` is the code as found
   (Architecture::argmax leaves current_shape untouched and accepts every shape; afftree_from_layers_generic keeps its
   `dim` variable stale after Argmax / ClassChar), `v0 = false` is the repaired code. *)
From AT Require Import Num Vec Aff PTree Schema.

(* ================================================================ layers (builder.rs: enum Layer) *)
Inductive layer :=
| LLinear (a : aff)
| LReLU (i : nat)
| LLeaky (i : nat) (alpha : Qc)
| LHardTanh (i : nat)
| LHardSigmoid (i : nat)
| LArgmax
| LClassChar (c : nat).

(* ---------------------------------------------------------------- reference: dimension compatibility.
   layer_out_dim d l = Some d'  iff  layer l can be applied to vectors of dimension d, and then yields dimension d'.
   Linear: the matrix has d columns, result = number of rows.  Activation on neuron i: i < d, dimension kept.
   Argmax / ClassChar c: at least two components (and c < d); the result is a single number. *)
Definition layer_out_dim (d : nat) (l : layer) : option nat :=
  match l with
  | LLinear a => if Nat.eqb (a_in a) d then Some (outdim a) else None
  | LReLU i => if Nat.ltb i d then Some d else None
  | LLeaky i _ => if Nat.ltb i d then Some d else None
  | LHardTanh i => if Nat.ltb i d then Some d else None
  | LHardSigmoid i => if Nat.ltb i d then Some d else None
  | LArgmax => if Nat.leb 2 d then Some 1%nat else None
  | LClassChar c => if Nat.ltb c d && Nat.leb 2 d then Some 1%nat else None
  end.
Fixpoint layers_out_dim (d : nat) (ls : list layer) : option nat :=
  match ls with
  | [] => Some d
  | l :: ls' => match layer_out_dim d l with Some d' => layers_out_dim d' ls' | None => None end
  end.
Definition layers_ok (d : nat) (ls : list layer) : bool :=
  match layers_out_dim d ls with Some _ => true | None => false end.
(* the output dimension after each layer of a dimension-consistent list *)
Fixpoint shapes_after (d : nat) (ls : list layer) : list nat :=
  match ls with
  | [] => []
  | l :: ls' => match layer_out_dim d l with Some d' => d' :: shapes_after d' ls' | None => [] end
  end.

Lemma layers_out_dim_app d l1 l2 :
  layers_out_dim d (l1 ++ l2) = obind (layers_out_dim d l1) (fun d' => layers_out_dim d' l2).
Proof.
  revert d; induction l1 as [|l l1 IH]; intros d; cbn [app layers_out_dim obind]; auto.
  destruct (layer_out_dim d l) as [d'|]; cbn [obind]; auto.
Qed.
Lemma shapes_after_app d l1 l2 d' : layers_out_dim d l1 = Some d' ->
  shapes_after d (l1 ++ l2) = shapes_after d l1 ++ shapes_after d' l2.
Proof.
  revert d; induction l1 as [|l l1 IH]; intros d H; cbn [app layers_out_dim shapes_after] in *.
  - inversion H; subst. reflexivity.
  - destruct (layer_out_dim d l) as [d1|]; try discriminate. cbn [app]. f_equal. apply IH; auto.
Qed.
Lemma shapes_after_length d ls d' : layers_out_dim d ls = Some d' -> length (shapes_after d ls) = length ls.
Proof.
  revert d; induction ls as [|l ls IH]; intros d H; cbn [layers_out_dim shapes_after length] in *; auto.
  destruct (layer_out_dim d l) as [d1|]; try discriminate. cbn [length]. f_equal. eapply IH; eauto.
Qed.
Lemma last_cons_default {A} (b : A) l d1 d2 : last (b :: l) d1 = last (b :: l) d2.
Proof. revert b; induction l as [|c l IH]; intros b; auto. change (last (c :: l) d1 = last (c :: l) d2). apply IH. Qed.
Lemma last_cons_shift {A} (a : A) l d : last (a :: l) d = last l a.
Proof. destruct l as [|b l]; auto. change (last (b :: l) d = last (b :: l) a). apply last_cons_default. Qed.
Lemma shapes_after_last d ls d' : layers_out_dim d ls = Some d' -> last (shapes_after d ls) d = d'.
Proof.
  revert d; induction ls as [|l ls IH]; intros d H; cbn [layers_out_dim shapes_after] in *.
  - inversion H; reflexivity.
  - destruct (layer_out_dim d l) as [d1|] eqn:E; try discriminate.
    rewrite last_cons_shift. apply IH; auto.
Qed.
Lemma layers_ok_app d l1 l2 : layers_ok d (l1 ++ l2) = true -> layers_ok d l1 = true.
Proof.
  unfold layers_ok. rewrite layers_out_dim_app. destruct (layers_out_dim d l1); cbn [obind]; auto.
Qed.

(* ================================================================ Architecture (arch.rs), as coded *)
Record arch := { ar_in : nat; ar_cur : nat; ar_ops : list (layer * nat) }.
Inductive shape_err := EDim (expected got : nat) | EIndex (index len : nat).
Inductive call :=
| CLinear (a : aff)
| CPRelu (i : nat) | CRelu
| CPLeaky (i : nat) (alpha : Qc) | CLeaky (alpha : Qc)
| CPHardTanh (i : nat) | CHardTanh
| CPHardSigmoid (i : nat) | CHardSigmoid
| CArgmax.

Definition arch_new (n : nat) : arch := {| ar_in := n; ar_cur := n; ar_ops := [] |}.
Definition arch_layers (st : arch) : list layer := map fst (ar_ops st).
Definition arch_shapes (st : arch) : list nat := map snd (ar_ops st).
(* self.operators.push((layer, shape)) with self.current_shape = shape *)
Definition arch_push (st : arch) (l : layer) (shape : nat) : arch :=
  {| ar_in := ar_in st; ar_cur := shape; ar_ops := ar_ops st ++ [(l, shape)] |}.

(* result of a builder call: None = Ok(()), Some e = Err(e); the state after the call (the receiver is &mut self) *)
Definition ares := (option shape_err * arch)%type.

(* linear: compatible_dim(aff.indim())?, then current_shape := outdim, push *)
Definition a_linear (st : arch) (a : aff) : ares :=
  if Nat.eqb (ar_cur st) (a_in a) then (None, arch_push st (LLinear a) (outdim a))
  else (Some (EDim (ar_cur st) (a_in a)), st).
(* partial_*: valid_index(idx)?, push with the current shape *)
Definition a_partial (mk : nat -> layer) (st : arch) (i : nat) : ares :=
  if Nat.ltb i (ar_cur st) then (None, arch_push st (mk i) (ar_cur st))
  else (Some (EIndex i (ar_cur st)), st).
(* relu() etc.: for idx in 0..current_shape.max_dim() { self.partial_*(idx)?; } *)
Fixpoint a_loop (mk : nat -> layer) (st : arch) (idxs : list nat) : ares :=
  match idxs with
  | [] => (None, st)
  | i :: rest => match a_partial mk st i with
                 | (None, st') => a_loop mk st' rest
                 | (Some e, st') => (Some e, st')
                 end
  end.
Definition a_whole (mk : nat -> layer) (st : arch) : ares := a_loop mk st (seq 0 (ar_cur st)).
(* argmax as found: push with the unchanged current shape, no check *)
Definition a_argmax_v0 (st : arch) : ares := (None, arch_push st LArgmax (ar_cur st)).
(* argmax as repaired: at least two components are required, the result has one *)
Definition a_argmax (st : arch) : ares :=
  if Nat.ltb (ar_cur st) 2 then (Some (EDim 2 (ar_cur st)), st) else (None, arch_push st LArgmax 1).

Definition arch_step (v0 : bool) (st : arch) (c : call) : ares :=
  match c with
  | CLinear a => a_linear st a
  | CPRelu i => a_partial LReLU st i
  | CRelu => a_whole LReLU st
  | CPLeaky i alpha => a_partial (fun j => LLeaky j alpha) st i
  | CLeaky alpha => a_whole (fun j => LLeaky j alpha) st
  | CPHardTanh i => a_partial LHardTanh st i
  | CHardTanh => a_whole LHardTanh st
  | CPHardSigmoid i => a_partial LHardSigmoid st i
  | CHardSigmoid => a_whole LHardSigmoid st
  | CArgmax => if v0 then a_argmax_v0 st else a_argmax st
  end.
Definition arch_run (v0 : bool) (st : arch) (cs : list call) : arch :=
  fold_left (fun s c => snd (arch_step v0 s c)) cs st.
(* the results of the calls of a sequence, in order *)
Fixpoint arch_results (v0 : bool) (st : arch) (cs : list call) : list (option shape_err) :=
  match cs with
  | [] => []
  | c :: cs' => fst (arch_step v0 st c) :: arch_results v0 (snd (arch_step v0 st c)) cs'
  end.

(* the layers a call stands for when the current shape is d (reference reading of the API: a whole-layer call is one
   activation per neuron) *)
Definition call_layers (d : nat) (c : call) : list layer :=
  match c with
  | CLinear a => [LLinear a]
  | CPRelu i => [LReLU i]
  | CRelu => map LReLU (seq 0 d)
  | CPLeaky i alpha => [LLeaky i alpha]
  | CLeaky alpha => map (fun j => LLeaky j alpha) (seq 0 d)
  | CPHardTanh i => [LHardTanh i]
  | CHardTanh => map LHardTanh (seq 0 d)
  | CPHardSigmoid i => [LHardSigmoid i]
  | CHardSigmoid => map LHardSigmoid (seq 0 d)
  | CArgmax => [LArgmax]
  end.

(* the invariant: the tracked shape is the output dimension of the queued layers, every recorded shape is the output
   dimension of the network up to and including its layer *)
Definition arch_inv (st : arch) : Prop :=
  layers_out_dim (ar_in st) (arch_layers st) = Some (ar_cur st) /\
  arch_shapes st = shapes_after (ar_in st) (arch_layers st).

(* ---------------------------------------------------------------- extract_range, as coded.
   `iter.skip(start - 1).next()` is rendered as nth_error (start - 1), the iterator that remains afterwards as
   skipn start. *)
Inductive xres := XOk (st : arch) | XErr (e : shape_err).
Definition extract_range (st : arch) (s e : nat) : xres :=
  let n := length (ar_ops st) in
  if Nat.leb e s || Nat.ltb n e then XErr (EIndex e n)
  else
    match (if Nat.eqb s 0 then Some (ar_ops st, ar_in st)
           else match nth_error (ar_ops st) (s - 1) with
                | None => None
                | Some (_, sh) => Some (skipn s (ar_ops st), sh)
                end) with
    | None => XErr (EIndex s n)
    | Some (rest, insh) =>
        let taken := firstn (e - s) rest in
        XOk {| ar_in := insh; ar_cur := last (map snd taken) insh; ar_ops := taken |}
    end.

(* ================================================================ shape level of afftree_from_layers_generic (no precondition).
   `dim` is the local variable of the function, `tdim` the actual output dimension of the terminals of the tree built
   so far.  Panic sources, as coded: the assert on Linear, the `row < dim` / `clazz < dim` / `dim >= 2` asserts of
   the schema constructors, the out-of-bounds index in schema::argmax for dim < 2, and ndarray's shape panic when a
   node function with `dim` columns is multiplied with a terminal that has `tdim` rows.
   v0 = true: `dim` is not updated after Argmax / ClassChar (code as found). *)
Inductive dres := DOk (dim tdim : nat) | DPanic.
Definition distill_layer (v0 : bool) (dim tdim : nat) (l : layer) : dres :=
  match l with
  | LLinear a => if Nat.eqb (a_in a) dim && Nat.eqb (a_in a) tdim then DOk (outdim a) (outdim a) else DPanic
  | LReLU i => if Nat.ltb i dim && Nat.eqb dim tdim then DOk dim dim else DPanic
  | LLeaky i _ => if Nat.ltb i dim && Nat.eqb dim tdim then DOk dim dim else DPanic
  | LHardTanh i => if Nat.ltb i dim && Nat.eqb dim tdim then DOk dim dim else DPanic
  | LHardSigmoid i => if Nat.ltb i dim && Nat.eqb dim tdim then DOk dim dim else DPanic
  | LArgmax => if Nat.leb 2 dim && Nat.eqb dim tdim then DOk (if v0 then dim else 1%nat) 1 else DPanic
  | LClassChar c => if Nat.ltb c dim && Nat.leb 2 dim && Nat.eqb dim tdim
                    then DOk (if v0 then dim else 1%nat) 1 else DPanic
  end.
Fixpoint distill_shape_from (v0 : bool) (dim tdim : nat) (ls : list layer) : dres :=
  match ls with
  | [] => DOk dim tdim
  | l :: ls' => match distill_layer v0 dim tdim l with
                | DOk dim' tdim' => distill_shape_from v0 dim' tdim' ls'
                | DPanic => DPanic
                end
  end.
Definition distill_shape (v0 : bool) (n : nat) (ls : list layer) : dres := distill_shape_from v0 n n ls.

(* ================================================================ reference semantics of a layer list (DESIGN C01).
   s is the slope of the hard sigmoid (1/6 in the textbook, the nearest f64 in the code); hard tanh clamps to [-1,1]
   as builder.rs fixes it. *)
Definition layer_eval (s : Qc) (l : layer) (x : vec) : vec :=
  match l with
  | LLinear a => apply a x
  | LReLU i => relu_def i x
  | LLeaky i alpha => leaky_relu_def alpha i x
  | LHardTanh i => hard_tanh_def (- (1)) 1 i x
  | LHardSigmoid i => hard_sigmoid_def s i x
  | LArgmax => [qnat (argmax_def x)]
  | LClassChar c => [class_def c x]
  end.
Definition net_eval (s : Qc) (ls : list layer) (x : vec) : vec := fold_left (fun y l => layer_eval s l y) ls x.

Definition layer_wf (l : layer) : Prop := match l with LLinear a => wf_aff a | _ => True end.
Definition layer_wfb (l : layer) : bool := match l with LLinear a => wf_affb a | _ => true end.

(* a tree denotes a layer list on R^n *)
Definition denotes (s : Qc) (n : nat) (t : ptree) (ls : list layer) : Prop :=
  wf n t /\ forall x, length x = n -> eval t x = Some (net_eval s ls x).

(* ---------------------------------------------------------------- the reference tree of a layer list: the schema tree of every
   layer, composed without any pruning (apply_func a t = compose t (T a)) *)
Definition layer_tree (s : Qc) (d : nat) (l : layer) : ptree :=
  match l with
  | LLinear a => T a
  | LReLU i => partial_relu d i
  | LLeaky i alpha => partial_leaky_relu d i alpha
  | LHardTanh i => partial_hard_tanh d i (- (1)) 1
  | LHardSigmoid i => partial_hard_sigmoid d i s
  | LArgmax => argmax d
  | LClassChar c => class_characterization d c
  end.
Fixpoint distill_ref_from (s : Qc) (d : nat) (t : ptree) (ls : list layer) : ptree :=
  match ls with
  | [] => t
  | l :: ls' => match layer_out_dim d l with
                | Some d' => distill_ref_from s d' (compose t (layer_tree s d l)) ls'
                | None => U
                end
  end.
Definition distill_ref (s : Qc) (n : nat) (ls : list layer) : ptree := distill_ref_from s n (T (sc_identity n)) ls.

(* Distill/ArchProofs.v -- theorems about the Architecture builder, extract_range, the shape level of the distillation
   and the reference semantics of layer lists (C18). *)
From AT Require Import Num Vec Aff PTree Schema SchemaProofs Arch.

(* ================================================================ recorded operators *)
(* ops_ok d ops d': the layers of ops lead from dimension d to d', and the recorded shapes are the running dimensions *)
Definition ops_ok (d : nat) (ops : list (layer * nat)) (d' : nat) : Prop :=
  layers_out_dim d (map fst ops) = Some d' /\ map snd ops = shapes_after d (map fst ops).

Lemma app_inj_len {A} (a b c d : list A) : length a = length c -> a ++ b = c ++ d -> a = c /\ b = d.
Proof.
  revert c; induction a as [|x a IH]; intros [|y c] HL H; cbn [length app] in *; try discriminate; auto.
  inversion H; subst. destruct (IH c) as [-> ->]; auto.
Qed.

Lemma arch_inv_ops st : arch_inv st <-> ops_ok (ar_in st) (ar_ops st) (ar_cur st).
Proof. unfold arch_inv, ops_ok, arch_layers, arch_shapes. tauto. Qed.

Lemma ops_ok_app d A R d' : ops_ok d (A ++ R) d' <-> exists dA, ops_ok d A dA /\ ops_ok dA R d'.
Proof.
  unfold ops_ok. rewrite !map_app, layers_out_dim_app. split.
  - intros [H1 H2]. destruct (layers_out_dim d (map fst A)) as [dA|] eqn:E; cbn [obind] in H1; try discriminate.
    exists dA. rewrite (shapes_after_app _ _ _ _ E) in H2.
    assert (HL : length (map snd A) = length (shapes_after d (map fst A))).
    { rewrite (shapes_after_length _ _ _ E), !map_length. reflexivity. }
    apply app_inj_len in H2; auto. tauto.
  - intros [dA [[H1 H2] [H3 H4]]]. rewrite H1. cbn [obind]. split; auto.
    rewrite (shapes_after_app _ _ _ _ H1). congruence.
Qed.

(* ================================================================ the builder calls *)
Lemma layers_push st l s : arch_layers (arch_push st l s) = arch_layers st ++ [l].
Proof. unfold arch_layers, arch_push. cbn [ar_ops]. rewrite map_app. reflexivity. Qed.

Lemma push_inv st l s : arch_inv st -> layer_out_dim (ar_cur st) l = Some s -> arch_inv (arch_push st l s).
Proof.
  rewrite !arch_inv_ops. intros H Hl. unfold arch_push. cbn [ar_in ar_cur ar_ops].
  apply ops_ok_app. exists (ar_cur st). split; auto.
  unfold ops_ok. cbn [map fst snd layers_out_dim shapes_after]. rewrite Hl. auto.
Qed.

(* activation constructors: applicable to neuron i of a d-dimensional layer iff i < d *)
Definition act_mk (mk : nat -> layer) : Prop :=
  forall i d, layer_out_dim d (mk i) = if Nat.ltb i d then Some d else None.

Lemma partial_accept mk st i : act_mk mk -> arch_inv st -> (i < ar_cur st)%nat ->
  a_partial mk st i = (None, arch_push st (mk i) (ar_cur st)) /\ arch_inv (arch_push st (mk i) (ar_cur st)).
Proof.
  intros Hmk Hinv Hi. unfold a_partial. apply Nat.ltb_lt in Hi. rewrite Hi. split; auto.
  apply push_inv; auto. rewrite Hmk, Hi. reflexivity.
Qed.
Lemma partial_reject mk st i : (ar_cur st <= i)%nat -> a_partial mk st i = (Some (EIndex i (ar_cur st)), st).
Proof. intros Hi. unfold a_partial. apply Nat.ltb_ge in Hi. rewrite Hi. reflexivity. Qed.

Lemma acts_out_dim mk d idxs : act_mk mk -> Forall (fun i => (i < d)%nat) idxs ->
  layers_out_dim d (map mk idxs) = Some d.
Proof.
  intros Hmk. induction idxs as [|i idxs IH]; intros H; cbn [map layers_out_dim]; auto.
  apply Forall_cons_iff in H as [Hi H]. rewrite Hmk. apply Nat.ltb_lt in Hi. rewrite Hi. auto.
Qed.

Lemma loop_accept mk idxs : act_mk mk -> forall st, arch_inv st -> Forall (fun i => (i < ar_cur st)%nat) idxs ->
  exists st', a_loop mk st idxs = (None, st') /\ arch_layers st' = arch_layers st ++ map mk idxs /\
              ar_cur st' = ar_cur st /\ ar_in st' = ar_in st /\ arch_inv st'.
Proof.
  intros Hmk. induction idxs as [|i idxs IH]; intros st Hinv H; cbn [a_loop map].
  - exists st. rewrite app_nil_r. auto.
  - apply Forall_cons_iff in H as [Hi H].
    destruct (partial_accept mk st i Hmk Hinv Hi) as [E Hinv']. rewrite E.
    destruct (IH (arch_push st (mk i) (ar_cur st)) Hinv' H) as [st' [E' [HL [HC [HI Hinv'']]]]].
    exists st'. rewrite E', HL, layers_push, <- app_assoc. cbn [app]. auto.
Qed.

Lemma seq_lt d : Forall (fun i => (i < d)%nat) (seq 0 d).
Proof. apply Forall_forall. intros i Hi. apply in_seq in Hi. lia. Qed.

(* what acceptance of a call means: the call is accepted, the queued layers are extended by exactly the layers the call
   stands for, the tracked shape is their output dimension, the invariant holds again *)
Definition accepted_as (st : arch) (c : call) (d' : nat) (r : ares) : Prop :=
  exists st', r = (None, st') /\ arch_layers st' = arch_layers st ++ call_layers (ar_cur st) c /\
              ar_cur st' = d' /\ ar_in st' = ar_in st /\ arch_inv st'.

Lemma single_accept st l s : arch_inv st -> layer_out_dim (ar_cur st) l = Some s ->
  exists st', ((None, arch_push st l s) : ares) = (None, st') /\ arch_layers st' = arch_layers st ++ [l] /\
              ar_cur st' = s /\ ar_in st' = ar_in st /\ arch_inv st'.
Proof. intros Hinv Hl. exists (arch_push st l s). rewrite layers_push. repeat split; auto; apply push_inv; auto. Qed.

Lemma partial_step mk st i : act_mk mk -> arch_inv st ->
  match layers_out_dim (ar_cur st) [mk i] with
  | Some d' => exists st', a_partial mk st i = (None, st') /\ arch_layers st' = arch_layers st ++ [mk i] /\
                           ar_cur st' = d' /\ ar_in st' = ar_in st /\ arch_inv st'
  | None => exists e, a_partial mk st i = (Some e, st)
  end.
Proof.
  intros Hmk Hinv. cbn [layers_out_dim]. rewrite Hmk. destruct (Nat.ltb i (ar_cur st)) eqn:E.
  - apply Nat.ltb_lt in E. destruct (partial_accept mk st i Hmk Hinv E) as [E1 Hinv']. rewrite E1.
    apply single_accept; auto. rewrite Hmk. apply Nat.ltb_lt in E. rewrite E. reflexivity.
  - apply Nat.ltb_ge in E. rewrite partial_reject by auto. eauto.
Qed.
Lemma whole_step mk st : act_mk mk -> arch_inv st ->
  layers_out_dim (ar_cur st) (map mk (seq 0 (ar_cur st))) = Some (ar_cur st) /\
  exists st', a_whole mk st = (None, st') /\ arch_layers st' = arch_layers st ++ map mk (seq 0 (ar_cur st)) /\
              ar_cur st' = ar_cur st /\ ar_in st' = ar_in st /\ arch_inv st'.
Proof.
  intros Hmk Hinv. split.
  - apply acts_out_dim; auto using seq_lt.
  - apply loop_accept; auto using seq_lt.
Qed.

Lemma act_relu : act_mk LReLU. Proof. intros i d; reflexivity. Qed.
Lemma act_leaky alpha : act_mk (fun j => LLeaky j alpha). Proof. intros i d; reflexivity. Qed.
Lemma act_hard_tanh : act_mk LHardTanh. Proof. intros i d; reflexivity. Qed.
Lemma act_hard_sigmoid : act_mk LHardSigmoid. Proof. intros i d; reflexivity. Qed.

(* THE step theorem (repaired code): a call is accepted iff the layers it stands for are dimension-compatible with the
   current output dimension; a rejected call leaves the architecture untouched *)
Theorem step_spec st c : arch_inv st ->
  match layers_out_dim (ar_cur st) (call_layers (ar_cur st) c) with
  | Some d' => accepted_as st c d' (arch_step false st c)
  | None => exists e, arch_step false st c = (Some e, st)
  end.
Proof.
  intros Hinv. unfold accepted_as.
  destruct c as [a | i | | i alpha | alpha | i | | i | | ]; cbn [call_layers arch_step].
  - cbn [layers_out_dim layer_out_dim]. unfold a_linear. rewrite (Nat.eqb_sym (ar_cur st) (a_in a)).
    destruct (Nat.eqb (a_in a) (ar_cur st)) eqn:E; [|eauto].
    apply single_accept; auto. cbn [layer_out_dim]. rewrite E. reflexivity.
  - apply (partial_step LReLU); auto using act_relu.
  - destruct (whole_step LReLU st act_relu Hinv) as [E H]. rewrite E. exact H.
  - apply (partial_step (fun j => LLeaky j alpha)); auto using act_leaky.
  - destruct (whole_step _ st (act_leaky alpha) Hinv) as [E H]. rewrite E. exact H.
  - apply (partial_step LHardTanh); auto using act_hard_tanh.
  - destruct (whole_step LHardTanh st act_hard_tanh Hinv) as [E H]. rewrite E. exact H.
  - apply (partial_step LHardSigmoid); auto using act_hard_sigmoid.
  - destruct (whole_step LHardSigmoid st act_hard_sigmoid Hinv) as [E H]. rewrite E. exact H.
  - cbn [layers_out_dim layer_out_dim]. unfold a_argmax.
    destruct (Nat.leb 2 (ar_cur st)) eqn:E.
    + apply Nat.leb_le in E. replace (Nat.ltb (ar_cur st) 2) with false by (symmetry; apply Nat.ltb_ge; lia).
      apply single_accept; auto. cbn [layer_out_dim]. apply Nat.leb_le in E. rewrite E. reflexivity.
    + apply Nat.leb_gt in E. replace (Nat.ltb (ar_cur st) 2) with true by (symmetry; apply Nat.ltb_lt; lia). eauto.
Qed.

(* corollaries in the words of the property *)
Definition compatible (st : arch) (c : call) : Prop :=
  layers_ok (ar_in st) (arch_layers st ++ call_layers (ar_cur st) c) = true.

Lemma compatible_iff st c : arch_inv st ->
  (compatible st c <-> exists d', layers_out_dim (ar_cur st) (call_layers (ar_cur st) c) = Some d').
Proof.
  intros [H _]. unfold compatible, layers_ok. rewrite layers_out_dim_app, H. cbn [obind].
  destruct (layers_out_dim (ar_cur st) (call_layers (ar_cur st) c)) as [d'|]; split; eauto; try discriminate.
  intros [d' Hd]; discriminate.
Qed.

Theorem accept_iff_compatible st c : arch_inv st ->
  (fst (arch_step false st c) = None <-> compatible st c).
Proof.
  intros Hinv. rewrite (compatible_iff st c Hinv). pose proof (step_spec st c Hinv) as H.
  destruct (layers_out_dim (ar_cur st) (call_layers (ar_cur st) c)) as [d'|].
  - destruct H as [st' [E _]]. rewrite E. cbn [fst]. split; eauto.
  - destruct H as [e E]. rewrite E. cbn [fst]. split; try discriminate. intros [d' Hd]; discriminate.
Qed.

Theorem step_inv st c : arch_inv st -> arch_inv (snd (arch_step false st c)).
Proof.
  intros Hinv. pose proof (step_spec st c Hinv) as H.
  destruct (layers_out_dim (ar_cur st) (call_layers (ar_cur st) c)) as [d'|].
  - destruct H as [st' [E [_ [_ [_ H]]]]]. rewrite E. exact H.
  - destruct H as [e E]. rewrite E. exact Hinv.
Qed.

Theorem step_reject_unchanged st c e : arch_inv st -> fst (arch_step false st c) = Some e ->
  snd (arch_step false st c) = st.
Proof.
  intros Hinv. pose proof (step_spec st c Hinv) as H.
  destruct (layers_out_dim (ar_cur st) (call_layers (ar_cur st) c)) as [d'|].
  - destruct H as [st' [E _]]. rewrite E. discriminate.
  - destruct H as [e' E]. rewrite E. reflexivity.
Qed.

Theorem step_accept_layers st c : arch_inv st -> fst (arch_step false st c) = None ->
  arch_layers (snd (arch_step false st c)) = arch_layers st ++ call_layers (ar_cur st) c /\
  layers_out_dim (ar_cur st) (call_layers (ar_cur st) c) = Some (ar_cur (snd (arch_step false st c))) /\
  ar_in (snd (arch_step false st c)) = ar_in st.
Proof.
  intros Hinv. pose proof (step_spec st c Hinv) as H.
  destruct (layers_out_dim (ar_cur st) (call_layers (ar_cur st) c)) as [d'|].
  - destruct H as [st' [E [HL [HC [HI _]]]]]. rewrite E. cbn [fst snd]. subst d'. auto.
  - destruct H as [e' E]. rewrite E. discriminate.
Qed.

Lemma new_inv n : arch_inv (arch_new n).
Proof. unfold arch_inv, arch_new, arch_layers, arch_shapes. cbn. auto. Qed.

Lemma run_inv_from cs : forall st, arch_inv st -> arch_inv (arch_run false st cs).
Proof.
  induction cs as [|c cs IH]; intros st Hinv; cbn [arch_run fold_left]; auto.
  apply IH. apply step_inv; auto.
Qed.
Lemma run_in cs : forall st, arch_inv st -> ar_in (arch_run false st cs) = ar_in st.
Proof.
  induction cs as [|c cs IH]; intros st Hinv; cbn [arch_run fold_left]; auto.
  change (ar_in (arch_run false (snd (arch_step false st c)) cs) = ar_in st).
  rewrite IH by (apply step_inv; auto).
  destruct (fst (arch_step false st c)) as [e|] eqn:E.
  - rewrite (step_reject_unchanged st c e); auto.
  - apply step_accept_layers; auto.
Qed.

(* every call sequence, valid or invalid calls in any order *)
Theorem run_inv n cs : arch_inv (arch_run false (arch_new n) cs).
Proof. apply run_inv_from, new_inv. Qed.

Theorem run_layers_ok n cs : layers_ok n (arch_layers (arch_run false (arch_new n) cs)) = true.
Proof.
  pose proof (run_inv n cs) as [H _]. rewrite run_in in H by apply new_inv. cbn [arch_new ar_in] in H.
  unfold layers_ok. rewrite H. reflexivity.
Qed.

(* ================================================================ shape level of the distillation *)
(* repaired code: the distillation panics exactly on a dimension mismatch *)
Lemma distill_layer_spec d l :
  distill_layer false d d l = match layer_out_dim d l with Some d' => DOk d' d' | None => DPanic end.
Proof.
  destruct l as [a | i | i alpha | i | i | | c]; cbn [distill_layer layer_out_dim]; rewrite ?Nat.eqb_refl, ?andb_true_r;
    try (destruct (Nat.ltb i d); reflexivity).
  - destruct (Nat.eqb (a_in a) d); reflexivity.
  - destruct (Nat.leb 2 d); reflexivity.
  - destruct (Nat.ltb c d && Nat.leb 2 d)%bool; reflexivity.
Qed.
Theorem distill_shape_spec ls : forall d,
  distill_shape false d ls = match layers_out_dim d ls with Some d' => DOk d' d' | None => DPanic end.
Proof.
  unfold distill_shape. induction ls as [|l ls IH]; intros d; cbn [distill_shape_from layers_out_dim]; auto.
  rewrite distill_layer_spec. destruct (layer_out_dim d l) as [d'|]; auto.
Qed.
Theorem distill_panic_iff d ls : distill_shape false d ls = DPanic <-> layers_ok d ls = false.
Proof.
  rewrite distill_shape_spec. unfold layers_ok. destruct (layers_out_dim d ls); split; intros H; try discriminate; auto.
Qed.

(* every accepted architecture distills without a dimension panic, and the tree it yields has the tracked output
   dimension *)
Theorem accepted_no_panic n cs :
  let st := arch_run false (arch_new n) cs in
  distill_shape false n (arch_layers st) = DOk (ar_cur st) (ar_cur st).
Proof.
  intros st. rewrite distill_shape_spec. pose proof (run_inv n cs) as [H _].
  rewrite run_in in H by apply new_inv. cbn [arch_new ar_in] in H. fold st in H. rewrite H. reflexivity.
Qed.

(* ---------------------------------------------------------------- D10: the code as found *)
Definition d10_lin : aff := {| a_in := 2; a_mat := [[1; 0]; [0; 1]]; a_bias := [0; 0] |}.
Definition d10_calls : list call := [CLinear d10_lin; CArgmax; CLinear d10_lin].
(* argmax leaves the shape at 2 although the output is 1-dimensional, the following 2 -> 2 linear layer is accepted,
   the layer list is not dimension-consistent and its distillation panics *)
Theorem d10_refuted :
  exists n cs, let st := arch_run true (arch_new n) cs in
    arch_results true (arch_new n) cs = map (fun _ => None) cs /\
    layers_out_dim n (arch_layers st) = None /\ ~ arch_inv st /\
    distill_shape true n (arch_layers st) = DPanic /\ distill_shape false n (arch_layers st) = DPanic.
Proof.
  exists 2%nat, d10_calls. cbv zeta. repeat split; try (vm_compute; reflexivity).
  intros [H _]. vm_compute in H. discriminate.
Qed.
(* shapes below 2 are accepted although schema::argmax indexes out of bounds there *)
Theorem d10_small_refuted :
  exists n cs, let st := arch_run true (arch_new n) cs in
    arch_results true (arch_new n) cs = map (fun _ => None) cs /\
    layers_out_dim n (arch_layers st) = None /\ distill_shape true n (arch_layers st) = DPanic.
Proof. exists 1%nat, [CArgmax]. cbv zeta. repeat split; vm_compute; reflexivity. Qed.
(* afftree_from_layers_generic as found: `dim` stays stale after Argmax / ClassChar, so a dimension-consistent layer
   list with a layer after the head panics *)
Definition d17_lin1 : aff := {| a_in := 1; a_mat := [[1]]; a_bias := [0] |}.
Theorem distill_stale_dim_refuted :
  exists n ls, layers_out_dim n ls = Some 1%nat /\ Forall layer_wf ls /\ distill_shape true n ls = DPanic.
Proof.
  exists 2%nat, [LArgmax; LLinear d17_lin1]. repeat split; try (vm_compute; reflexivity).
  repeat constructor; cbn; auto.
Qed.

(* ================================================================ extract_range *)
Lemma firstn_add {A} (l : list A) s k : firstn (s + k) l = firstn s l ++ firstn k (skipn s l).
Proof.
  revert l; induction s as [|s IH]; intros [|a l]; cbn [Nat.add firstn skipn app]; auto.
  - rewrite firstn_nil. reflexivity.
  - rewrite IH. reflexivity.
Qed.
Lemma firstn_S_nth {A} (l : list A) k x : nth_error l k = Some x -> firstn (S k) l = firstn k l ++ [x].
Proof.
  revert l; induction k as [|k IH]; intros [|a l] H; cbn [nth_error] in H; try discriminate.
  - inversion H; subst. reflexivity.
  - cbn [firstn app]. f_equal. apply IH; auto.
Qed.

Lemma ops_ok_firstn d ops d' s : ops_ok d ops d' ->
  exists dA, ops_ok d (firstn s ops) dA /\ ops_ok dA (skipn s ops) d'.
Proof. intros H. rewrite <- (firstn_skipn s ops) in H. apply ops_ok_app in H. exact H. Qed.

Lemma ops_ok_last d ops d' : ops_ok d ops d' -> last (map snd ops) d = d'.
Proof. intros [H1 H2]. rewrite H2. apply shapes_after_last; auto. Qed.

(* extract_range(s, e) on a well-tracked architecture: succeeds exactly for s < e <= len, returns the sub-list of
   layers with their recorded shapes; its input shape is the output dimension of the first s layers, its current shape
   the output dimension of the first e layers, and it is well-tracked again *)
Theorem extract_range_spec st s e : arch_inv st -> (s < e)%nat -> (e <= length (ar_ops st))%nat ->
  exists st', extract_range st s e = XOk st' /\
    ar_ops st' = firstn (e - s) (skipn s (ar_ops st)) /\
    arch_layers st' = firstn (e - s) (skipn s (arch_layers st)) /\
    layers_out_dim (ar_in st) (firstn s (arch_layers st)) = Some (ar_in st') /\
    layers_out_dim (ar_in st) (firstn e (arch_layers st)) = Some (ar_cur st') /\
    arch_inv st'.
Proof.
  intros Hinv Hse Hen. apply arch_inv_ops in Hinv.
  destruct (ops_ok_firstn _ _ _ s Hinv) as [dA [HA HR]].
  destruct (ops_ok_firstn _ _ _ (e - s) HR) as [dB [HB _]].
  set (taken := firstn (e - s) (skipn s (ar_ops st))) in *.
  assert (Hres : extract_range st s e = XOk {| ar_in := dA; ar_cur := last (map snd taken) dA; ar_ops := taken |}).
  { unfold extract_range. cbv zeta.
    replace (Nat.leb e s) with false by (symmetry; apply Nat.leb_gt; lia).
    replace (Nat.ltb (length (ar_ops st)) e) with false by (symmetry; apply Nat.ltb_ge; lia).
    cbn [orb]. destruct s as [|s'].
    - cbn [Nat.eqb]. cbn [firstn skipn] in *. destruct HA as [HA _]. cbn [map layers_out_dim] in HA.
      inversion HA; subst dA. reflexivity.
    - cbn [Nat.eqb]. replace (S s' - 1)%nat with s' by lia.
      destruct (nth_error (ar_ops st) s') as [[l sh]|] eqn:E.
      + pose proof (firstn_S_nth _ _ _ E) as HF. pose proof (ops_ok_last _ _ _ HA) as HL.
        rewrite HF, map_app in HL. cbn [map snd] in HL. rewrite last_last in HL. subst sh. reflexivity.
      + apply nth_error_None in E. lia. }
  eexists. split; [exact Hres|]. cbn [ar_in ar_cur ar_ops]. unfold arch_layers at 1. cbn [ar_ops].
  rewrite (ops_ok_last _ _ _ HB).
  split; [reflexivity|]. split.
  { unfold taken, arch_layers. rewrite skipn_map, firstn_map. reflexivity. }
  split.
  { unfold arch_layers. rewrite firstn_map. apply HA. }
  split.
  { replace e with (s + (e - s))%nat at 1 by lia. unfold arch_layers. rewrite firstn_map, firstn_add, map_app.
    rewrite layers_out_dim_app. destruct HA as [HA _]. rewrite HA. cbn [obind]. apply HB. }
  apply arch_inv_ops. cbn [ar_in ar_cur ar_ops]. exact HB.
Qed.

Theorem extract_range_reject st s e : (e <= s)%nat \/ (length (ar_ops st) < e)%nat ->
  extract_range st s e = XErr (EIndex e (length (ar_ops st))).
Proof.
  intros H. unfold extract_range. cbv zeta.
  destruct H as [H|H].
  - apply Nat.leb_le in H. rewrite H. reflexivity.
  - apply Nat.ltb_lt in H. rewrite H, orb_true_r. reflexivity.
Qed.

(* split points: the two parts are the two halves of the layer list, and the input shape of the second part is the
   current shape of the first *)
Theorem extract_split st k : arch_inv st -> (0 < k)%nat -> (k < length (ar_ops st))%nat ->
  exists s1 s2, extract_range st 0 k = XOk s1 /\ extract_range st k (length (ar_ops st)) = XOk s2 /\
    arch_layers st = arch_layers s1 ++ arch_layers s2 /\
    ar_in s1 = ar_in st /\ ar_cur s1 = ar_in s2 /\ ar_cur s2 = ar_cur st /\ arch_inv s1 /\ arch_inv s2.
Proof.
  intros Hinv H0 Hk.
  destruct (extract_range_spec st 0 k Hinv) as [s1 [E1 [_ [L1 [I1 [C1 V1]]]]]]; try lia.
  destruct (extract_range_spec st k (length (ar_ops st)) Hinv) as [s2 [E2 [_ [L2 [I2 [C2 V2]]]]]]; try lia.
  exists s1, s2. split; auto. split; auto.
  cbn [firstn skipn layers_out_dim] in *. rewrite Nat.sub_0_r in L1.
  assert (HLen : length (arch_layers st) = length (ar_ops st)) by (unfold arch_layers; apply map_length).
  rewrite L1, L2. rewrite (firstn_all2 (skipn k (arch_layers st))) by (rewrite skipn_length; lia).
  rewrite firstn_skipn. split; auto. inversion I1. split; auto.
  split; [congruence|]. split; auto.
  rewrite <- HLen, firstn_all in C2. destruct Hinv as [Hc _]. congruence.
Qed.

(* ================================================================ reference semantics: splitting a network *)
Theorem net_eval_app s l1 l2 x : net_eval s (l1 ++ l2) x = net_eval s l2 (net_eval s l1 x).
Proof. unfold net_eval. apply fold_left_app. Qed.

Lemma layer_eval_length s d l d' x : layer_out_dim d l = Some d' -> layer_wf l -> length x = d ->
  length (layer_eval s l x) = d'.
Proof.
  intros H Hw Hx. revert H.
  destruct l as [a | i | i alpha | i | i | | c]; cbn [layer_out_dim layer_eval layer_wf] in *;
    try (destruct (Nat.ltb i d); intros H; inversion H; subst d';
         unfold relu_def, leaky_relu_def, hard_tanh_def, hard_sigmoid_def; rewrite on_row_length; exact Hx).
  - destruct (Nat.eqb (a_in a) d); intros H; inversion H. apply length_apply; auto.
  - destruct (Nat.leb 2 d); intros H; inversion H. reflexivity.
  - destruct (Nat.ltb c d && Nat.leb 2 d)%bool; intros H; inversion H. reflexivity.
Qed.
Lemma net_eval_length s ls : forall d d' x, layers_out_dim d ls = Some d' -> Forall layer_wf ls -> length x = d ->
  length (net_eval s ls x) = d'.
Proof.
  induction ls as [|l ls IH]; intros d d' x H Hw Hx; cbn [layers_out_dim] in H.
  - injection H as <-. exact Hx.
  - destruct (layer_out_dim d l) as [d1|] eqn:E; try discriminate.
    apply Forall_cons_iff in Hw as [Hl Hw]. change (net_eval s (l :: ls) x) with (net_eval s ls (layer_eval s l x)).
    eapply IH; eauto. eapply layer_eval_length; eauto.
Qed.

(* if the first tree denotes the first part of the network and the second tree the second part, their composition
   denotes the whole network (by the composition law C02) *)
Theorem split_compose s n m t1 t2 l1 l2 :
  layers_out_dim n l1 = Some m -> Forall layer_wf l1 ->
  denotes s n t1 l1 -> outs m t1 -> denotes s m t2 l2 ->
  denotes s n (compose t1 t2) (l1 ++ l2).
Proof.
  intros Hd Hw [W1 E1] O1 [W2 E2]. split.
  - eapply wf_compose; eauto.
  - intros x Hx. rewrite (compose_eval n m) by auto. rewrite E1 by auto. cbn [obind].
    rewrite E2 by (eapply net_eval_length; eauto). rewrite net_eval_app. reflexivity.
Qed.

(* the statement for the split points of an architecture *)
Theorem split_arch s st k t1 t2 : arch_inv st -> Forall layer_wf (arch_layers st) ->
  (0 < k)%nat -> (k < length (ar_ops st))%nat ->
  exists s1 s2, extract_range st 0 k = XOk s1 /\ extract_range st k (length (ar_ops st)) = XOk s2 /\
    (denotes s (ar_in s1) t1 (arch_layers s1) -> outs (ar_cur s1) t1 -> denotes s (ar_in s2) t2 (arch_layers s2) ->
     denotes s (ar_in st) (compose t1 t2) (arch_layers st)).
Proof.
  intros Hinv Hw H0 Hk.
  destruct (extract_split st k Hinv H0 Hk) as [s1 [s2 [E1 [E2 [HL [HI [HC [_ [[V1 _] _]]]]]]]]].
  exists s1, s2. split; auto. split; auto. intros D1 O1 D2.
  rewrite HL, <- HI. rewrite HL in Hw. apply Forall_app in Hw as [Hw1 _].
  eapply split_compose; eauto. rewrite HC. exact D2.
Qed.

(* ================================================================ the reference tree denotes the reference semantics *)
Lemma wf_rowf n r b : length r = n -> wf_aff (sc_rowf n r b) /\ a_in (sc_rowf n r b) = n.
Proof. intros H. unfold wf_aff, sc_rowf, cols. cbn [a_in a_mat a_bias length]. repeat split; auto. Qed.
Lemma wf_identity n : wf_aff (sc_identity n) /\ a_in (sc_identity n) = n /\ outdim (sc_identity n) = n.
Proof.
  unfold wf_aff, sc_identity, outdim, cols, eye. cbn [a_in a_mat a_bias].
  rewrite map_length, seq_length, length_vzero. repeat split; auto.
  apply Forall_forall. intros r Hr. apply in_map_iff in Hr as [j [<- _]]. apply length_unitv.
Qed.
Lemma wf_patch n i r b : length r = n ->
  wf_aff (sc_patch n i r b) /\ a_in (sc_patch n i r b) = n /\ outdim (sc_patch n i r b) = n.
Proof.
  intros H. unfold wf_aff, sc_patch, outdim, cols. cbn [a_in a_mat a_bias].
  rewrite !map_length, seq_length. repeat split; auto.
  apply Forall_forall. intros r' Hr. apply in_map_iff in Hr as [j [<- _]].
  destruct (Nat.eqb j i); auto using length_unitv.
Qed.
Lemma length_subrow n l r : length (sc_subrow n l r) = n.
Proof. rewrite sc_subrow_vsub. rewrite length_vsub; rewrite !length_unitv; auto. Qed.

Lemma wf_T_id n : wf n (T (sc_identity n)) /\ outs n (T (sc_identity n)).
Proof. destruct (wf_identity n) as [H1 [H2 H3]]. split; constructor; auto. Qed.
Lemma wf_T_patch n i r b : length r = n -> wf n (T (sc_patch n i r b)) /\ outs n (T (sc_patch n i r b)).
Proof. intros H. destruct (wf_patch n i r b H) as [H1 [H2 H3]]. split; constructor; auto. Qed.
Lemma wf_T_const n v : wf n (T (sc_constant n v)) /\ outs 1 (T (sc_constant n v)).
Proof.
  unfold sc_constant. destruct (wf_rowf n (vzero n) v (length_vzero n)) as [H1 H2]. split; constructor; auto.
Qed.
Lemma wf_D2 n m r b t0 t1 : length r = n -> wf n t0 /\ outs m t0 -> wf n t1 /\ outs m t1 ->
  wf n (D (sc_rowf n r b) [t0; t1]) /\ outs m (D (sc_rowf n r b) [t0; t1]).
Proof.
  intros Hr [W0 O0] [W1 O1]. destruct (wf_rowf n r b Hr) as [H1 H2]. split; constructor; auto.
Qed.

Lemma wf_argmax_node n f : forall j c, wf n (argmax_node n f j c) /\ outs 1 (argmax_node n f j c).
Proof.
  induction f as [|f IH]; intros j c; cbn [argmax_node].
  - apply wf_T_const.
  - unfold sc_subtraction. apply wf_D2; auto using length_subrow.
Qed.
Lemma wf_chain n m rows no yes : Forall (fun rb => length (fst rb) = n) rows ->
  wf n no /\ outs m no -> wf n yes /\ outs m yes -> wf n (chain n rows no yes) /\ outs m (chain n rows no yes).
Proof.
  intros Hr Hno Hyes. induction rows as [|rb rows IH]; cbn [chain]; auto.
  apply Forall_cons_iff in Hr as [H0 Hr]. apply wf_D2; auto.
Qed.

Lemma neg1_le_1 : - (1) <= 1. Proof. qlra. Qed.

Lemma layer_tree_ok s d l d' : layer_out_dim d l = Some d' -> layer_wf l ->
  wf d (layer_tree s d l) /\ outs d' (layer_tree s d l) /\
  forall x, length x = d -> eval (layer_tree s d l) x = Some (layer_eval s l x).
Proof.
  intros H Hw. revert H.
  destruct l as [a | i | i alpha | i | i | | c]; cbn [layer_out_dim layer_tree layer_eval layer_wf] in *.
  - destruct (Nat.eqb (a_in a) d) eqn:E; intros H; inversion H; subst d'. apply Nat.eqb_eq in E.
    repeat split; try constructor; auto.
  - destruct (Nat.ltb i d) eqn:E; intros H; inversion H; subst d'. apply Nat.ltb_lt in E.
    assert (W : wf d (partial_relu d i) /\ outs d (partial_relu d i)).
    { unfold partial_relu, sc_unit. apply wf_D2; auto using length_unitv, wf_T_id.
      apply wf_T_patch. apply length_vzero. }
    destruct W as [W O]. repeat split; auto. intros x Hx. apply eval_partial_relu; auto.
  - destruct (Nat.ltb i d) eqn:E; intros H; inversion H; subst d'. apply Nat.ltb_lt in E.
    assert (W : wf d (partial_leaky_relu d i alpha) /\ outs d (partial_leaky_relu d i alpha)).
    { unfold partial_leaky_relu, sc_unit. apply wf_D2; auto using length_unitv, wf_T_id.
      apply wf_T_patch. rewrite length_vscale. apply length_unitv. }
    destruct W as [W O]. repeat split; auto. intros x Hx. apply eval_partial_leaky_relu; auto.
  - destruct (Nat.ltb i d) eqn:E; intros H; inversion H; subst d'. apply Nat.ltb_lt in E.
    assert (W : wf d (partial_hard_tanh d i (- (1)) 1) /\ outs d (partial_hard_tanh d i (- (1)) 1)).
    { unfold partial_hard_tanh. apply wf_D2; [rewrite length_vopp; apply length_unitv | | ].
      - apply wf_D2; auto using length_unitv, wf_T_id. apply wf_T_patch. apply length_vzero.
      - apply wf_T_patch. apply length_vzero. }
    destruct W as [W O]. repeat split; auto. intros x Hx. apply eval_partial_hard_tanh; auto using neg1_le_1.
  - destruct (Nat.ltb i d) eqn:E; intros H; inversion H; subst d'. apply Nat.ltb_lt in E.
    assert (W : wf d (partial_hard_sigmoid d i s) /\ outs d (partial_hard_sigmoid d i s)).
    { unfold partial_hard_sigmoid. apply wf_D2; [rewrite length_vopp; apply length_unitv | | ].
      - apply wf_D2; auto using length_unitv.
        + apply wf_T_patch. rewrite length_vscale. apply length_unitv.
        + apply wf_T_patch. apply length_vzero.
      - apply wf_T_patch. apply length_vzero. }
    destruct W as [W O]. repeat split; auto. intros x Hx. apply eval_partial_hard_sigmoid; auto.
  - destruct (Nat.leb 2 d) eqn:E; intros H; inversion H; subst d'. apply Nat.leb_le in E.
    destruct (wf_argmax_node d (d - 1) 1 0) as [W O]. repeat split; auto.
    intros x Hx. apply eval_argmax_def; auto.
  - destruct (Nat.ltb c d && Nat.leb 2 d)%bool eqn:E; intros H; inversion H; subst d'.
    apply andb_true_iff in E as [E1 E2]. apply Nat.ltb_lt in E1.
    assert (W : wf d (class_characterization d c) /\ outs 1 (class_characterization d c)).
    { unfold class_characterization. apply wf_chain; auto using wf_T_const.
      unfold class_rows. apply Forall_forall. intros rb Hrb. apply in_map_iff in Hrb as [k [<- _]].
      cbn [fst]. apply length_subrow. }
    destruct W as [W O]. repeat split; auto. intros x Hx. apply eval_class_characterization; auto.
Qed.

Lemma distill_ref_from_ok s n ls : forall d d' t (g : vec -> vec),
  layers_out_dim d ls = Some d' -> Forall layer_wf ls ->
  wf n t -> outs d t -> (forall x, length x = n -> eval t x = Some (g x) /\ length (g x) = d) ->
  wf n (distill_ref_from s d t ls) /\ outs d' (distill_ref_from s d t ls) /\
  forall x, length x = n -> eval (distill_ref_from s d t ls) x = Some (net_eval s ls (g x)).
Proof.
  induction ls as [|l ls IH]; intros d d' t g H Hw W O E; cbn [layers_out_dim distill_ref_from] in *.
  - injection H as <-. repeat split; auto. intros x Hx. apply E; auto.
  - apply Forall_cons_iff in Hw as [Hl Hw]. destruct (layer_out_dim d l) as [d1|] eqn:El; try discriminate.
    destruct (layer_tree_ok s d l d1 El Hl) as [Wl [Ol Evl]].
    apply (IH d1 d' (compose t (layer_tree s d l)) (fun x => layer_eval s l (g x))); auto.
    + eapply wf_compose; eauto.
    + apply outs_compose; auto.
    + intros x Hx. destruct (E x Hx) as [E1 E2]. rewrite (compose_eval n d) by auto. rewrite E1. cbn [obind].
      split; [apply Evl; auto|]. eapply layer_eval_length; eauto.
Qed.

(* the unpruned reference tree of a dimension-consistent layer list denotes net_eval: trees as in split_compose exist *)
Theorem distill_ref_denotes s n ls d' : layers_out_dim n ls = Some d' -> Forall layer_wf ls ->
  denotes s n (distill_ref s n ls) ls /\ outs d' (distill_ref s n ls).
Proof.
  intros H Hw. unfold distill_ref, denotes. destruct (wf_T_id n) as [W O].
  destruct (distill_ref_from_ok s n ls n d' (T (sc_identity n)) (fun x => x) H Hw W O) as [W' [O' E']].
  - intros x Hx. cbn [eval]. rewrite apply_identity by auto. auto.
  - auto.
Qed.

(* what an accepted architecture denotes, split at any point *)
Theorem split_ref s n cs k :
  let st := arch_run false (arch_new n) cs in
  Forall layer_wf (arch_layers st) -> (0 < k)%nat -> (k < length (ar_ops st))%nat ->
  exists s1 s2, extract_range st 0 k = XOk s1 /\ extract_range st k (length (ar_ops st)) = XOk s2 /\
    forall x, length x = n ->
      eval (compose (distill_ref s (ar_in s1) (arch_layers s1)) (distill_ref s (ar_in s2) (arch_layers s2))) x
      = eval (distill_ref s n (arch_layers st)) x.
Proof.
  intros st Hw H0 Hk. pose proof (run_inv n cs) as Hinv. fold st in Hinv.
  assert (Hin : ar_in st = n) by (unfold st; rewrite run_in by apply new_inv; reflexivity).
  destruct (extract_split st k Hinv H0 Hk) as [s1 [s2 [E1 [E2 [HL [HI [HC [HC2 [V1 V2]]]]]]]]].
  exists s1, s2. split; auto. split; auto. intros x Hx.
  rewrite HL in Hw. apply Forall_app in Hw as [Hw1 Hw2].
  destruct V1 as [V1 _]. destruct V2 as [V2 _].
  destruct (distill_ref_denotes s _ _ _ V1 Hw1) as [D1 O1].
  destruct (distill_ref_denotes s _ _ _ V2 Hw2) as [D2 _].
  rewrite HC in O1, V1.
  destruct (split_compose s _ _ _ _ _ _ V1 Hw1 D1 O1 D2) as [_ EC].
  rewrite EC by congruence.
  assert (Hall : layers_out_dim n (arch_layers st) = Some (ar_cur st)) by (destruct Hinv as [H _]; congruence).
  destruct (distill_ref_denotes s n (arch_layers st) _ Hall) as [[_ EW] _].
  { rewrite HL. apply Forall_app; auto. }
  rewrite EW by auto. rewrite HL. reflexivity.
Qed.

(* the invariant spelled out for the architectures reachable from `new(n)` *)
Theorem run_content n cs :
  let st := arch_run false (arch_new n) cs in
  ar_in st = n /\ layers_out_dim n (arch_layers st) = Some (ar_cur st) /\
  arch_shapes st = shapes_after n (arch_layers st) /\ length (arch_shapes st) = length (arch_layers st).
Proof.
  intros st. pose proof (run_inv n cs) as [H1 H2]. fold st in H1, H2.
  assert (Hin : ar_in st = n) by (unfold st; rewrite run_in by apply new_inv; reflexivity).
  rewrite Hin in H1, H2. repeat split; auto. rewrite H2. eapply shapes_after_length; eauto.
Qed.

(* non-vacuity: valid and invalid calls mixed; 3 -> 2 linear, relu layer, bad index, bad linear, argmax, linear on the
   1-dimensional result, argmax on one component (rejected) *)
Definition ex_lin32 : aff := {| a_in := 3; a_mat := [[1; 0; 0]; [0; 1; 1]]; a_bias := [0; 1] |}.
Definition ex_lin12 : aff := {| a_in := 1; a_mat := [[1]; [1]]; a_bias := [0; 0] |}.
Definition ex_calls : list call :=
  [CLinear ex_lin32; CRelu; CPHardTanh 2; CLinear ex_lin32; CArgmax; CArgmax; CLinear ex_lin12; CPLeaky 1 (1 + 1)].
Example ex_run :
  arch_results false (arch_new 3) ex_calls =
    [None; None; Some (EIndex 2 2); Some (EDim 2 3); None; Some (EDim 2 1); None; None] /\
  arch_layers (arch_run false (arch_new 3) ex_calls) =
    [LLinear ex_lin32; LReLU 0; LReLU 1; LArgmax; LLinear ex_lin12; LLeaky 1 (1 + 1)] /\
  arch_shapes (arch_run false (arch_new 3) ex_calls) = [2; 2; 2; 1; 2; 2]%nat /\
  ar_cur (arch_run false (arch_new 3) ex_calls) = 2%nat /\
  distill_shape false 3 (arch_layers (arch_run false (arch_new 3) ex_calls)) = DOk 2 2 /\
  (exists s', extract_range (arch_run false (arch_new 3) ex_calls) 3 5 = XOk s' /\
              arch_layers s' = [LArgmax; LLinear ex_lin12] /\ ar_in s' = 2%nat /\ ar_cur s' = 2%nat) /\
  net_eval sixth (arch_layers (arch_run false (arch_new 3) ex_calls)) [1; 1 + 1; - (1)] = [1; 1] /\
  eval (distill_ref sixth 3 (arch_layers (arch_run false (arch_new 3) ex_calls))) [1; 1 + 1; - (1)] = Some [1; 1].
Proof.
  repeat split; try (vm_compute; reflexivity).
  eexists. repeat split; vm_compute; reflexivity.
Qed.


(** val negb : bool -> bool **)

let negb = function
| true -> false
| false -> true

type nat =
| O
| S of nat

(** val option_map : ('a1 -> 'a2) -> 'a1 option -> 'a2 option **)

let option_map f = function
| Some a -> Some (f a)
| None -> None

(** val fst : ('a1 * 'a2) -> 'a1 **)

let fst = function
| (x, _) -> x

(** val snd : ('a1 * 'a2) -> 'a2 **)

let snd = function
| (_, y) -> y

(** val length : 'a1 list -> nat **)

let rec length = function
| [] -> O
| _ :: l' -> S (length l')

(** val app : 'a1 list -> 'a1 list -> 'a1 list **)

let rec app l m =
  match l with
  | [] -> m
  | a :: l1 -> a :: (app l1 m)

type comparison =
| Eq
| Lt
| Gt

(** val compOpp : comparison -> comparison **)

let compOpp = function
| Eq -> Eq
| Lt -> Gt
| Gt -> Lt

module Coq__1 = struct
 (** val add : nat -> nat -> nat **)
 let rec add n m =
   match n with
   | O -> m
   | S p -> S (add p m)
end
include Coq__1

(** val mul : nat -> nat -> nat **)

let rec mul n m =
  match n with
  | O -> O
  | S p -> add m (mul p m)

type positive =
| XI of positive
| XO of positive
| XH

type z =
| Z0
| Zpos of positive
| Zneg of positive

module Nat =
 struct
  (** val eqb : nat -> nat -> bool **)

  let rec eqb n m =
    match n with
    | O -> (match m with
            | O -> true
            | S _ -> false)
    | S n' -> (match m with
               | O -> false
               | S m' -> eqb n' m')

  (** val leb : nat -> nat -> bool **)

  let rec leb n m =
    match n with
    | O -> true
    | S n' -> (match m with
               | O -> false
               | S m' -> leb n' m')

  (** val min : nat -> nat -> nat **)

  let rec min n m =
    match n with
    | O -> O
    | S n' -> (match m with
               | O -> O
               | S m' -> S (min n' m'))
 end

module Pos =
 struct
  type mask =
  | IsNul
  | IsPos of positive
  | IsNeg
 end

module Coq_Pos =
 struct
  (** val succ : positive -> positive **)

  let rec succ = function
  | XI p -> XO (succ p)
  | XO p -> XI p
  | XH -> XO XH

  (** val add : positive -> positive -> positive **)

  let rec add x y =
    match x with
    | XI p ->
      (match y with
       | XI q0 -> XO (add_carry p q0)
       | XO q0 -> XI (add p q0)
       | XH -> XO (succ p))
    | XO p ->
      (match y with
       | XI q0 -> XI (add p q0)
       | XO q0 -> XO (add p q0)
       | XH -> XI p)
    | XH -> (match y with
             | XI q0 -> XO (succ q0)
             | XO q0 -> XI q0
             | XH -> XO XH)

  (** val add_carry : positive -> positive -> positive **)

  and add_carry x y =
    match x with
    | XI p ->
      (match y with
       | XI q0 -> XI (add_carry p q0)
       | XO q0 -> XO (add_carry p q0)
       | XH -> XI (succ p))
    | XO p ->
      (match y with
       | XI q0 -> XO (add_carry p q0)
       | XO q0 -> XI (add p q0)
       | XH -> XO (succ p))
    | XH ->
      (match y with
       | XI q0 -> XI (succ q0)
       | XO q0 -> XO (succ q0)
       | XH -> XI XH)

  (** val pred_double : positive -> positive **)

  let rec pred_double = function
  | XI p -> XI (XO p)
  | XO p -> XI (pred_double p)
  | XH -> XH

  type mask = Pos.mask =
  | IsNul
  | IsPos of positive
  | IsNeg

  (** val succ_double_mask : mask -> mask **)

  let succ_double_mask = function
  | IsNul -> IsPos XH
  | IsPos p -> IsPos (XI p)
  | IsNeg -> IsNeg

  (** val double_mask : mask -> mask **)

  let double_mask = function
  | IsPos p -> IsPos (XO p)
  | x0 -> x0

  (** val double_pred_mask : positive -> mask **)

  let double_pred_mask = function
  | XI p -> IsPos (XO (XO p))
  | XO p -> IsPos (XO (pred_double p))
  | XH -> IsNul

  (** val sub_mask : positive -> positive -> mask **)

  let rec sub_mask x y =
    match x with
    | XI p ->
      (match y with
       | XI q0 -> double_mask (sub_mask p q0)
       | XO q0 -> succ_double_mask (sub_mask p q0)
       | XH -> IsPos (XO p))
    | XO p ->
      (match y with
       | XI q0 -> succ_double_mask (sub_mask_carry p q0)
       | XO q0 -> double_mask (sub_mask p q0)
       | XH -> IsPos (pred_double p))
    | XH -> (match y with
             | XH -> IsNul
             | _ -> IsNeg)

  (** val sub_mask_carry : positive -> positive -> mask **)

  and sub_mask_carry x y =
    match x with
    | XI p ->
      (match y with
       | XI q0 -> succ_double_mask (sub_mask_carry p q0)
       | XO q0 -> double_mask (sub_mask p q0)
       | XH -> IsPos (pred_double p))
    | XO p ->
      (match y with
       | XI q0 -> double_mask (sub_mask_carry p q0)
       | XO q0 -> succ_double_mask (sub_mask_carry p q0)
       | XH -> double_pred_mask p)
    | XH -> IsNeg

  (** val sub : positive -> positive -> positive **)

  let sub x y =
    match sub_mask x y with
    | IsPos z0 -> z0
    | _ -> XH

  (** val mul : positive -> positive -> positive **)

  let rec mul x y =
    match x with
    | XI p -> add y (XO (mul p y))
    | XO p -> XO (mul p y)
    | XH -> y

  (** val iter : ('a1 -> 'a1) -> 'a1 -> positive -> 'a1 **)

  let rec iter f x = function
  | XI n' -> f (iter f (iter f x n') n')
  | XO n' -> iter f (iter f x n') n'
  | XH -> f x

  (** val pow : positive -> positive -> positive **)

  let pow x =
    iter (mul x) XH

  (** val size_nat : positive -> nat **)

  let rec size_nat = function
  | XI p0 -> S (size_nat p0)
  | XO p0 -> S (size_nat p0)
  | XH -> S O

  (** val compare_cont : comparison -> positive -> positive -> comparison **)

  let rec compare_cont r x y =
    match x with
    | XI p ->
      (match y with
       | XI q0 -> compare_cont r p q0
       | XO q0 -> compare_cont Gt p q0
       | XH -> Gt)
    | XO p ->
      (match y with
       | XI q0 -> compare_cont Lt p q0
       | XO q0 -> compare_cont r p q0
       | XH -> Gt)
    | XH -> (match y with
             | XH -> r
             | _ -> Lt)

  (** val compare : positive -> positive -> comparison **)

  let compare =
    compare_cont Eq

  (** val ggcdn :
      nat -> positive -> positive -> positive * (positive * positive) **)

  let rec ggcdn n a b =
    match n with
    | O -> (XH, (a, b))
    | S n0 ->
      (match a with
       | XI a' ->
         (match b with
          | XI b' ->
            (match compare a' b' with
             | Eq -> (a, (XH, XH))
             | Lt ->
               let (g, p) = ggcdn n0 (sub b' a') a in
               let (ba, aa) = p in (g, (aa, (add aa (XO ba))))
             | Gt ->
               let (g, p) = ggcdn n0 (sub a' b') b in
               let (ab, bb) = p in (g, ((add bb (XO ab)), bb)))
          | XO b0 ->
            let (g, p) = ggcdn n0 a b0 in
            let (aa, bb) = p in (g, (aa, (XO bb)))
          | XH -> (XH, (a, XH)))
       | XO a0 ->
         (match b with
          | XI _ ->
            let (g, p) = ggcdn n0 a0 b in
            let (aa, bb) = p in (g, ((XO aa), bb))
          | XO b0 -> let (g, p) = ggcdn n0 a0 b0 in ((XO g), p)
          | XH -> (XH, (a, XH)))
       | XH -> (XH, (XH, b)))

  (** val ggcd : positive -> positive -> positive * (positive * positive) **)

  let ggcd a b =
    ggcdn (Coq__1.add (size_nat a) (size_nat b)) a b
 end

(** val hd : 'a1 -> 'a1 list -> 'a1 **)

let hd default = function
| [] -> default
| x :: _ -> x

(** val tl : 'a1 list -> 'a1 list **)

let tl = function
| [] -> []
| _ :: m -> m

(** val nth : nat -> 'a1 list -> 'a1 -> 'a1 **)

let rec nth n l default =
  match n with
  | O -> (match l with
          | [] -> default
          | x :: _ -> x)
  | S m -> (match l with
            | [] -> default
            | _ :: t -> nth m t default)

(** val nth_error : 'a1 list -> nat -> 'a1 option **)

let rec nth_error l = function
| O -> (match l with
        | [] -> None
        | x :: _ -> Some x)
| S n0 -> (match l with
           | [] -> None
           | _ :: l0 -> nth_error l0 n0)

(** val map : ('a1 -> 'a2) -> 'a1 list -> 'a2 list **)

let rec map f = function
| [] -> []
| a :: t -> (f a) :: (map f t)

(** val flat_map : ('a1 -> 'a2 list) -> 'a1 list -> 'a2 list **)

let rec flat_map f = function
| [] -> []
| x :: t -> app (f x) (flat_map f t)

(** val fold_right : ('a2 -> 'a1 -> 'a1) -> 'a1 -> 'a2 list -> 'a1 **)

let rec fold_right f a0 = function
| [] -> a0
| b :: t -> f b (fold_right f a0 t)

(** val forallb : ('a1 -> bool) -> 'a1 list -> bool **)

let rec forallb f = function
| [] -> true
| a :: l0 -> (&&) (f a) (forallb f l0)

(** val filter : ('a1 -> bool) -> 'a1 list -> 'a1 list **)

let rec filter f = function
| [] -> []
| x :: l0 -> if f x then x :: (filter f l0) else filter f l0

(** val find : ('a1 -> bool) -> 'a1 list -> 'a1 option **)

let rec find f = function
| [] -> None
| x :: tl0 -> if f x then Some x else find f tl0

(** val combine : 'a1 list -> 'a2 list -> ('a1 * 'a2) list **)

let rec combine l l' =
  match l with
  | [] -> []
  | x :: tl0 ->
    (match l' with
     | [] -> []
     | y :: tl' -> (x, y) :: (combine tl0 tl'))

(** val seq : nat -> nat -> nat list **)

let rec seq start = function
| O -> []
| S len0 -> start :: (seq (S start) len0)

(** val repeat : 'a1 -> nat -> 'a1 list **)

let rec repeat x = function
| O -> []
| S k -> x :: (repeat x k)

module Z =
 struct
  (** val double : z -> z **)

  let double = function
  | Z0 -> Z0
  | Zpos p -> Zpos (XO p)
  | Zneg p -> Zneg (XO p)

  (** val succ_double : z -> z **)

  let succ_double = function
  | Z0 -> Zpos XH
  | Zpos p -> Zpos (XI p)
  | Zneg p -> Zneg (Coq_Pos.pred_double p)

  (** val pred_double : z -> z **)

  let pred_double = function
  | Z0 -> Zneg XH
  | Zpos p -> Zpos (Coq_Pos.pred_double p)
  | Zneg p -> Zneg (XI p)

  (** val pos_sub : positive -> positive -> z **)

  let rec pos_sub x y =
    match x with
    | XI p ->
      (match y with
       | XI q0 -> double (pos_sub p q0)
       | XO q0 -> succ_double (pos_sub p q0)
       | XH -> Zpos (XO p))
    | XO p ->
      (match y with
       | XI q0 -> pred_double (pos_sub p q0)
       | XO q0 -> double (pos_sub p q0)
       | XH -> Zpos (Coq_Pos.pred_double p))
    | XH ->
      (match y with
       | XI q0 -> Zneg (XO q0)
       | XO q0 -> Zneg (Coq_Pos.pred_double q0)
       | XH -> Z0)

  (** val add : z -> z -> z **)

  let add x y =
    match x with
    | Z0 -> y
    | Zpos x' ->
      (match y with
       | Z0 -> x
       | Zpos y' -> Zpos (Coq_Pos.add x' y')
       | Zneg y' -> pos_sub x' y')
    | Zneg x' ->
      (match y with
       | Z0 -> x
       | Zpos y' -> pos_sub y' x'
       | Zneg y' -> Zneg (Coq_Pos.add x' y'))

  (** val opp : z -> z **)

  let opp = function
  | Z0 -> Z0
  | Zpos x0 -> Zneg x0
  | Zneg x0 -> Zpos x0

  (** val mul : z -> z -> z **)

  let mul x y =
    match x with
    | Z0 -> Z0
    | Zpos x' ->
      (match y with
       | Z0 -> Z0
       | Zpos y' -> Zpos (Coq_Pos.mul x' y')
       | Zneg y' -> Zneg (Coq_Pos.mul x' y'))
    | Zneg x' ->
      (match y with
       | Z0 -> Z0
       | Zpos y' -> Zneg (Coq_Pos.mul x' y')
       | Zneg y' -> Zpos (Coq_Pos.mul x' y'))

  (** val pow_pos : z -> positive -> z **)

  let pow_pos z0 =
    Coq_Pos.iter (mul z0) (Zpos XH)

  (** val pow : z -> z -> z **)

  let pow x = function
  | Z0 -> Zpos XH
  | Zpos p -> pow_pos x p
  | Zneg _ -> Z0

  (** val compare : z -> z -> comparison **)

  let compare x y =
    match x with
    | Z0 -> (match y with
             | Z0 -> Eq
             | Zpos _ -> Lt
             | Zneg _ -> Gt)
    | Zpos x' -> (match y with
                  | Zpos y' -> Coq_Pos.compare x' y'
                  | _ -> Gt)
    | Zneg x' ->
      (match y with
       | Zneg y' -> compOpp (Coq_Pos.compare x' y')
       | _ -> Lt)

  (** val sgn : z -> z **)

  let sgn = function
  | Z0 -> Z0
  | Zpos _ -> Zpos XH
  | Zneg _ -> Zneg XH

  (** val leb : z -> z -> bool **)

  let leb x y =
    match compare x y with
    | Gt -> false
    | _ -> true

  (** val abs : z -> z **)

  let abs = function
  | Zneg p -> Zpos p
  | x -> x

  (** val to_pos : z -> positive **)

  let to_pos = function
  | Zpos p -> p
  | _ -> XH

  (** val ggcd : z -> z -> z * (z * z) **)

  let ggcd a b =
    match a with
    | Z0 -> ((abs b), (Z0, (sgn b)))
    | Zpos a0 ->
      (match b with
       | Z0 -> ((abs a), ((sgn a), Z0))
       | Zpos b0 ->
         let (g, p) = Coq_Pos.ggcd a0 b0 in
         let (aa, bb) = p in ((Zpos g), ((Zpos aa), (Zpos bb)))
       | Zneg b0 ->
         let (g, p) = Coq_Pos.ggcd a0 b0 in
         let (aa, bb) = p in ((Zpos g), ((Zpos aa), (Zneg bb))))
    | Zneg a0 ->
      (match b with
       | Z0 -> ((abs a), ((sgn a), Z0))
       | Zpos b0 ->
         let (g, p) = Coq_Pos.ggcd a0 b0 in
         let (aa, bb) = p in ((Zpos g), ((Zneg aa), (Zpos bb)))
       | Zneg b0 ->
         let (g, p) = Coq_Pos.ggcd a0 b0 in
         let (aa, bb) = p in ((Zpos g), ((Zneg aa), (Zneg bb))))
 end

(** val zeq_bool : z -> z -> bool **)

let zeq_bool x y =
  match Z.compare x y with
  | Eq -> true
  | _ -> false

type q = { qnum : z; qden : positive }

(** val qcompare : q -> q -> comparison **)

let qcompare p q0 =
  Z.compare (Z.mul p.qnum (Zpos q0.qden)) (Z.mul q0.qnum (Zpos p.qden))

(** val qeq_bool : q -> q -> bool **)

let qeq_bool x y =
  zeq_bool (Z.mul x.qnum (Zpos y.qden)) (Z.mul y.qnum (Zpos x.qden))

(** val qle_bool : q -> q -> bool **)

let qle_bool x y =
  Z.leb (Z.mul x.qnum (Zpos y.qden)) (Z.mul y.qnum (Zpos x.qden))

(** val qplus : q -> q -> q **)

let qplus x y =
  { qnum = (Z.add (Z.mul x.qnum (Zpos y.qden)) (Z.mul y.qnum (Zpos x.qden)));
    qden = (Coq_Pos.mul x.qden y.qden) }

(** val qmult : q -> q -> q **)

let qmult x y =
  { qnum = (Z.mul x.qnum y.qnum); qden = (Coq_Pos.mul x.qden y.qden) }

(** val qopp : q -> q **)

let qopp x =
  { qnum = (Z.opp x.qnum); qden = x.qden }

(** val qinv : q -> q **)

let qinv x =
  match x.qnum with
  | Z0 -> { qnum = Z0; qden = XH }
  | Zpos p -> { qnum = (Zpos x.qden); qden = p }
  | Zneg p -> { qnum = (Zneg x.qden); qden = p }

(** val qred : q -> q **)

let qred q0 =
  let { qnum = q1; qden = q2 } = q0 in
  let (r1, r2) = snd (Z.ggcd q1 (Zpos q2)) in
  { qnum = r1; qden = (Z.to_pos r2) }

type qc = q
  (* singleton inductive, whose constructor was Qcmake *)

(** val this : qc -> q **)

let this q0 =
  q0

(** val q2Qc : q -> qc **)

let q2Qc =
  qred

(** val qcplus : qc -> qc -> qc **)

let qcplus x y =
  q2Qc (qplus (this x) (this y))

(** val qcmult : qc -> qc -> qc **)

let qcmult x y =
  q2Qc (qmult (this x) (this y))

(** val qcopp : qc -> qc **)

let qcopp x =
  q2Qc (qopp (this x))

(** val qcminus : qc -> qc -> qc **)

let qcminus x y =
  qcplus x (qcopp y)

(** val qcinv : qc -> qc **)

let qcinv x =
  q2Qc (qinv (this x))

(** val qcdiv : qc -> qc -> qc **)

let qcdiv x y =
  qcmult x (qcinv y)

(** val qleb : qc -> qc -> bool **)

let qleb x y =
  qle_bool (this x) (this y)

(** val qltb : qc -> qc -> bool **)

let qltb x y =
  negb (qleb y x)

(** val qeqb : qc -> qc -> bool **)

let qeqb x y =
  qeq_bool (this x) (this y)

(** val qz : z -> qc **)

let qz z0 =
  q2Qc { qnum = z0; qden = XH }

(** val qfrac : z -> positive -> qc **)

let qfrac a b =
  q2Qc { qnum = a; qden = b }

(** val qc_of_float : z -> z -> qc **)

let qc_of_float m = function
| Z0 -> qz m
| Zpos p -> qz (Z.mul m (Z.pow (Zpos (XO XH)) (Zpos p)))
| Zneg p -> qfrac m (Coq_Pos.pow (XO XH) p)

(** val two : qc **)

let two =
  qcplus (q2Qc { qnum = (Zpos XH); qden = XH })
    (q2Qc { qnum = (Zpos XH); qden = XH })

type vec = qc list

type mat = vec list

(** val dot : vec -> vec -> qc **)

let rec dot a x =
  match a with
  | [] -> q2Qc { qnum = Z0; qden = XH }
  | a0 :: a' ->
    (match x with
     | [] -> q2Qc { qnum = Z0; qden = XH }
     | x0 :: x' -> qcplus (qcmult a0 x0) (dot a' x'))

(** val vzip : (qc -> qc -> qc) -> vec -> vec -> vec **)

let rec vzip f u v =
  match u with
  | [] -> []
  | u0 :: u' ->
    (match v with
     | [] -> []
     | v0 :: v' -> (f u0 v0) :: (vzip f u' v'))

(** val vadd : vec -> vec -> vec **)

let vadd =
  vzip qcplus

(** val vsub : vec -> vec -> vec **)

let vsub =
  vzip qcminus

(** val vscale : qc -> vec -> vec **)

let vscale c v =
  map (qcmult c) v

(** val vopp : vec -> vec **)

let vopp v =
  map qcopp v

(** val vzero : nat -> vec **)

let vzero n =
  repeat (q2Qc { qnum = Z0; qden = XH }) n

(** val unitv : nat -> nat -> vec **)

let unitv n i =
  map (fun j ->
    if Nat.eqb j i
    then q2Qc { qnum = (Zpos XH); qden = XH }
    else q2Qc { qnum = Z0; qden = XH }) (seq O n)

(** val matvec : mat -> vec -> vec **)

let matvec a x =
  map (fun r -> dot r x) a

(** val vecmat : nat -> vec -> mat -> vec **)

let rec vecmat n r m =
  match r with
  | [] -> vzero n
  | r0 :: r' ->
    (match m with
     | [] -> vzero n
     | m0 :: m' -> vadd (vscale r0 m0) (vecmat n r' m'))

(** val matmul : nat -> mat -> mat -> mat **)

let matmul n a m =
  map (fun r -> vecmat n r m) a

(** val colsb : nat -> mat -> bool **)

let colsb n m =
  forallb (fun r -> Nat.eqb (length r) n) m

(** val mopp : mat -> mat **)

let mopp a =
  map vopp a

(** val mzip : (qc -> qc -> qc) -> mat -> mat -> mat **)

let rec mzip f a b =
  match a with
  | [] -> []
  | a0 :: a' ->
    (match b with
     | [] -> []
     | b0 :: b' -> (vzip f a0 b0) :: (mzip f a' b'))

(** val veqb : vec -> vec -> bool **)

let veqb u v =
  (&&) (Nat.eqb (length u) (length v))
    (forallb (fun p -> qeqb (fst p) (snd p)) (combine u v))

(** val meqb : mat -> mat -> bool **)

let meqb a b =
  (&&) (Nat.eqb (length a) (length b))
    (forallb (fun p -> veqb (fst p) (snd p)) (combine a b))

(** val vall_zero : vec -> bool **)

let vall_zero v =
  forallb (fun c -> qeqb c (q2Qc { qnum = Z0; qden = XH })) v

type aff = { a_in : nat; a_mat : mat; a_bias : vec }

(** val apply : aff -> vec -> vec **)

let apply f x =
  vadd (matvec f.a_mat x) f.a_bias

(** val wf_affb : aff -> bool **)

let wf_affb f =
  (&&) (colsb f.a_in f.a_mat) (Nat.eqb (length f.a_mat) (length f.a_bias))

(** val outdim : aff -> nat **)

let outdim f =
  length f.a_mat

(** val acompose : aff -> aff -> aff **)

let acompose f g =
  { a_in = g.a_in; a_mat = (matmul g.a_in f.a_mat g.a_mat); a_bias =
    (apply f g.a_bias) }

(** val aff_eqb : aff -> aff -> bool **)

let aff_eqb f g =
  (&&) ((&&) (Nat.eqb f.a_in g.a_in) (meqb f.a_mat g.a_mat))
    (veqb f.a_bias g.a_bias)

(** val aop : (qc -> qc -> qc) -> aff -> aff -> aff **)

let aop fo f g =
  { a_in = f.a_in; a_mat = (mzip fo f.a_mat g.a_mat); a_bias =
    (vzip fo f.a_bias g.a_bias) }

(** val aadd : aff -> aff -> aff **)

let aadd =
  aop qcplus

(** val asub : aff -> aff -> aff **)

let asub =
  aop qcminus

(** val amul : aff -> aff -> aff **)

let amul =
  aop qcmult

(** val aneg : aff -> aff **)

let aneg f =
  { a_in = f.a_in; a_mat = (mopp f.a_mat); a_bias = (vopp f.a_bias) }

type constr = { coef : vec; rhs : qc; strict : bool }

(** val holdsb : constr -> vec -> bool **)

let holdsb c x =
  if c.strict then qltb (dot c.coef x) c.rhs else qleb (dot c.coef x) c.rhs

(** val check_model : nat -> constr list -> vec -> bool **)

let check_model n cs x =
  (&&) (Nat.eqb (length x) n) (forallb (fun c -> holdsb c x) cs)

(** val comb : nat -> constr list -> vec -> (vec * qc) * bool **)

let rec comb n cs l =
  match cs with
  | [] -> (((vzero n), (q2Qc { qnum = Z0; qden = XH })), false)
  | c :: cs' ->
    (match l with
     | [] -> (((vzero n), (q2Qc { qnum = Z0; qden = XH })), false)
     | li :: l' ->
       let (p, s) = comb n cs' l' in
       let (v, r) = p in
       (((vadd (vscale li c.coef) v), (qcplus (qcmult li c.rhs) r)),
       ((||) ((&&) c.strict (qltb (q2Qc { qnum = Z0; qden = XH }) li)) s)))

(** val check_farkas : nat -> constr list -> vec -> bool **)

let check_farkas n cs l =
  (&&)
    ((&&)
      ((&&) (Nat.eqb (length l) (length cs))
        (forallb (fun c -> Nat.eqb (length c.coef) n) cs))
      (forallb (fun li -> qleb (q2Qc { qnum = Z0; qden = XH }) li) l))
    (let (p, s) = comb n cs l in
     let (v, r) = p in
     (&&) (vall_zero v)
       ((||) (qltb r (q2Qc { qnum = Z0; qden = XH }))
         ((&&) (qeqb r (q2Qc { qnum = Z0; qden = XH })) s)))

type row = { r_coef : vec; r_rhs : qc; r_strict : bool; r_lam : vec }

(** val qsgn : qc -> comparison **)

let qsgn q0 =
  qcompare (this q0) { qnum = Z0; qden = XH }

(** val scale_row : qc -> row -> row **)

let scale_row k r =
  { r_coef = (vscale k r.r_coef); r_rhs = (qcmult k r.r_rhs); r_strict =
    r.r_strict; r_lam = (vscale k r.r_lam) }

(** val add_row : row -> row -> row **)

let add_row p q0 =
  { r_coef = (vadd p.r_coef q0.r_coef); r_rhs = (qcplus p.r_rhs q0.r_rhs);
    r_strict = ((||) p.r_strict q0.r_strict); r_lam =
    (vadd p.r_lam q0.r_lam) }

(** val tail_row : row -> row **)

let tail_row r =
  { r_coef = (tl r.r_coef); r_rhs = r.r_rhs; r_strict = r.r_strict; r_lam =
    r.r_lam }

(** val hdc : row -> qc **)

let hdc r =
  hd (q2Qc { qnum = Z0; qden = XH }) r.r_coef

type verdict =
| Sat of vec
| Unsat of vec
| Unknown

(** val contradictory : row -> bool **)

let contradictory r =
  (||) (qltb r.r_rhs (q2Qc { qnum = Z0; qden = XH }))
    ((&&) (qeqb r.r_rhs (q2Qc { qnum = Z0; qden = XH })) r.r_strict)

(** val bnd : row -> vec -> qc **)

let bnd r x' =
  qcdiv (qcminus r.r_rhs (dot (tl r.r_coef) x')) (hdc r)

(** val maxb : (qc * bool) list -> (qc * bool) option **)

let rec maxb = function
| [] -> None
| p :: l' ->
  let (v, s) = p in
  (match maxb l' with
   | Some p0 ->
     let (w, t) = p0 in
     if qltb w v
     then Some (v, s)
     else if qltb v w then Some (w, t) else Some (v, ((||) s t))
   | None -> Some (v, s))

(** val minb : (qc * bool) list -> (qc * bool) option **)

let rec minb = function
| [] -> None
| p :: l' ->
  let (v, s) = p in
  (match minb l' with
   | Some p0 ->
     let (w, t) = p0 in
     if qltb v w
     then Some (v, s)
     else if qltb w v then Some (w, t) else Some (v, ((||) s t))
   | None -> Some (v, s))

(** val support : row -> nat **)

let support r =
  length
    (filter (fun l -> negb (qeqb l (q2Qc { qnum = Z0; qden = XH }))) r.r_lam)

(** val fm : nat -> nat -> row list -> verdict **)

let rec fm k nv rows =
  match nv with
  | O ->
    (match find contradictory rows with
     | Some r -> Unsat r.r_lam
     | None -> Sat [])
  | S nv' ->
    let pos =
      filter (fun r -> match qsgn (hdc r) with
                       | Gt -> true
                       | _ -> false) rows
    in
    let neg =
      filter (fun r -> match qsgn (hdc r) with
                       | Lt -> true
                       | _ -> false) rows
    in
    let zer =
      filter (fun r -> match qsgn (hdc r) with
                       | Eq -> true
                       | _ -> false) rows
    in
    let npos = map (fun r -> scale_row (qcinv (hdc r)) r) pos in
    let nneg = map (fun r -> scale_row (qcinv (qcopp (hdc r))) r) neg in
    let combos =
      flat_map (fun p -> map (fun q0 -> tail_row (add_row p q0)) nneg) npos
    in
    let combos0 = filter (fun r -> Nat.leb (support r) (S (S k))) combos in
    (match fm (S k) nv' (app (map tail_row zer) combos0) with
     | Sat x' ->
       let ub = minb (map (fun r -> ((bnd r x'), r.r_strict)) pos) in
       let lb = maxb (map (fun r -> ((bnd r x'), r.r_strict)) neg) in
       let x0 =
         match lb with
         | Some p ->
           let (l, _) = p in
           (match ub with
            | Some p0 -> let (u, _) = p0 in qcdiv (qcplus l u) two
            | None -> qcplus l (q2Qc { qnum = (Zpos XH); qden = XH }))
         | None ->
           (match ub with
            | Some p ->
              let (u, _) = p in
              qcminus u (q2Qc { qnum = (Zpos XH); qden = XH })
            | None -> q2Qc { qnum = Z0; qden = XH })
       in
       Sat (x0 :: x')
     | x -> x)

(** val init_rows : nat -> nat -> constr list -> row list **)

let rec init_rows m i = function
| [] -> []
| c :: cs' ->
  { r_coef = c.coef; r_rhs = c.rhs; r_strict = c.strict; r_lam =
    (unitv m i) } :: (init_rows m (S i) cs')

(** val solve : nat -> constr list -> verdict **)

let solve n cs =
  match fm O n (init_rows (length cs) O cs) with
  | Sat x -> if check_model n cs x then Sat x else Unknown
  | Unsat l -> if check_farkas n cs l then Unsat l else Unknown
  | Unknown -> Unknown

type ptree =
| U
| T of aff
| D of aff * ptree list

(** val label_of : bool list -> nat **)

let rec label_of = function
| [] -> O
| b :: bs -> add (if b then S O else O) (mul (S (S O)) (label_of bs))

(** val bits : mat -> vec -> vec -> bool list **)

let rec bits a b x =
  match a with
  | [] -> []
  | r :: a' ->
    (match b with
     | [] -> []
     | b0 :: b' -> (qleb (dot r x) b0) :: (bits a' b' x))

(** val decide : aff -> vec -> nat **)

let decide p x =
  label_of (bits p.a_mat p.a_bias x)

(** val term : ptree -> vec -> aff option **)

let rec term t x =
  match t with
  | U -> None
  | T f -> Some f
  | D (p, ch) -> nth (decide p x) (map (fun c -> term c x) ch) None

(** val eval : ptree -> vec -> vec option **)

let rec eval t x =
  match t with
  | U -> None
  | T f -> Some (apply f x)
  | D (p, ch) -> nth (decide p x) (map (fun c -> eval c x) ch) None

(** val route : ptree -> vec -> nat list option **)

let rec route t x =
  match t with
  | U -> None
  | T _ -> Some []
  | D (p, ch) ->
    option_map (fun x0 -> (decide p x) :: x0)
      (nth (decide p x) (map (fun c -> route c x) ch) None)

type schema = { s_dec : (aff -> aff -> aff); s_term : (aff -> aff -> aff) }

(** val graft : schema -> ptree -> aff -> ptree **)

let rec graft s g t =
  match g with
  | U -> U
  | T f -> T (s.s_term f t)
  | D (p, ch) -> D ((s.s_dec p t), (map (fun c -> graft s c t) ch))

(** val lift : schema -> ptree -> ptree -> ptree **)

let rec lift s f g =
  match f with
  | U -> U
  | T t -> graft s g t
  | D (p, ch) -> D (p, (map (fun c -> lift s c g) ch))

(** val upd_dec : aff -> aff -> aff **)

let upd_dec p t =
  { a_in = t.a_in; a_mat = (matmul t.a_in p.a_mat t.a_mat); a_bias =
    (vadd (vopp (matvec p.a_mat t.a_bias)) p.a_bias) }

(** val comp_schema : schema **)

let comp_schema =
  { s_dec = upd_dec; s_term = acompose }

(** val compose : ptree -> ptree -> ptree **)

let compose f g =
  lift comp_schema f g

(** val apply_func : aff -> ptree -> ptree **)

let rec apply_func a = function
| U -> U
| T f -> T (acompose a f)
| D (p, ch) -> D (p, (map (apply_func a) ch))

(** val wfb : nat -> ptree -> bool **)

let rec wfb n = function
| U -> true
| T f -> (&&) (wf_affb f) (Nat.eqb f.a_in n)
| D (p, ch) -> (&&) ((&&) (wf_affb p) (Nat.eqb p.a_in n)) (forallb (wfb n) ch)

(** val outsb : nat -> ptree -> bool **)

let rec outsb m = function
| U -> true
| T f -> Nat.eqb (outdim f) m
| D (_, ch) -> forallb (outsb m) ch

(** val size : ptree -> nat **)

let rec size = function
| U -> O
| T _ -> S O
| D (_, ch) -> S (fold_right (fun c acc -> add (size c) acc) O ch)

(** val nterms : ptree -> nat **)

let rec nterms = function
| U -> O
| T _ -> S O
| D (_, ch) -> fold_right (fun c acc -> add (nterms c) acc) O ch

(** val bit_constr : vec -> qc -> bool -> constr **)

let bit_constr r b = function
| true -> { coef = r; rhs = b; strict = false }
| false -> { coef = (vopp r); rhs = (qcopp b); strict = true }

(** val bv_constrs : mat -> vec -> bool list -> constr list **)

let rec bv_constrs a b bv =
  match a with
  | [] -> []
  | r :: a' ->
    (match b with
     | [] -> []
     | b0 :: b' ->
       (match bv with
        | [] -> []
        | bit :: bv' -> (bit_constr r b0 bit) :: (bv_constrs a' b' bv')))

(** val all_bvs : nat -> bool list list **)

let rec all_bvs = function
| O -> [] :: []
| S r' ->
  flat_map (fun bv -> (true :: bv) :: ((false :: bv) :: [])) (all_bvs r')

type piece = constr list * aff option

(** val concat_opt : 'a1 list option list -> 'a1 list option **)

let rec concat_opt = function
| [] -> Some []
| o :: l' ->
  (match o with
   | Some a ->
     (match concat_opt l' with
      | Some r -> Some (app a r)
      | None -> None)
   | None -> None)

(** val pieces : nat -> ptree -> constr list -> piece list option **)

let rec pieces n t cs =
  match t with
  | U -> Some ((cs, None) :: [])
  | T f -> Some ((cs, (Some f)) :: [])
  | D (p, ch) ->
    let subs = map (pieces n) ch in
    let r = Nat.min (length p.a_mat) (length p.a_bias) in
    concat_opt
      (map (fun bv ->
        let cs' = app (bv_constrs p.a_mat p.a_bias bv) cs in
        (match solve n cs' with
         | Sat _ ->
           nth (label_of bv) subs (fun c -> Some ((c, None) :: [])) cs'
         | Unsat _ -> Some []
         | Unknown -> None)) (all_bvs r))

type tres =
| Equal
| Differ of vec
| TUnknown

(** val tres_and : tres -> tres -> tres **)

let tres_and a b =
  match a with
  | Equal -> b
  | _ -> a

(** val tres_all : ('a1 -> tres) -> 'a1 list -> tres **)

let rec tres_all f = function
| [] -> Equal
| a :: l' -> tres_and (f a) (tres_all f l')

(** val witness : nat -> constr list -> tres **)

let witness n c =
  match solve n c with
  | Sat x -> Differ x
  | Unsat _ -> Equal
  | Unknown -> TUnknown

(** val row_equal : nat -> constr list -> vec -> qc -> vec -> qc -> tres **)

let row_equal n c r1 b1 r2 b2 =
  if negb ((&&) (Nat.eqb (length r1) n) (Nat.eqb (length r2) n))
  then TUnknown
  else if (&&) (veqb r1 r2) (qeqb b1 b2)
       then Equal
       else tres_and
              (witness n ({ coef = (vsub r1 r2); rhs = (qcminus b2 b1);
                strict = true } :: c))
              (witness n ({ coef = (vsub r2 r1); rhs = (qcminus b1 b2);
                strict = true } :: c))

(** val rows_equal :
    nat -> constr list -> mat -> vec -> mat -> vec -> tres **)

let rec rows_equal n c a1 b1 a2 b2 =
  match a1 with
  | [] ->
    (match b1 with
     | [] ->
       (match a2 with
        | [] -> (match b2 with
                 | [] -> Equal
                 | _ :: _ -> TUnknown)
        | _ :: _ -> TUnknown)
     | _ :: _ -> TUnknown)
  | r1 :: a1' ->
    (match b1 with
     | [] -> TUnknown
     | x1 :: b1' ->
       (match a2 with
        | [] -> TUnknown
        | r2 :: a2' ->
          (match b2 with
           | [] -> TUnknown
           | x2 :: b2' ->
             tres_and (row_equal n c r1 x1 r2 x2)
               (rows_equal n c a1' b1' a2' b2'))))

(** val cmp_out : nat -> constr list -> aff option -> aff option -> tres **)

let cmp_out n c o1 o2 =
  match o1 with
  | Some f ->
    (match o2 with
     | Some g ->
       if (&&) (Nat.eqb (length f.a_mat) (length g.a_mat))
            (Nat.eqb (length f.a_bias) (length g.a_bias))
       then rows_equal n c f.a_mat f.a_bias g.a_mat g.a_bias
       else witness n c
     | None -> witness n c)
  | None -> (match o2 with
             | Some _ -> witness n c
             | None -> Equal)

(** val tree_equiv : nat -> constr list -> ptree -> ptree -> tres **)

let tree_equiv n cs t1 t2 =
  match pieces n t1 cs with
  | Some ps1 ->
    tres_all (fun p1 ->
      match pieces n t2 (fst p1) with
      | Some ps2 ->
        tres_all (fun p2 -> cmp_out n (fst p2) (snd p1) (snd p2)) ps2
      | None -> TUnknown) ps1
  | None -> TUnknown

(** val out_eqb : vec option -> vec option -> bool **)

let out_eqb a b =
  match a with
  | Some u -> (match b with
               | Some v -> veqb u v
               | None -> false)
  | None -> (match b with
             | Some _ -> false
             | None -> true)

(** val check_cex : nat -> constr list -> ptree -> ptree -> vec -> bool **)

let check_cex n cs t1 t2 x =
  (&&) (check_model n cs x) (negb (out_eqb (eval t1 x) (eval t2 x)))

type 'v cell = { c_val : 'v; c_parent : nat option;
                 c_children : nat option list; c_leaf : bool }

type 'v arena = 'v cell option list

(** val aget : 'a1 arena -> nat -> 'a1 cell option **)

let aget a i =
  match nth_error a i with
  | Some o -> o
  | None -> None

(** val aset : 'a1 arena -> nat -> 'a1 cell option -> 'a1 arena **)

let rec aset a i c =
  match i with
  | O -> (match a with
          | [] -> c :: []
          | _ :: a' -> c :: a')
  | S i' ->
    (match a with
     | [] -> None :: (aset [] i' c)
     | x :: a' -> x :: (aset a' i' c))

(** val alen : 'a1 arena -> nat **)

let alen a =
  length (filter (fun o -> match o with
                           | Some _ -> true
                           | None -> false) a)

(** val akeys : 'a1 arena -> nat list **)

let akeys a =
  map fst
    (filter (fun p -> match snd p with
                      | Some _ -> true
                      | None -> false) (combine (seq O (length a)) a))

type nstate =
| Indet
| Infeas
| Feas
| FeasW of vec list

type acont = { ac_aff : aff; ac_state : nstate }

type afftree = { at_in : nat; at_root : nat; at_arena : acont arena }

(** val opt_all : 'a1 option list -> 'a1 list option **)

let rec opt_all = function
| [] -> Some []
| o :: l' ->
  (match o with
   | Some a -> (match opt_all l' with
                | Some r -> Some (a :: r)
                | None -> None)
   | None -> None)

(** val abs_at : nat -> acont arena -> nat -> ptree option **)

let rec abs_at fuel a i =
  match fuel with
  | O -> None
  | S fuel' ->
    (match aget a i with
     | Some c ->
       if c.c_leaf
       then Some (T c.c_val.ac_aff)
       else (match opt_all
                     (map (fun oc ->
                       match oc with
                       | Some j -> abs_at fuel' a j
                       | None -> Some U) c.c_children) with
             | Some ch -> Some (D (c.c_val.ac_aff, ch))
             | None -> None)
     | None -> None)

(** val abs_tree : afftree -> ptree option **)

let abs_tree t =
  abs_at (S (length t.at_arena)) t.at_arena t.at_root

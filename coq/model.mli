
val negb : bool -> bool

type nat =
| O
| S of nat

val option_map : ('a1 -> 'a2) -> 'a1 option -> 'a2 option

val fst : ('a1 * 'a2) -> 'a1

val snd : ('a1 * 'a2) -> 'a2

val length : 'a1 list -> nat

val app : 'a1 list -> 'a1 list -> 'a1 list

type comparison =
| Eq
| Lt
| Gt

val compOpp : comparison -> comparison

val add : nat -> nat -> nat

val mul : nat -> nat -> nat

type positive =
| XI of positive
| XO of positive
| XH

type z =
| Z0
| Zpos of positive
| Zneg of positive

module Nat :
 sig
  val eqb : nat -> nat -> bool

  val leb : nat -> nat -> bool

  val min : nat -> nat -> nat
 end

module Pos :
 sig
  type mask =
  | IsNul
  | IsPos of positive
  | IsNeg
 end

module Coq_Pos :
 sig
  val succ : positive -> positive

  val add : positive -> positive -> positive

  val add_carry : positive -> positive -> positive

  val pred_double : positive -> positive

  type mask = Pos.mask =
  | IsNul
  | IsPos of positive
  | IsNeg

  val succ_double_mask : mask -> mask

  val double_mask : mask -> mask

  val double_pred_mask : positive -> mask

  val sub_mask : positive -> positive -> mask

  val sub_mask_carry : positive -> positive -> mask

  val sub : positive -> positive -> positive

  val mul : positive -> positive -> positive

  val iter : ('a1 -> 'a1) -> 'a1 -> positive -> 'a1

  val pow : positive -> positive -> positive

  val size_nat : positive -> nat

  val compare_cont : comparison -> positive -> positive -> comparison

  val compare : positive -> positive -> comparison

  val ggcdn : nat -> positive -> positive -> positive * (positive * positive)

  val ggcd : positive -> positive -> positive * (positive * positive)
 end

val hd : 'a1 -> 'a1 list -> 'a1

val tl : 'a1 list -> 'a1 list

val nth : nat -> 'a1 list -> 'a1 -> 'a1

val nth_error : 'a1 list -> nat -> 'a1 option

val map : ('a1 -> 'a2) -> 'a1 list -> 'a2 list

val flat_map : ('a1 -> 'a2 list) -> 'a1 list -> 'a2 list

val fold_right : ('a2 -> 'a1 -> 'a1) -> 'a1 -> 'a2 list -> 'a1

val forallb : ('a1 -> bool) -> 'a1 list -> bool

val filter : ('a1 -> bool) -> 'a1 list -> 'a1 list

val find : ('a1 -> bool) -> 'a1 list -> 'a1 option

val combine : 'a1 list -> 'a2 list -> ('a1 * 'a2) list

val seq : nat -> nat -> nat list

val repeat : 'a1 -> nat -> 'a1 list

module Z :
 sig
  val double : z -> z

  val succ_double : z -> z

  val pred_double : z -> z

  val pos_sub : positive -> positive -> z

  val add : z -> z -> z

  val opp : z -> z

  val mul : z -> z -> z

  val pow_pos : z -> positive -> z

  val pow : z -> z -> z

  val compare : z -> z -> comparison

  val sgn : z -> z

  val leb : z -> z -> bool

  val abs : z -> z

  val to_pos : z -> positive

  val ggcd : z -> z -> z * (z * z)
 end

val zeq_bool : z -> z -> bool

type q = { qnum : z; qden : positive }

val qcompare : q -> q -> comparison

val qeq_bool : q -> q -> bool

val qle_bool : q -> q -> bool

val qplus : q -> q -> q

val qmult : q -> q -> q

val qopp : q -> q

val qinv : q -> q

val qred : q -> q

type qc = q
  (* singleton inductive, whose constructor was Qcmake *)

val this : qc -> q

val q2Qc : q -> qc

val qcplus : qc -> qc -> qc

val qcmult : qc -> qc -> qc

val qcopp : qc -> qc

val qcminus : qc -> qc -> qc

val qcinv : qc -> qc

val qcdiv : qc -> qc -> qc

val qleb : qc -> qc -> bool

val qltb : qc -> qc -> bool

val qeqb : qc -> qc -> bool

val qz : z -> qc

val qfrac : z -> positive -> qc

val qc_of_float : z -> z -> qc

val two : qc

type vec = qc list

type mat = vec list

val dot : vec -> vec -> qc

val vzip : (qc -> qc -> qc) -> vec -> vec -> vec

val vadd : vec -> vec -> vec

val vsub : vec -> vec -> vec

val vscale : qc -> vec -> vec

val vopp : vec -> vec

val vzero : nat -> vec

val unitv : nat -> nat -> vec

val matvec : mat -> vec -> vec

val vecmat : nat -> vec -> mat -> vec

val matmul : nat -> mat -> mat -> mat

val colsb : nat -> mat -> bool

val mopp : mat -> mat

val mzip : (qc -> qc -> qc) -> mat -> mat -> mat

val veqb : vec -> vec -> bool

val meqb : mat -> mat -> bool

val vall_zero : vec -> bool

type aff = { a_in : nat; a_mat : mat; a_bias : vec }

val apply : aff -> vec -> vec

val wf_affb : aff -> bool

val outdim : aff -> nat

val acompose : aff -> aff -> aff

val aff_eqb : aff -> aff -> bool

val aop : (qc -> qc -> qc) -> aff -> aff -> aff

val aadd : aff -> aff -> aff

val asub : aff -> aff -> aff

val amul : aff -> aff -> aff

val aneg : aff -> aff

type constr = { coef : vec; rhs : qc; strict : bool }

val holdsb : constr -> vec -> bool

val check_model : nat -> constr list -> vec -> bool

val comb : nat -> constr list -> vec -> (vec * qc) * bool

val check_farkas : nat -> constr list -> vec -> bool

type row = { r_coef : vec; r_rhs : qc; r_strict : bool; r_lam : vec }

val qsgn : qc -> comparison

val scale_row : qc -> row -> row

val add_row : row -> row -> row

val tail_row : row -> row

val hdc : row -> qc

type verdict =
| Sat of vec
| Unsat of vec
| Unknown

val contradictory : row -> bool

val bnd : row -> vec -> qc

val maxb : (qc * bool) list -> (qc * bool) option

val minb : (qc * bool) list -> (qc * bool) option

val support : row -> nat

val fm : nat -> nat -> row list -> verdict

val init_rows : nat -> nat -> constr list -> row list

val solve : nat -> constr list -> verdict

type ptree =
| U
| T of aff
| D of aff * ptree list

val label_of : bool list -> nat

val bits : mat -> vec -> vec -> bool list

val decide : aff -> vec -> nat

val term : ptree -> vec -> aff option

val eval : ptree -> vec -> vec option

val route : ptree -> vec -> nat list option

type schema = { s_dec : (aff -> aff -> aff); s_term : (aff -> aff -> aff) }

val graft : schema -> ptree -> aff -> ptree

val lift : schema -> ptree -> ptree -> ptree

val upd_dec : aff -> aff -> aff

val comp_schema : schema

val compose : ptree -> ptree -> ptree

val apply_func : aff -> ptree -> ptree

val wfb : nat -> ptree -> bool

val outsb : nat -> ptree -> bool

val size : ptree -> nat

val nterms : ptree -> nat

val bit_constr : vec -> qc -> bool -> constr

val bv_constrs : mat -> vec -> bool list -> constr list

val all_bvs : nat -> bool list list

type piece = constr list * aff option

val concat_opt : 'a1 list option list -> 'a1 list option

val pieces : nat -> ptree -> constr list -> piece list option

type tres =
| Equal
| Differ of vec
| TUnknown

val tres_and : tres -> tres -> tres

val tres_all : ('a1 -> tres) -> 'a1 list -> tres

val witness : nat -> constr list -> tres

val row_equal : nat -> constr list -> vec -> qc -> vec -> qc -> tres

val rows_equal : nat -> constr list -> mat -> vec -> mat -> vec -> tres

val cmp_out : nat -> constr list -> aff option -> aff option -> tres

val tree_equiv : nat -> constr list -> ptree -> ptree -> tres

val out_eqb : vec option -> vec option -> bool

val check_cex : nat -> constr list -> ptree -> ptree -> vec -> bool

type 'v cell = { c_val : 'v; c_parent : nat option;
                 c_children : nat option list; c_leaf : bool }

type 'v arena = 'v cell option list

val aget : 'a1 arena -> nat -> 'a1 cell option

val aset : 'a1 arena -> nat -> 'a1 cell option -> 'a1 arena

val alen : 'a1 arena -> nat

val akeys : 'a1 arena -> nat list

type nstate =
| Indet
| Infeas
| Feas
| FeasW of vec list

type acont = { ac_aff : aff; ac_state : nstate }

type afftree = { at_in : nat; at_root : nat; at_arena : acont arena }

val opt_all : 'a1 option list -> 'a1 list option

val abs_at : nat -> acont arena -> nat -> ptree option

val abs_tree : afftree -> ptree option
